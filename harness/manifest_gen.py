#!/venv/bin/python
"""manifest_gen.py — write MANIFEST.json from harness/manifest_data.py (single source of truth)."""
import json, os, sys
here = os.path.dirname(os.path.abspath(__file__))
sys.path.insert(0, here)
from manifest_data import CHECKS, NOT_APPLICABLE, NOTES
VERIF = os.path.normpath(os.path.join(here, ".."))
man = {
    "version": 1,
    "setup_cmd": "./bin/setup",
    "hooks": {
        "guard": "PYCOMM3_VERIF",
        "enable": "no source hooks: the harness replaces the socket layer from outside (pycomm3.cip_driver.Socket / socket.socket patched in the harness process)",
        "baseline_off_cmd": "cd /repo && /venv/bin/python -m pytest -ra -q -p no:cacheprovider --timeout=900 --continue-on-collection-errors tests/offline",
        "source_commits": [],
        "add_only": True,
    },
    "engines": [
        {"name": "coq-proof+correspondence", "path": "bin/check",
         "serves_properties": [c["property_id"] for c in CHECKS],
         "kind_free_text": "Coq 8.16.1 theorems over Gallina models (coq/), tables regenerated from /repo (harness/gen_tables.py), models extracted to OCaml co-processes and compared with the implementation (harness/props/*.py)"},
    ],
    "checks": [],
    "notes": NOTES,
    "not_applicable": NOT_APPLICABLE,
}
for c in CHECKS:
    pid = c["property_id"]
    man["checks"].append({
        "property_id": pid,
        "quick_cmd": f"./bin/check {pid} --tier quick",
        "thorough_cmd": f"./bin/check {pid} --tier thorough",
        "evidence_file": f"/verif/evidence/{pid}.json",
        "replay_cmd_template": f"./bin/check {pid} --replay {{path}}",
        "engine": "coq-proof+correspondence",
        "level_claimed": {"category": "proof", "text": c["text"], "design_ref": c.get("design_ref", "DESIGN.md section 7")},
        "level_note": c["note"],
        "technique": c["technique"],
    })
json.dump(man, open(os.path.join(VERIF, "MANIFEST.json"), "w"), indent=1)
print("MANIFEST.json written:", len(man["checks"]), "checks,", len(man["not_applicable"]), "not applicable")
