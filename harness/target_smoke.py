"""target_smoke.py — the real pycomm3 drivers against the reference target's core half.
run:  cd /verif && PYTHONPATH=/repo timeout 300 /venv/bin/python harness/target_smoke.py
Exit 0 when every expectation holds; prints one line per step and a summary."""
import os
import struct
import sys
import time
import traceback

sys.path.insert(0, os.path.dirname(os.path.abspath(__file__)))
sys.path.insert(0, os.environ.get("VERIF_REPO", "/repo"))
import logging  # noqa: E402

logging.disable(logging.CRITICAL)          # the drivers log refused opens etc. with tracebacks

import target as T  # noqa: E402
from pycomm3 import CIPDriver, LogixDriver  # noqa: E402
from pycomm3.exceptions import ResponseError, CommError  # noqa: E402

RESULTS = []
NOTES = []


def step(name):
    def deco(fn):
        t0 = time.time()
        try:
            fn()
            RESULTS.append((name, True, ""))
            print(f"ok    {name}  ({(time.time() - t0) * 1000:.0f} ms)")
        except Exception as e:  # noqa: BLE001
            RESULTS.append((name, False, repr(e)))
            print(f"FAIL  {name}: {e!r}")
            traceback.print_exc()
        return fn
    return deco


def clean(tp, start=0, allow=()):
    """no EvBadFrame / EvMalformed / EvOversize / EvReplyTooLarge since event `start`, except `allow`
    = set of (ev, code) pairs; every frame the driver wrote is accepted by the strict parser."""
    bad = [e for e in T.bad_events(tp.log(start)) if (e["ev"], e.get("why")) not in allow]
    assert not bad, f"unexpected events: {bad}"


def frames_ok(tp, fs):
    for fr in fs.sent:
        r = tp.parseframe(fr)
        assert "rej" not in r, f"strict parser rejects {fr.hex()} with code {r}"


def new_target(**cfg):
    tp = T.TargetProc("targetcore")
    tp.cfg(**cfg)
    return tp


HANDLE = 0x5A5A0001
CONN = 0x7E570001


@step("CIPDriver open/close, Large Forward Open accepted, connected generic_message")
def _():
    tp = new_target(session_handle=HANDLE, conn_id=CONN)
    drv = T.open_driver(CIPDriver, "192.168.1.10", tp)
    assert tp.sessions() == [HANDLE] and tp.conns() == []
    assert drv._session == HANDLE
    data = bytes(range(1, 40))
    tag = drv.generic_message(service=0x4B, class_code=0x300, instance=1, request_data=data, name="echo")
    assert tag and tag.value == data, tag
    cs = tp.conns()
    assert len(cs) == 1 and cs[0]["large"] == 1 and cs[0]["ot_size"] == 4000 and cs[0]["to_size"] == 4000, cs
    assert cs[0]["ot_id"] == CONN and cs[0]["session"] == HANDLE and cs[0]["route"] == b""
    assert drv._target_cid == struct.pack("<I", CONN)
    # set / get attribute single on a scratch object (16-bit class id, attribute in the path)
    assert drv.generic_message(service=0x10, class_code=0x301, instance=7, attribute=3, request_data=b"\x11\x22\x33")
    tag = drv.generic_message(service=0x0E, class_code=0x301, instance=7, attribute=3)
    assert tag and tag.value == b"\x11\x22\x33", tag
    # an object nobody implements: 0x05, error named in the Tag
    tag = drv.generic_message(service=0x0E, class_code=0x77, instance=1, attribute=1)
    assert not tag and tag.error, tag
    reqs = [e for e in tp.log() if e["ev"] == "request" and e["transport"][0] == "conn"]
    assert [e["seq"] for e in reqs] == [1, 2, 3, 4], reqs
    assert reqs[0]["service"] == 0x4B and reqs[0]["data"] == data and reqs[0]["path"] == bytes.fromhex("210000032401")
    drv.close()
    assert tp.sessions() == [] and tp.conns() == []
    clean(tp)
    frames_ok(tp, drv.fakesock)
    # re-open the same driver object: fresh handle and connection id
    drv.open()
    assert tp.sessions() == [HANDLE + 1]
    assert drv.generic_message(service=0x4C, class_code=0x300, instance=1, request_data=b"zz").value == b"zz"
    assert tp.conns()[0]["ot_id"] == CONN + 1
    drv.close()
    clean(tp)
    tp.close()


@step("CIPDriver: Large Forward Open refused (0x08) -> standard Forward Open, 500 bytes")
def _():
    tp = new_target(accept_large_fo=False)
    drv = T.open_driver(CIPDriver, "192.168.1.10", tp)
    tag = drv.generic_message(service=0x4B, class_code=0x300, instance=1, request_data=b"abc")
    assert tag and tag.value == b"abc"
    cs = tp.conns()
    assert len(cs) == 1 and cs[0]["large"] == 0 and cs[0]["ot_size"] == 500, cs
    assert drv.connection_size == 500
    apps = [e for e in tp.log() if e["ev"] == "app" and e["tag"] in (1010, 1011)]
    assert [e["tag"] for e in apps] == [1011, 1010] and apps[0]["args"][:2] == [0x5B, 0x08], apps
    drv.close()
    assert tp.sessions() == [] and tp.conns() == []
    clean(tp)
    frames_ok(tp, drv.fakesock)
    tp.close()


@step("CIPDriver: both Forward Opens refused -> ResponseError, nothing left open")
def _():
    tp = new_target(accept_large_fo=False, accept_std_fo=False)
    drv = T.open_driver(CIPDriver, "192.168.1.10", tp)
    try:
        drv.generic_message(service=0x4B, class_code=0x300, instance=1, request_data=b"abc")
        raise AssertionError("expected ResponseError")
    except ResponseError:
        pass
    assert tp.conns() == [] and len(tp.sessions()) == 1
    # unconnected messaging still works on the session
    tag = drv.generic_message(service=0x4B, class_code=0x300, instance=1, request_data=b"q", connected=False, route_path=False)
    assert tag and tag.value == b"q"
    drv.close()
    assert tp.sessions() == []
    clean(tp)
    frames_ok(tp, drv.fakesock)
    tp.close()


@step("CIPDriver: session refused -> open() is falsy, no session")
def _():
    tp = new_target(accept_session=False)
    drv = T.open_driver(CIPDriver, "192.168.1.10", tp, open=False)
    assert not drv.open()
    assert tp.sessions() == [] and drv._session == 0
    drv.close()
    clean(tp)
    frames_ok(tp, drv.fakesock)
    tp.close()


@step("CIPDriver: unconnected generic_message (route_path=False) and error injection")
def _():
    tp = new_target()
    drv = T.open_driver(CIPDriver, "192.168.1.10", tp)
    assert drv.generic_message(service=0x10, class_code=0x3FF, instance=0x1234, attribute=9, request_data=b"\x01\x02",
                               connected=False, route_path=False)
    tag = drv.generic_message(service=0x0E, class_code=0x3FF, instance=0x1234, attribute=9, connected=False, route_path=False)
    assert tag and tag.value == b"\x01\x02", tag
    ev = [e for e in tp.log() if e["ev"] == "request"]
    assert all(e["transport"] == ("ucmm",) and e["seq"] is None for e in ev), ev
    assert ev[0]["path"] == bytes.fromhex("2100ff03250034123009") and ev[0]["data"] == b"\x01\x02", ev[0]
    tp.inject(1, 0x4B, 0x0C, 0x1234)     # the second 0x4B from now fails with 0x0C ext 0x1234
    a = drv.generic_message(service=0x4B, class_code=0x300, instance=1, request_data=b"a", connected=False, route_path=False)
    b = drv.generic_message(service=0x4B, class_code=0x300, instance=1, request_data=b"b", connected=False, route_path=False)
    c = drv.generic_message(service=0x4B, class_code=0x300, instance=1, request_data=b"c", connected=False, route_path=False)
    assert a and not b and c and b.error, (a, b, c)
    assert tp.injections() == []
    drv.close()
    clean(tp)
    frames_ok(tp, drv.fakesock)
    tp.close()


@step("CIPDriver: unconnected generic_message with the DEFAULT route_path=True (appends the route to the data)")
def _():
    tp = new_target()
    drv = T.open_driver(CIPDriver, "192.168.1.10", tp)
    n0 = tp.log_size()
    tag = drv.generic_message(service=0x4B, class_code=0x300, instance=1, request_data=b"abc", connected=False)
    req = [e for e in tp.log(n0) if e["ev"] == "request"][0]
    if req["data"] != b"abc":
        NOTES.append("client behaviour (C14): generic_message(connected=False, unconnected_send=False) with the default "
                     f"route_path=True delivers request data {req['data'].hex()} for caller data {b'abc'.hex()} "
                     "(the encoded route is appended after the request data)")
    assert tag.value == req["data"]
    n1 = tp.log_size()
    drv.generic_message(service=0x01, class_code=0x01, instance=1, connected=False)   # Identity Get_Attributes_All + 2 bytes
    mal = [e for e in tp.log(n1) if e["ev"] == "malformed"]
    if mal:
        NOTES.append(f"  -> the Identity object receives data with Get_Attributes_All: EvMalformed {mal} (tolerated by the target)")
    drv.close()
    clean(tp, allow={("malformed", 80)})
    frames_ok(tp, drv.fakesock)
    tp.close()


@step("CIPDriver with a route: connected, Unconnected Send, get_module_info, list_identity")
def _():
    tp = new_target(expect_route=bytes([1, 2]))
    drv = T.open_driver(CIPDriver, "192.168.1.10/bp/2", tp)
    tag = drv.generic_message(service=0x4D, class_code=0x300, instance=2, request_data=b"odd", connected=False, unconnected_send=True)
    assert tag and tag.value == b"odd", tag
    tag = drv.generic_message(service=0x4D, class_code=0x300, instance=2, request_data=b"even", connected=False, unconnected_send=True)
    assert tag and tag.value == b"even", tag
    ev = [e for e in tp.log() if e["ev"] == "request"]
    assert [e["transport"] for e in ev] == [("ucsend", bytes([1, 2]))] * 2 and [e["data"] for e in ev] == [b"odd", b"even"], ev
    assert drv.generic_message(service=0x4B, class_code=0x300, instance=1, request_data=b"x").value == b"x"
    assert tp.conns()[0]["route"] == bytes([1, 2])
    # a route the topology does not have is refused
    tag = drv.generic_message(service=0x4D, class_code=0x300, instance=2, request_data=b"odd", connected=False,
                              unconnected_send=True, route_path="bp/5")
    assert not tag
    tp.cfg(expect_route=None)
    info = drv.get_module_info(3)
    assert info["product_name"] == "1756-L83E/B" and info["serial"] == "00c0ffee" and info["revision"] == {"major": 32, "minor": 11}, info
    last = [e for e in tp.log() if e["ev"] == "request"][-1]
    assert last["transport"] == ("ucsend", bytes([1, 3])) and last["service"] == 1 and last["data"] == b"", last
    ident = drv._list_identity()
    assert ident["product_name"] == "1756-L83E/B" and ident["ip_address"] == "192.168.1.10" and ident["state"] == 3, ident
    assert ident["vendor"] == "Rockwell Automation/Allen-Bradley" and ident["product_code"] == 167 and ident["encap_protocol_version"] == 1
    drv.close()
    assert tp.sessions() == [] and tp.conns() == []
    clean(tp, allow={("malformed", 90)})
    frames_ok(tp, drv.fakesock)
    with T.patched_socket(tp) as fs:
        ident = CIPDriver.list_identity("192.168.1.10")
    assert ident["serial"] == "00c0ffee", ident
    assert tp.sessions() == []
    frames_ok(tp, fs)
    clean(tp, allow={("malformed", 90)})
    tp.close()


@step("LogixDriver(init_tags=False): open fetches identity + program name; get_plc_time / set_plc_time")
def _():
    tp = new_target(plc_name=b"SmokeTest", clock_us=1_234_567_890_123_456, rev_major=33, expect_route=bytes([1, 0]))
    drv = T.open_driver(LogixDriver, "192.168.1.10", tp, init_tags=False, init_program_tags=False)
    assert drv.info["name"] == "SmokeTest" and drv.info["revision"]["major"] == 33, drv.info
    assert drv.info["keyswitch"] and drv.info["product_name"] == "1756-L83E/B", drv.info
    cs = tp.conns()
    assert len(cs) == 1 and cs[0]["large"] == 1 and cs[0]["route"] == bytes([1, 0]), cs
    ev = [e for e in tp.log() if e["ev"] == "request"]
    assert ev[0]["transport"] == ("ucsend", bytes([1, 0])) and ev[0]["service"] == 1 and ev[0]["data"] == b"", ev[0]
    t = drv.get_plc_time()
    assert t and t.value["microseconds"] == 1_234_567_890_123_456, t
    for us in (0, 1, 1_700_000_000_000_001, 2 ** 64 - 1):
        assert drv.set_plc_time(us)
        assert tp.clock() == us
        if us < 2 ** 50:                      # datetime cannot represent the largest values
            assert drv.get_plc_time().value["microseconds"] == us
    drv.close()
    assert tp.sessions() == [] and tp.conns() == []
    clean(tp)
    frames_ok(tp, drv.fakesock)
    tp.close()


@step("LogixDriver on a Micro800 identity: direct UCMM get_plc_info, route appended to the data")
def _():
    tp = new_target(product_name=b"2080-LC50-24QWB")
    drv = T.open_driver(LogixDriver, "192.168.1.10", tp, init_tags=False, init_program_tags=False)
    assert drv._micro800 and drv.info["product_name"] == "2080-LC50-24QWB"
    mal = [e for e in tp.log() if e["ev"] == "malformed"]
    req = [e for e in tp.log() if e["ev"] == "request"][0]
    if mal:
        NOTES.append(f"client behaviour (C14): LogixDriver.get_plc_info on a Micro800 sends Get_Attributes_All with data "
                     f"{req['data'].hex()} (the route) -> EvMalformed {mal}")
    drv.close()
    clean(tp, allow={("malformed", 80)})
    frames_ok(tp, drv.fakesock)
    tp.close()


@step("faults: lost reply, send error, connect error; strict parser and oversize on hand-made frames")
def _():
    import socket as pysocket
    tp = new_target()
    drv = T.open_driver(CIPDriver, "192.168.1.10", tp, faults={"drop_reply": {1}}, open=True)
    try:
        drv.generic_message(service=0x4B, class_code=0x300, instance=1, request_data=b"a", connected=False, route_path=False)
        raise AssertionError("expected CommError")
    except CommError:
        pass
    assert [t[0] for t in drv.fakesock.trace][-2:] == ["send", "fault"]
    drv.close()
    drv2 = T.open_driver(CIPDriver, "192.168.1.10", tp, faults={"connect": pysocket.timeout}, open=False)
    try:
        drv2.open()
        raise AssertionError("expected CommError")
    except CommError:
        pass
    drv3 = T.open_driver(CIPDriver, "192.168.1.10", tp, faults={"send": {1: pysocket.error("boom")}})
    try:
        drv3.generic_message(service=0x4B, class_code=0x300, instance=1, request_data=b"a", connected=False, route_path=False)
        raise AssertionError("expected CommError")
    except CommError:
        pass
    assert len(drv3.fakesock.sent) == 1
    try:
        drv3.close()
    except CommError:
        pass
    clean(tp)
    # hand-made frames
    hdr = lambda cmd, body, s=0, st=0, opt=0: struct.pack("<HHII8sI", cmd, len(body), s, st, b"ctxctxct", opt) + body  # noqa: E731
    assert tp.parseframe(hdr(0x65, b"\x01\0\0\0"))["body"] == ("register",)
    assert tp.parseframe(hdr(0x65, b"\x02\0\0\0")) == {"rej": 11}
    assert tp.parseframe(hdr(0x65, b"\x01\0\0\0")[:-1]) == {"rej": 3}
    assert tp.parseframe(hdr(0x65, b"\x01\0\0\0", opt=1)) == {"rej": 6}
    assert tp.parseframe(hdr(0x99, b"")) == {"rej": 4}
    assert tp.parseframe(b"\x65") == {"rej": 2}
    cpf = lambda at, ad, dt, d, cnt=2, extra=b"": struct.pack("<IHH", 0, 10, cnt) + struct.pack("<HH", at, len(ad)) + ad + struct.pack("<HH", dt, len(d)) + d + extra  # noqa: E731
    assert tp.parseframe(hdr(0x6F, cpf(0, b"", 0xB2, b"\x01\x00")))["body"] == ("cpf", 10, None, 0xB2, b"\x01\x00")
    assert tp.parseframe(hdr(0x70, cpf(0xA1, b"\1\2\3\4", 0xB1, b"\x01\x00")))["body"] == ("cpf", 10, 0x04030201, 0xB1, b"\x01\x00")
    assert tp.parseframe(hdr(0x6F, cpf(0, b"", 0xB2, b"\x01\x00", extra=b"\0"))) == {"rej": 30}
    assert tp.parseframe(hdr(0x6F, cpf(0, b"", 0xB2, b"\x01\x00", cnt=3))) == {"rej": 22}
    assert tp.parseframe(hdr(0x70, cpf(0xA1, b"\1\2\3\4", 0xB1, b"\x01"))) == {"rej": 31}
    assert tp.parseframe(hdr(0x70, cpf(0, b"", 0xB2, b"\x01\x00"))) == {"rej": 32}
    assert tp.parsemr(bytes.fromhex("4c022001240105")) == {"service": 0x4C, "path": bytes.fromhex("20012401"), "data": b"\x05", "cia": (1, 1, None)}
    assert tp.parsemr(bytes.fromhex("4c0220012401")[:-1]) == {"rej": 4}
    assert tp.parseucsend(bytes.fromhex("0a05 0300 0e0000 00 01 00 0102".replace(" ", "")))["route"] == b"\x01\x02"
    assert tp.parseucsend(bytes.fromhex("0a05 0300 0e0000 01 00 0102".replace(" ", ""))) == {"rej": 4}      # pad byte is 01
    assert tp.parseucsend(bytes.fromhex("0a05 0300 0e0000 00 01 01 0102".replace(" ", ""))) == {"rej": 6}   # reserved byte
    assert tp.parseucsend(bytes.fromhex("0a05 0300 0e0000 00 01 00 0102 00".replace(" ", ""))) == {"rej": 8}
    assert tp.parseucsend(bytes.fromhex("0a05 0300 0e0000 00 02 00 0102".replace(" ", ""))) == {"rej": 7}
    assert tp.parseucsend(bytes.fromhex("0a05 0200 0e00 01 00 0102".replace(" ", "")))["embedded"] == b"\x0e\x00"
    # oversize: a standard connection of 500 bytes, then a 600-byte connected item
    tp.reset()
    tp.cfg(accept_large_fo=False)
    drv4 = T.open_driver(CIPDriver, "192.168.1.10", tp)
    big = drv4.generic_message(service=0x4B, class_code=0x300, instance=1, request_data=bytes(600))
    assert not big
    ov = [e for e in tp.log() if e["ev"] == "oversize"]
    assert len(ov) == 1 and ov[0]["granted"] == 500 and ov[0]["got"] > 600, ov
    # a reply that would not fit the connection: status 0x11, EvReplyTooLarge never needed because the handler refuses itself
    assert drv4.generic_message(service=0x10, class_code=0x300, instance=1, attribute=1, request_data=bytes(480))
    assert drv4.generic_message(service=0x0E, class_code=0x300, instance=1, attribute=1).value == bytes(480)
    assert drv4.generic_message(service=0x10, class_code=0x300, instance=1, attribute=2, request_data=bytes(120), connected=False, route_path=False)
    assert drv4.generic_message(service=0x10, class_code=0x300, instance=1, attribute=1, request_data=bytes(485)).error is None
    r = drv4.generic_message(service=0x0E, class_code=0x300, instance=1, attribute=1)
    assert r.value == bytes(485), r            # 485 + 4 + 2 = 491 <= 500
    drv4.close()
    tp.close()


@step("Multiple Service Packet 0x0A through generic_message: dispatch, 0x1E, capacity, Micro800 flavour")
def _():
    tp = new_target(accept_large_fo=False)
    drv = T.open_driver(CIPDriver, "192.168.1.10", tp)

    def multi(*reqs):
        n = len(reqs)
        offs, o = [], 2 + 2 * n
        for r in reqs:
            offs.append(struct.pack("<H", o))
            o += len(r)
        return struct.pack("<H", n) + b"".join(offs) + b"".join(reqs)

    def split(v):
        n = struct.unpack_from("<H", v)[0]
        offs = [struct.unpack_from("<H", v, 2 + 2 * i)[0] for i in range(n)] + [len(v)]
        return [v[offs[i]:offs[i + 1]] for i in range(n)]

    echo = lambda svc, d: bytes([svc, 3, 0x21, 0, 0x00, 0x03, 0x24, 1]) + d  # noqa: E731
    tag = drv.generic_message(service=0x0A, class_code=2, instance=1, request_data=multi(echo(0x4B, b"one"), echo(0x4C, b"three")))
    assert tag, tag
    assert split(tag.value) == [b"\xcb\0\0\0one", b"\xcc\0\0\0three"], tag.value
    ev = [e for e in tp.log() if e["ev"] == "request" and e["transport"][0] == "conn"]
    assert [(e["service"], e["seq"]) for e in ev] == [(0x0A, 1), (0x4B, 1), (0x4C, 1)], ev
    # one embedded error -> general status 0x1E, the other replies intact
    n0 = tp.log_size()
    tag = drv.generic_message(service=0x0A, class_code=2, instance=1, return_response_packet=True,
                              request_data=multi(echo(0x4B, b"one"), bytes([0x0E, 2, 0x20, 0x77, 0x24, 1])))
    resp = tag.value
    assert resp.service_status == 0x1E and split(resp.data) == [b"\xcb\0\0\0one", b"\x8e\0\x05\0"], resp.data
    # capacity: 500-byte connection, three 200-byte attributes: the third is answered 0x11, the whole reply fits
    assert drv.generic_message(service=0x10, class_code=0x300, instance=1, attribute=1, request_data=bytes(200))
    get = bytes([0x0E, 4, 0x21, 0, 0x00, 0x03, 0x24, 1, 0x30, 1])
    tag = drv.generic_message(service=0x0A, class_code=2, instance=1, return_response_packet=True, request_data=multi(get, get, get))
    parts = split(tag.value.data)
    assert [len(p) for p in parts] == [204, 204, 4] and parts[2] == b"\x8e\0\x11\0", [p[:4] for p in parts]
    assert len(drv.fakesock.received[-1]) - 44 <= 500
    # malformed offset table
    tag = drv.generic_message(service=0x0A, class_code=2, instance=1, request_data=struct.pack("<HHH", 2, 6, 6) + echo(0x4B, b"x"))
    assert not tag
    mal = [e for e in tp.log(n0) if e["ev"] == "malformed"]
    assert mal == [{"ev": "malformed", "service": 10, "why": 64}], mal
    # Micro800 flavour: no Multiple Service Packet
    tp.cfg(multi_service=False)
    tag = drv.generic_message(service=0x0A, class_code=2, instance=1, request_data=multi(echo(0x4B, b"one")))
    assert not tag and "not supported" in tag.error.lower(), tag
    drv.close()
    assert not [e for e in tp.log() if e["ev"] in ("badframe", "oversize", "replytoolarge")]
    frames_ok(tp, drv.fakesock)
    tp.close()


def main():
    bad = [r for r in RESULTS if not r[1]]
    print()
    print(f"target smoke: {len(RESULTS) - len(bad)}/{len(RESULTS)} steps ok")
    for n in NOTES:
        print("NOTE", n)
    for name, _, why in bad:
        print("FAILED", name, why)
    return 1 if bad else 0


if __name__ == "__main__":
    sys.exit(main())
