"""gen_encap.py — regenerates coq/Gen/EncapGen.v (property C11): the declarative facts of the
encapsulation layer, read from /repo with `ast` and cross-checked against the runtime objects.

  packets/base.py       RequestPacket class attributes (`_timeout`, `_message_type`, ...), the element
                        list of the `b"".join([...])` in `_build_header` and in
                        `_build_common_packet_format` (translated into layout descriptors that the
                        model INTERPRETS), the `addr_data` conditional, the exception wrapper
  packets/ethernetip.py per request class: `_encap_command`, `_message_type`, `_address_type`,
                        `no_response`, the shape of its `_build_common_packet_format` and
                        `_setup_message` overrides, RegisterSession's default option flags
  cip_driver.py         the defaults in `CIPDriver.__init__` that reach a frame (`_cfg["context"]`,
                        `_cfg["option"]`, `_cfg["protocol version"]`, initial `_session`,
                        `_target_cid`), and which attribute each keyword of `send`'s
                        `request_kwargs` reads

Fail-closed: a construct outside the recognised shapes raises GenError naming it.  Local variable
and parameter NAMES are not part of a shape (positions are), so renaming a local stays quiet.
The translated layouts are re-evaluated in Python on random arguments and compared with the real
`_build_header` / `_build_common_packet_format`.
"""
import ast
import os
import random
import sys

from gen_tables import GenError, REPO, zb, zs, coq_bool  # noqa: E402

UINT_TYPES = {"USINT": 1, "UINT": 2, "UDINT": 4, "ULINT": 8}


def _parse(rel):
    with open(os.path.join(REPO, rel), "rb") as f:
        return ast.parse(f.read(), rel)


def _import(name):
    if REPO not in sys.path:
        sys.path.insert(0, REPO)
    import importlib
    return importlib.import_module(name)


def _classdef(tree, name, where):
    cs = [n for n in tree.body if isinstance(n, ast.ClassDef) and n.name == name]
    if len(cs) != 1:
        raise GenError(f"{where}: class {name} not found exactly once")
    return cs[0]


def _method(cls, name):
    ms = [n for n in cls.body if isinstance(n, ast.FunctionDef) and n.name == name]
    if len(ms) > 1:
        raise GenError(f"{cls.name}.{name}: defined more than once")
    return ms[0] if ms else None


def _body(fn):
    """statements of a function without the docstring"""
    b = list(fn.body)
    if b and isinstance(b[0], ast.Expr) and isinstance(b[0].value, ast.Constant) and isinstance(b[0].value.value, str):
        b = b[1:]
    return b


def _params(fn, where, drop_self=True):
    a = fn.args
    if a.vararg or a.posonlyargs or a.kwonlyargs:
        raise GenError(f"{where}: unexpected parameter kinds")
    names = [x.arg for x in a.args]
    if drop_self:
        if not names or names[0] != "self":
            raise GenError(f"{where}: first parameter is not self")
        names = names[1:]
    return names


def _is_bytes_join(e):
    return (isinstance(e, ast.Call) and isinstance(e.func, ast.Attribute) and e.func.attr == "join"
            and isinstance(e.func.value, ast.Constant) and e.func.value.value == b""
            and len(e.args) == 1 and not e.keywords and isinstance(e.args[0], ast.List))


def _enc_call(e):
    """`<T>.encode(<arg>)` with T an unsigned integer type -> (size, arg) else None"""
    if (isinstance(e, ast.Call) and isinstance(e.func, ast.Attribute) and e.func.attr == "encode"
            and isinstance(e.func.value, ast.Name) and e.func.value.id in UINT_TYPES
            and len(e.args) == 1 and not e.keywords):
        return e.func.value.id, e.args[0]
    return None


def _check_uint_types():
    cip = _import("pycomm3.cip")
    for n, size in UINT_TYPES.items():
        t = getattr(cip, n)
        fmt = getattr(t, "_format", None)
        if t.size != size or fmt != {1: "<B", 2: "<H", 4: "<I", 8: "<Q"}[size]:
            raise GenError(f"cip.{n}: size/format is not the unsigned little-endian {size}-byte integer")


def _split_locals(stmts, where):
    """[<local> = <expr>]* return <expr>  ->  ({local: expr}, return expr).  Every local is assigned once;
    local NAMES are free (a harmless rename stays quiet); anything else fails closed."""
    env = {}
    if not stmts or not isinstance(stmts[-1], ast.Return) or stmts[-1].value is None:
        raise GenError(f"{where}: does not end with `return <expr>`")
    for st in stmts[:-1]:
        if not (isinstance(st, ast.Assign) and len(st.targets) == 1 and isinstance(st.targets[0], ast.Name)):
            raise GenError(f"{where}: unsupported statement {ast.dump(st)[:80]}")
        if st.targets[0].id in env:
            raise GenError(f"{where}: local {st.targets[0].id} assigned twice")
        env[st.targets[0].id] = st.value
    return env, stmts[-1].value


def _deref(e, env, keep=()):
    """follow single-assignment locals (not the names in `keep`)"""
    seen = 0
    while isinstance(e, ast.Name) and e.id in env and e.id not in keep and seen < 20:
        e = env[e.id]
        seen += 1
    return e


def _join_elts(e, env, where):
    """b"".join(<list display or a local bound to one>) -> the elements"""
    if (isinstance(e, ast.Call) and isinstance(e.func, ast.Attribute) and e.func.attr == "join"
            and isinstance(e.func.value, ast.Constant) and e.func.value.value == b""
            and len(e.args) == 1 and not e.keywords):
        arg = _deref(e.args[0], env)
        if isinstance(arg, (ast.List, ast.Tuple)):
            return arg.elts
    raise GenError(f"{where}: does not return b\"\".join([...])")


def _self_attr(e):
    if isinstance(e, ast.Attribute) and isinstance(e.value, ast.Name) and e.value.id == "self":
        return e.attr
    return None


# ---------------------------------------------------------------- packets/base.py
HARGS = ["ACommand", "ALength", "ASession", "AContext", "AOption"]


def header_layout(cls):
    fn = _method(cls, "_build_header")
    if fn is None:
        raise GenError("RequestPacket._build_header: missing")
    if not any(isinstance(d, ast.Name) and d.id == "staticmethod" for d in fn.decorator_list):
        raise GenError("RequestPacket._build_header: not a staticmethod")
    params = _params(fn, "_build_header", drop_self=False)
    if len(params) != 5:
        raise GenError("RequestPacket._build_header: expected 5 parameters (command, length, session_id, context, option)")
    pos = {p: HARGS[i] for i, p in enumerate(params)}
    body = _body(fn)
    wrapped = None
    if len(body) == 1 and isinstance(body[0], ast.Try):
        t = body[0]
        if t.orelse or t.finalbody or len(t.handlers) != 1:
            raise GenError("RequestPacket._build_header: unexpected try shape")
        h = t.handlers[0]
        if not (isinstance(h.type, ast.Name) and h.type.id == "Exception" and len(h.body) == 1 and isinstance(h.body[0], ast.Raise)
                and isinstance(h.body[0].exc, ast.Call) and isinstance(h.body[0].exc.func, ast.Name)):
            raise GenError("RequestPacket._build_header: handler is not `except Exception: raise <Error>(...)`")
        wrapped = h.body[0].exc.func.id
        body = t.body
    env, ret = _split_locals(body, "RequestPacket._build_header")
    if set(env) & set(params):
        raise GenError("RequestPacket._build_header: a parameter is reassigned")
    fields = []
    for e0 in _join_elts(_deref(ret, env), env, "RequestPacket._build_header"):
        e = _deref(e0, env)
        if isinstance(e, ast.Constant) and isinstance(e.value, bytes):
            fields.append(("lit", e.value))
        elif isinstance(e, ast.Name) and e.id in pos:
            fields.append(("raw", pos[e.id]))
        elif _enc_call(e) and isinstance(_deref(_enc_call(e)[1], env), ast.Name) and _deref(_enc_call(e)[1], env).id in pos:
            t, a = _enc_call(e)
            fields.append(("enc", UINT_TYPES[t], pos[_deref(a, env).id]))
        else:
            raise GenError(f"RequestPacket._build_header: unsupported join element {ast.dump(e)[:80]}")
    if wrapped not in (None, "CommError", "DataError", "RequestError", "ResponseError"):
        raise GenError(f"RequestPacket._build_header: wraps into unknown error {wrapped}")
    return fields, wrapped


CATTRS = {"_timeout": "ATimeout", "_address_type": "AAddrType", "_message_type": "AMsgType"}


def cpf_layout(cls):
    fn = _method(cls, "_build_common_packet_format")
    if fn is None:
        raise GenError("RequestPacket._build_common_packet_format: missing")
    params = _params(fn, "_build_common_packet_format")
    if len(params) != 2 or len(fn.args.defaults) != 1 or not (isinstance(fn.args.defaults[0], ast.Constant) and fn.args.defaults[0].value is None):
        raise GenError("RequestPacket._build_common_packet_format: expected (self, message, addr_data=None)")
    p_msg, p_addr = params
    env, ret = _split_locals(_body(fn), "RequestPacket._build_common_packet_format")
    if p_msg in env:
        raise GenError("RequestPacket._build_common_packet_format: the message parameter is reassigned")

    def is_len_of(a, name):
        return (isinstance(a, ast.Call) and isinstance(a.func, ast.Name) and a.func.id == "len" and len(a.args) == 1
                and not a.keywords and isinstance(a.args[0], ast.Name) and a.args[0].id == name)

    def addr_item(ie):
        """<lit> if <addr param> is None else <T>.encode(len(<addr param>)) + <addr param>  -> (lit, size) else None"""
        if not isinstance(ie, ast.IfExp):
            return None
        c = ie.test
        if not (isinstance(c, ast.Compare) and isinstance(c.left, ast.Name) and c.left.id == p_addr and len(c.ops) == 1
                and isinstance(c.ops[0], ast.Is) and isinstance(c.comparators[0], ast.Constant) and c.comparators[0].value is None):
            raise GenError("RequestPacket._build_common_packet_format: condition is not `addr_data is None`")
        if not (isinstance(ie.body, ast.Constant) and isinstance(ie.body.value, bytes)):
            raise GenError("RequestPacket._build_common_packet_format: the None branch is not a bytes literal")
        e = ie.orelse
        if not (isinstance(e, ast.BinOp) and isinstance(e.op, ast.Add) and isinstance(e.right, ast.Name) and e.right.id == p_addr
                and _enc_call(e.left) and is_len_of(_enc_call(e.left)[1], p_addr)):
            raise GenError("RequestPacket._build_common_packet_format: the else branch is not `<T>.encode(len(addr_data)) + addr_data`")
        return ie.body.value, UINT_TYPES[_enc_call(e.left)[0]]

    # the address item: the (possibly re-assigned) parameter or any local, bound once to the conditional
    items = {n: addr_item(v) for n, v in env.items() if isinstance(v, ast.IfExp)}
    if len(items) != 1:
        raise GenError("RequestPacket._build_common_packet_format: expected exactly one `<local> = <lit> if addr_data is None else ...`")
    (addr_local, (none_lit, addr_len_size)), = items.items()
    fields = []
    for e0 in _join_elts(_deref(ret, env, keep=(addr_local,)), env, "RequestPacket._build_common_packet_format"):
        e = _deref(e0, env, keep=(addr_local,))
        if isinstance(e, ast.Constant) and isinstance(e.value, bytes):
            fields.append(("lit", e.value))
        elif _self_attr(e) in CATTRS:
            fields.append(("attr", CATTRS[_self_attr(e)]))
        elif isinstance(e, ast.Name) and e.id == addr_local:
            fields.append(("addr",))
        elif isinstance(e, ast.Name) and e.id == p_msg:
            fields.append(("msg",))
        elif _enc_call(e) and is_len_of(_enc_call(e)[1], p_msg):
            fields.append(("msglen", UINT_TYPES[_enc_call(e)[0]]))
        else:
            raise GenError(f"RequestPacket._build_common_packet_format: unsupported join element {ast.dump(e)[:80]}")
    return fields, none_lit, addr_len_size


def class_attr_consts(cls, names):
    """class-level `name = <constant>` assignments -> {name: value} (AST view)"""
    out = {}
    for n in cls.body:
        if isinstance(n, ast.Assign) and len(n.targets) == 1 and isinstance(n.targets[0], ast.Name) and n.targets[0].id in names:
            v = n.value
            if isinstance(v, ast.Constant):
                out[n.targets[0].id] = ("const", v.value)
            elif isinstance(v, ast.Attribute) and isinstance(v.value, ast.Name):
                out[n.targets[0].id] = ("member", v.value.id, v.attr)
            else:
                raise GenError(f"{cls.name}.{n.targets[0].id}: unsupported class attribute value")
    return out


# ---------------------------------------------------------------- packets/ethernetip.py
REQUEST_CLASSES = [
    ("SendUnitDataRequestPacket", "cls_SendUnitData"),
    ("SendRRDataRequestPacket", "cls_SendRRData"),
    ("RegisterSessionRequestPacket", "cls_RegisterSession"),
    ("UnRegisterSessionRequestPacket", "cls_UnRegisterSession"),
    ("ListIdentityRequestPacket", "cls_ListIdentity"),
]
ATTRS = ["_message_type", "_address_type", "_timeout", "_encap_command", "no_response"]


def cpf_override(cls):
    fn = _method(cls, "_build_common_packet_format")
    if fn is None:
        return "CpfBase"
    params = _params(fn, f"{cls.name}._build_common_packet_format")
    if len(params) != 2:
        raise GenError(f"{cls.name}._build_common_packet_format: expected (self, message, addr_data=None)")
    body = _body(fn)
    if len(body) != 1 or not isinstance(body[0], ast.Return):
        raise GenError(f"{cls.name}._build_common_packet_format: expected a single return")
    v = body[0].value
    if isinstance(v, ast.Name) and v.id == params[0]:
        return "CpfMessage"
    if isinstance(v, ast.Constant) and v.value == b"":
        return "CpfEmpty"
    if (isinstance(v, ast.Call) and isinstance(v.func, ast.Attribute) and v.func.attr == "_build_common_packet_format"
            and isinstance(v.func.value, ast.Call) and isinstance(v.func.value.func, ast.Name) and v.func.value.func.id == "super"
            and not v.func.value.args and len(v.args) == 1 and isinstance(v.args[0], ast.Name) and v.args[0].id == params[0]
            and len(v.keywords) == 1 and v.keywords[0].arg == "addr_data"
            and isinstance(v.keywords[0].value, ast.Constant) and v.keywords[0].value.value is None):
        return "CpfSuperNoAddr"
    raise GenError(f"{cls.name}._build_common_packet_format: unsupported override {ast.dump(v)[:80]}")


def _is_super_call(st, meth):
    return (isinstance(st, ast.Expr) and isinstance(st.value, ast.Call) and isinstance(st.value.func, ast.Attribute)
            and st.value.func.attr == meth and isinstance(st.value.func.value, ast.Call)
            and isinstance(st.value.func.value.func, ast.Name) and st.value.func.value.func.id == "super"
            and not st.value.args and not st.value.keywords)


def setup_override(cls):
    fn = _method(cls, "_setup_message")
    if fn is None:
        return "SetupBase"
    body = _body(fn)
    # super()._setup_message(); self._msg.append(<T>.encode(self._sequence))
    if len(body) == 2 and _is_super_call(body[0], "_setup_message"):
        st = body[1]
        if (isinstance(st, ast.Expr) and isinstance(st.value, ast.Call) and isinstance(st.value.func, ast.Attribute)
                and st.value.func.attr == "append" and _self_attr(st.value.func.value) == "_msg" and len(st.value.args) == 1
                and _enc_call(st.value.args[0]) and _self_attr(_enc_call(st.value.args[0])[1]) == "_sequence"):
            return f"(SetupSuperSeq {UINT_TYPES[_enc_call(st.value.args[0])[0]]})"
    # self._msg += [self.protocol_version, self.option_flags]     (no super call)
    if len(body) == 1:
        st = body[0]
        if (isinstance(st, ast.AugAssign) and isinstance(st.op, ast.Add) and _self_attr(st.target) == "_msg"
                and isinstance(st.value, ast.List) and [_self_attr(e) for e in st.value.elts] == ["protocol_version", "option_flags"]):
            return "SetupRegister"
    raise GenError(f"{cls.name}._setup_message: unsupported override")


def check_passthrough_build_request(cls):
    fn = _method(cls, "build_request")
    if fn is None:
        return
    params = _params(fn, f"{cls.name}.build_request")
    body = _body(fn)
    ok = len(body) == 1 and isinstance(body[0], ast.Return) and isinstance(body[0].value, ast.Call)
    if ok:
        c = body[0].value
        ok = (isinstance(c.func, ast.Attribute) and c.func.attr == "build_request" and isinstance(c.func.value, ast.Call)
              and isinstance(c.func.value.func, ast.Name) and c.func.value.func.id == "super"
              and [a.id if isinstance(a, ast.Name) else None for a in c.args] == params[:4]
              and all(k.arg is None for k in c.keywords))
    if not ok:
        raise GenError(f"{cls.name}.build_request: override is not a pass-through to super().build_request")


def register_flags_default(cls):
    fn = _method(cls, "__init__")
    if fn is None:
        raise GenError("RegisterSessionRequestPacket.__init__: missing")
    params = _params(fn, "RegisterSessionRequestPacket.__init__")
    if len(params) != 2 or len(fn.args.defaults) != 1 or not (isinstance(fn.args.defaults[0], ast.Constant) and isinstance(fn.args.defaults[0].value, bytes)):
        raise GenError("RegisterSessionRequestPacket.__init__: expected (self, protocol_version, option_flags=<bytes>)")
    stored = {}
    for st in _body(fn):
        if isinstance(st, ast.Assign) and len(st.targets) == 1 and _self_attr(st.targets[0]) and isinstance(st.value, ast.Name):
            stored[_self_attr(st.targets[0])] = st.value.id
    if stored.get("protocol_version") != params[0] or stored.get("option_flags") != params[1]:
        raise GenError("RegisterSessionRequestPacket.__init__: does not store protocol_version / option_flags")
    return fn.args.defaults[0].value


# ---------------------------------------------------------------- cip_driver.py
SOURCES = {"_target_cid": "SelfTargetCid", "_session": "SelfSession", "_sequence": "SelfSequence"}
CFG_SOURCES = {"context": "CfgContext", "option": "CfgOption", "protocol version": "CfgProtocolVersion"}


def _fn_env(fn):
    """single-assignment simple locals of a function (names are free): {name: expr}"""
    count, env = {}, {}
    params = {a.arg for a in fn.args.args}
    for n in ast.walk(fn):
        tgts = []
        if isinstance(n, ast.Assign):
            tgts = [(t, n.value) for t in n.targets]
        elif isinstance(n, ast.AnnAssign) and n.value is not None:
            tgts = [(n.target, n.value)]
        elif isinstance(n, (ast.AugAssign, ast.For, ast.With, ast.NamedExpr)):
            for t in ast.walk(n.target if hasattr(n, "target") else n):
                if isinstance(t, ast.Name) and isinstance(t.ctx, ast.Store):
                    count[t.id] = count.get(t.id, 0) + 2
        for t, v in tgts:
            if isinstance(t, ast.Name):
                count[t.id] = count.get(t.id, 0) + 1
                env[t.id] = v
    return {k: v for k, v in env.items() if count.get(k) == 1 and k not in params}


def _src(e, where, env=None):
    e = _deref(e, env or {})
    a = _self_attr(e)
    if a in SOURCES:
        return SOURCES[a]
    if (isinstance(e, ast.Subscript) and _self_attr(e.value) == "_cfg" and isinstance(e.slice, ast.Constant)
            and e.slice.value in CFG_SOURCES):
        return CFG_SOURCES[e.slice.value]
    raise GenError(f"{where}: unsupported source {ast.dump(e)[:80]}")


def driver_facts(tree):
    cls = _classdef(tree, "CIPDriver", "cip_driver.py")
    init = _method(cls, "__init__")
    cfg = None
    inits = {}
    for st in ast.walk(init):
        tgt = val = None
        if isinstance(st, ast.Assign) and len(st.targets) == 1:
            tgt, val = st.targets[0], st.value
        elif isinstance(st, ast.AnnAssign):
            tgt, val = st.target, st.value
        if tgt is None:
            continue
        a = _self_attr(tgt)
        if a == "_cfg":
            if cfg is not None or not isinstance(val, ast.Dict):
                raise GenError("CIPDriver.__init__: self._cfg is not assigned one dict literal")
            cfg = val
        elif a in ("_session", "_target_cid"):
            if a in inits or not isinstance(val, ast.Constant):
                raise GenError(f"CIPDriver.__init__: self.{a} is not initialised once with a constant")
            inits[a] = val.value
    if cfg is None or set(inits) != {"_session", "_target_cid"}:
        raise GenError("CIPDriver.__init__: _cfg / _session / _target_cid initialisation not found")
    cfgv = {}
    for k, v in zip(cfg.keys, cfg.values):
        if isinstance(k, ast.Constant) and k.value in CFG_SOURCES:
            if not isinstance(v, ast.Constant):
                raise GenError(f"CIPDriver.__init__: _cfg[{k.value!r}] is not a constant")
            cfgv[k.value] = v.value
    if set(cfgv) != set(CFG_SOURCES):
        raise GenError("CIPDriver.__init__: _cfg lacks context / option / protocol version")
    if not (isinstance(cfgv["context"], bytes) and isinstance(cfgv["protocol version"], bytes)
            and isinstance(cfgv["option"], int) and not isinstance(cfgv["option"], bool)):
        raise GenError("CIPDriver.__init__: _cfg context / protocol version / option have unexpected types")
    if not (isinstance(inits["_session"], int) and not isinstance(inits["_session"], bool) and inits["_target_cid"] is None):
        raise GenError("CIPDriver.__init__: initial _session is not an int or initial _target_cid is not None")
    # nobody else writes the frame-relevant _cfg entries
    for n in ast.walk(tree):
        if isinstance(n, (ast.Assign, ast.AugAssign)):
            tgts = n.targets if isinstance(n, ast.Assign) else [n.target]
            for t in tgts:
                if (isinstance(t, ast.Subscript) and isinstance(t.value, ast.Attribute) and t.value.attr == "_cfg"
                        and isinstance(t.slice, ast.Constant) and t.slice.value in CFG_SOURCES):
                    raise GenError(f"cip_driver.py: _cfg[{t.slice.value!r}] is reassigned")
    # send: the dict of keyword arguments handed to request.build_request(**kwargs)
    send = _method(cls, "send")
    if send is None:
        raise GenError("CIPDriver.send: missing")
    senv = _fn_env(send)
    calls = [n for n in ast.walk(send) if isinstance(n, ast.Call) and isinstance(n.func, ast.Attribute) and n.func.attr == "build_request"]
    if len(calls) != 1 or calls[0].args:
        raise GenError("CIPDriver.send: build_request is not called once with keyword arguments only")
    # keyword arguments given directly and/or through `**<dict literal or a local bound to one>`
    pairs = []
    for k in calls[0].keywords:
        if k.arg is not None:
            pairs.append((k.arg, k.value))
            continue
        d = _deref(k.value, senv)
        if not isinstance(d, ast.Dict):
            raise GenError("CIPDriver.send: build_request(**x) where x is not a dict literal")
        for dk, dv in zip(d.keys, d.values):
            if not (isinstance(dk, ast.Constant) and isinstance(dk.value, str)):
                raise GenError("CIPDriver.send: non-literal keyword name")
            pairs.append((dk.value, dv))
    kw = {}
    for name, v in pairs:
        if name in kw:
            raise GenError(f"CIPDriver.send: keyword {name} given twice")
        kw[name] = _src(v, f"CIPDriver.send[{name}]", senv)
    need = {"target_cid", "session_id", "context", "option"}
    if not need <= set(kw):
        raise GenError(f"CIPDriver.send: keyword arguments {sorted(need - set(kw))} missing")
    # _register_session builds RegisterSessionRequestPacket(self._cfg["protocol version"])
    reg = _method(cls, "_register_session")
    renv = _fn_env(reg)
    rc = [n for n in ast.walk(reg) if isinstance(n, ast.Call) and isinstance(n.func, ast.Name) and n.func.id == "RegisterSessionRequestPacket"]
    ok = len(rc) == 1
    if ok:
        args = list(rc[0].args) + [k.value for k in rc[0].keywords if k.arg == "protocol_version"]
        ok = len(args) == 1 and len(rc[0].args) + len(rc[0].keywords) == 1 and _src(args[0], "_register_session", renv) == "CfgProtocolVersion"
    if not ok:
        raise GenError("CIPDriver._register_session: RegisterSessionRequestPacket(self._cfg[\"protocol version\"]) not found")
    return cfgv, inits, kw


# ---------------------------------------------------------------- evaluation of the translated layouts (cross-check)
def py_header(fields, wrapped, args):
    import struct
    fmt = {1: "<B", 2: "<H", 4: "<I", 8: "<Q"}
    try:
        out = []
        for f in fields:
            if f[0] == "lit":
                out.append(f[1])
            elif f[0] == "raw":
                out.append(args[f[1]])
            else:
                out.append(struct.pack(fmt[f[1]], args[f[2]]))
        return b"".join(out)
    except Exception:
        if wrapped:
            return "ERR:" + wrapped
        raise


def py_cpf(fields, none_lit, addr_len_size, attrs, message, addr):
    import struct
    fmt = {1: "<B", 2: "<H", 4: "<I", 8: "<Q"}
    ad = none_lit if addr is None else struct.pack(fmt[addr_len_size], len(addr)) + addr
    out = []
    for f in fields:
        if f[0] == "lit":
            out.append(f[1])
        elif f[0] == "attr":
            out.append(attrs[f[1]])
        elif f[0] == "addr":
            out.append(ad)
        elif f[0] == "msg":
            out.append(message)
        else:
            out.append(struct.pack(fmt[f[1]], len(message)))
    return b"".join(out)


def opt_bytes(v):
    return "None" if v is None else f"(Some {zb(v)})"


def gen_encap():
    _check_uint_types()
    base_tree = _parse("pycomm3/packets/base.py")
    eth_tree = _parse("pycomm3/packets/ethernetip.py")
    drv_tree = _parse("pycomm3/cip_driver.py")
    base_mod = _import("pycomm3.packets.base")
    eth_mod = _import("pycomm3.packets.ethernetip")
    drv_mod = _import("pycomm3.cip_driver")
    exc_mod = _import("pycomm3.exceptions")

    rp = _classdef(base_tree, "RequestPacket", "packets/base.py")
    hfields, wrapped = header_layout(rp)
    cfields, none_lit, addr_len_size = cpf_layout(rp)
    base_attrs = class_attr_consts(rp, ATTRS)
    if set(base_attrs) != set(ATTRS) or any(v[0] != "const" for v in base_attrs.values()):
        raise GenError("RequestPacket: class attributes _message_type/_address_type/_timeout/_encap_command/no_response are not all constants")
    RP = base_mod.RequestPacket
    for a in ATTRS:
        if getattr(RP, a) != base_attrs[a][1]:
            raise GenError(f"RequestPacket.{a}: AST and runtime views differ")

    # runtime cross-check of the two translated layouts
    rng = random.Random(11)
    for _ in range(300):
        args = {"ACommand": rng.randbytes(rng.choice([0, 2, 2, 3])), "ALength": rng.choice([0, 1, 255, 256, 65535, 65536, rng.randrange(0, 70000)]),
                "ASession": rng.choice([0, 2 ** 32 - 1, 2 ** 32, -1, rng.randrange(0, 2 ** 32)]), "AContext": rng.randbytes(rng.choice([8, 8, 0, 9])),
                "AOption": rng.choice([0, 0, 1, 2 ** 32])}
        mine = py_header(hfields, wrapped, args)
        try:
            real = RP._build_header(args["ACommand"], args["ALength"], args["ASession"], args["AContext"], args["AOption"])
        except Exception as e:  # noqa: BLE001
            real = "ERR:" + type(e).__name__
        if mine != real:
            raise GenError(f"RequestPacket._build_header: translated layout disagrees with the code on {args}")

    class _P(RP):
        pass
    for _ in range(300):
        p = _P()
        attrs = {"ATimeout": rng.randbytes(2), "AAddrType": rng.randbytes(2), "AMsgType": rng.randbytes(2)}
        p._timeout, p._address_type, p._message_type = attrs["ATimeout"], attrs["AAddrType"], attrs["AMsgType"]
        message = rng.randbytes(rng.choice([0, 1, 2, 255, 256, 700]))
        addr = rng.choice([None, b"", rng.randbytes(4), rng.randbytes(rng.randrange(0, 300))])
        if py_cpf(cfields, none_lit, addr_len_size, attrs, message, addr) != p._build_common_packet_format(message, addr_data=addr):
            raise GenError("RequestPacket._build_common_packet_format: translated layout disagrees with the code")

    # request classes
    out_classes = []
    enum_classes = {"DataItem": eth_mod.DataItem, "AddressItem": eth_mod.AddressItem,
                    "EncapsulationCommands": _import("pycomm3.cip").EncapsulationCommands}
    for pyname, coqname in REQUEST_CLASSES:
        cd = _classdef(eth_tree, pyname, "packets/ethernetip.py")
        if [b.id if isinstance(b, ast.Name) else None for b in cd.bases] != ["RequestPacket"]:
            raise GenError(f"{pyname}: base class is not RequestPacket")
        rt = getattr(eth_mod, pyname)
        own = class_attr_consts(cd, ATTRS)
        vals = {}
        for a in ATTRS:
            if a in own:
                v = own[a]
                if v[0] == "member":
                    if v[1] not in enum_classes:
                        raise GenError(f"{pyname}.{a}: member of unknown table {v[1]}")
                    val = getattr(enum_classes[v[1]], v[2])
                else:
                    val = v[1]
            else:
                val = base_attrs[a][1]
            if getattr(rt, a) != val or type(getattr(rt, a)) is not type(val):
                raise GenError(f"{pyname}.{a}: AST and runtime views differ")
            vals[a] = val
        for a in ("_message_type", "_address_type", "_timeout", "_encap_command"):
            if vals[a] is not None and not isinstance(vals[a], bytes):
                raise GenError(f"{pyname}.{a}: neither None nor bytes")
        if not isinstance(vals["no_response"], bool):
            raise GenError(f"{pyname}.no_response: not a bool")
        for meth in ("build_message", "_build_header", "add"):
            if _method(cd, meth) is not None:
                raise GenError(f"{pyname}.{meth}: unexpected override")
        check_passthrough_build_request(cd)
        out_classes.append((coqname, pyname, vals, cpf_override(cd), setup_override(cd)))
    flags_default = register_flags_default(_classdef(eth_tree, "RegisterSessionRequestPacket", "packets/ethernetip.py"))
    # the base class's own _setup_message must only set the flag
    bs = _method(rp, "_setup_message")
    bb = _body(bs) if bs else []
    if not (len(bb) == 1 and isinstance(bb[0], ast.Assign) and _self_attr(bb[0].targets[0]) == "_msg_setup"
            and isinstance(bb[0].value, ast.Constant) and bb[0].value.value is True):
        raise GenError("RequestPacket._setup_message: is not `self._msg_setup = True`")

    cfgv, inits, kw = driver_facts(drv_tree)
    d = drv_mod.CIPDriver("10.0.0.1")
    if (d._cfg["context"], d._cfg["option"], d._cfg["protocol version"], d._session, d._target_cid) != \
            (cfgv["context"], cfgv["option"], cfgv["protocol version"], inits["_session"], inits["_target_cid"]):
        raise GenError("CIPDriver.__init__: AST and runtime views of the defaults differ")
    if wrapped is not None and not hasattr(exc_mod, wrapped):
        raise GenError(f"exceptions.{wrapped}: missing")

    def hf(f):
        if f[0] == "lit":
            return f"HLit {zb(f[1])}"
        if f[0] == "raw":
            return f"HRaw {f[1]}"
        return f"HEnc {f[1]} {f[2]}"

    def cf(f):
        if f[0] == "lit":
            return f"CLit {zb(f[1])}"
        if f[0] == "attr":
            return f"CAttr {f[1]}"
        if f[0] == "addr":
            return "CAddrData"
        if f[0] == "msg":
            return "CMsg"
        return f"CMsgLen {f[1]}"

    o = []
    o.append("(* GENERATED by harness/gen_encap.py from /repo/pycomm3/packets/base.py, packets/ethernetip.py and\n"
             "   cip_driver.py — do not edit.  Types of the descriptors: Model/EncapDefs.v. *)\n"
             "From PV Require Import Base.Bytes Base.Res Model.EncapDefs.\nOpen Scope Z_scope.\n\n")
    o.append("(* RequestPacket._build_header: the elements of its b\"\".join([...]), in order *)\n")
    o.append("Definition header_layout : list hfield := [" + "; ".join(hf(f) for f in hfields) + "].\n")
    o.append("(* ... `except Exception as err: raise <E>(...) from err` around it *)\n")
    o.append(f"Definition header_wrap : option exn := {('Some ' + wrapped) if wrapped else 'None'}.\n\n")
    o.append("(* RequestPacket._build_common_packet_format: the elements of its b\"\".join([...]), in order *)\n")
    o.append("Definition cpf_layout : list cfield := [" + "; ".join(cf(f) for f in cfields) + "].\n")
    o.append("(* addr_data = ADDR_DATA_NONE if addr_data is None else <unsigned ADDR_LEN_SIZE-byte>.encode(len(addr_data)) + addr_data *)\n")
    o.append(f"Definition ADDR_DATA_NONE : bytes := {zb(none_lit)}.\n")
    o.append(f"Definition ADDR_LEN_SIZE : nat := {addr_len_size}.\n\n")
    o.append("(* the request classes of packets/ethernetip.py (attributes after inheritance from RequestPacket) *)\n")
    for coqname, pyname, vals, cpfk, setupk in out_classes:
        o.append(f"Definition {coqname} : pclass := {{|\n"
                 f"  pc_name := {zs(pyname)};\n"
                 f"  pc_command := {opt_bytes(vals['_encap_command'])};\n"
                 f"  pc_message_type := {opt_bytes(vals['_message_type'])};\n"
                 f"  pc_address_type := {opt_bytes(vals['_address_type'])};\n"
                 f"  pc_timeout := {opt_bytes(vals['_timeout'])};\n"
                 f"  pc_cpf := {cpfk};\n"
                 f"  pc_setup := {setupk};\n"
                 f"  pc_no_response := {coq_bool(vals['no_response'])} |}}.\n\n")
    o.append("(* RegisterSessionRequestPacket.__init__(protocol_version, option_flags=<this>) *)\n")
    o.append(f"Definition REGISTER_OPTION_FLAGS_DEFAULT : bytes := {zb(flags_default)}.\n\n")
    o.append("(* CIPDriver.__init__ *)\n")
    o.append(f"Definition CFG_CONTEXT : bytes := {zb(cfgv['context'])}.\n")
    o.append(f"Definition CFG_OPTION : Z := {cfgv['option']}.\n")
    o.append(f"Definition CFG_PROTOCOL_VERSION : bytes := {zb(cfgv['protocol version'])}.\n")
    o.append(f"Definition INIT_SESSION : Z := {inits['_session']}.\n")
    o.append("(* initial _target_cid is None (checked) *)\n\n")
    o.append("(* CIPDriver.send: what each keyword argument handed to request.build_request reads *)\n")
    o.append(f"Definition SEND_TARGET_CID : src := {kw['target_cid']}.\n")
    o.append(f"Definition SEND_SESSION_ID : src := {kw['session_id']}.\n")
    o.append(f"Definition SEND_CONTEXT : src := {kw['context']}.\n")
    o.append(f"Definition SEND_OPTION : src := {kw['option']}.\n")
    return "".join(o)


GENERATORS = {"EncapGen.v": gen_encap}
