"""gen_slc.py — regenerated facts of the SLC vertical (C18) -> coq/Gen/SlcTables.v.

* the seven address patterns of pycomm3/slc_driver.py, parsed FAIL-CLOSED by a small regex-syntax
  parser (the subset the patterns use) into the AST of coq/Model/Regex.v.  Three views must agree:
  (1) the string literals of the `re.compile(...)` call in the source (ast), (2) `X_RE.pattern` /
  `X_RE.flags` / `X_RE.groups` / `X_RE.groupindex` of the imported module, (3) CPython's own parse
  tree of the runtime pattern (`re._parser.parse`) translated into the same normal form.
* PCCC_DATA_TYPE / PCCC_DATA_SIZE / PCCC_CT (dict literals, AST vs runtime), the PCCCDataTypes
  members with the codec class each one names, and the SLC constants of const.py.
"""
import ast
import os
import re
import sys

from gen_tables import GenError, _import, _parse, zlist, zs, zb, coq_bool, HEADER

PATTERNS = ["IO_RE", "CT_RE", "LFBN_RE", "S_RE", "A_RE", "B_RE", "ST_RE"]

# ---------------------------------------------------------------------------------------------
# normal form of a pattern (python side):
#   ("seq", [items]) | ("alt", [alts]) | ("chr", (item, ...)) | ("grp", idx, name, body)
#   | ("opt", body) | ("rep", lo, hi, body) | ("plus", body)
#   char-class items: ("lit", code) | ("digit",) | ("any",)
# bodies are always ("seq", [...]) or ("alt", [...]) nodes.
# ---------------------------------------------------------------------------------------------
SPECIAL = set(".^$*+?{}[]\\|()")
ESC_LITERALS = set(".^$*+?{}[]\\|()/:-")


class _P:
    """recursive-descent parser of the regex subset; anything else raises GenError."""

    def __init__(self, pat, where):
        self.s, self.i, self.where, self.ngroups, self.names = pat, 0, where, 0, {}

    def err(self, msg):
        raise GenError(f"{self.where}: unsupported regex syntax at offset {self.i} ({msg}) in {self.s!r}")

    def peek(self):
        return self.s[self.i] if self.i < len(self.s) else ""

    def parse(self):
        node = self.alt()
        if self.i != len(self.s):
            self.err("unbalanced ')'")
        return node

    def alt(self):
        alts = [self.seq()]
        while self.peek() == "|":
            self.i += 1
            alts.append(self.seq())
        return alts[0] if len(alts) == 1 else ("alt", alts)

    def seq(self):
        items = []
        while self.i < len(self.s) and self.peek() not in "|)":
            atom = self.atom()
            atom = self.quant(atom)
            items.append(atom)
        return ("seq", items)

    def try_braces(self):
        """at '{': (lo, hi, new_i) when it is a quantifier `{m}` / `{m,n}` as CPython reads it, None when
        CPython treats the brace as a literal; forms CPython accepts but we do not model fail closed."""
        m = re.compile(r"\{(\d*)(,(\d*))?\}").match(self.s, self.i)
        if not m:
            return None                      # CPython: literal '{'
        lo, comma, hi = m.group(1), m.group(2), m.group(3)
        if lo == "" and comma is None:
            return None                      # "{}" is a literal brace pair
        if lo == "" or (comma is not None and hi == ""):
            self.err("open-ended {m,n}")
        lo = int(lo)
        hi = lo if comma is None else int(hi)
        if hi < lo:
            self.err("{m,n} with n < m")
        return lo, hi, m.end()

    def quant(self, atom):
        c = self.peek()
        q = None
        if c == "?":
            self.i += 1
            q = ("opt", _body(atom))
        elif c == "+":
            self.i += 1
            q = ("plus", _body(atom))
        elif c == "*":
            self.err("'*'")
        elif c == "{":
            b = self.try_braces()
            if b is not None:
                lo, hi, self.i = b
                q = ("rep", lo, hi, _body(atom))
        if q is None:
            return atom
        if self.peek() in ("?", "+", "*") or (self.peek() == "{" and self.try_braces() is not None):
            self.err("lazy/possessive/stacked quantifier")
        if _nullable(q[-1]):
            self.err("quantifier over a pattern that can match the empty string")
        if _has_group(q[-1]) and q[0] != "opt":
            self.err("capturing group under a repetition")
        return q

    def atom(self):
        c = self.peek()
        if c == "(":
            self.i += 1
            name = ""
            if self.peek() == "?":
                m = re.compile(r"\?P<([A-Za-z_][A-Za-z_0-9]*)>").match(self.s, self.i)
                if not m:
                    self.err("group extension other than (?P<name>...)")
                name = m.group(1)
                self.i = m.end()
            self.ngroups += 1
            idx = self.ngroups
            if name:
                if name in self.names:
                    self.err("duplicate group name")
                self.names[name] = idx
            body = self.alt()
            if self.peek() != ")":
                self.err("missing ')'")
            self.i += 1
            return ("grp", idx, name, _body(body))
        if c == "[":
            self.i += 1
            items = []
            if self.peek() in ("^", "]"):
                self.err("negated / odd character class")
            while self.peek() != "]":
                ch = self.peek()
                if ch == "" or ch in "\\-[^":
                    self.err("character class with escape/range")
                if self.s[self.i + 1:self.i + 2] == "-":
                    self.err("character range")
                items.append(("lit", ord(ch)))
                self.i += 1
            self.i += 1
            if not items:
                self.err("empty class")
            return ("chr", tuple(items))
        if c == "\\":
            e = self.s[self.i + 1:self.i + 2]
            self.i += 2
            if e == "d":
                return ("chr", (("digit",),))
            if e in ESC_LITERALS and e != "":
                return ("chr", (("lit", ord(e)),))
            self.i -= 2
            self.err(f"escape \\{e}")
        if c == ".":
            self.i += 1
            return ("chr", (("any",),))
        if c == "{":
            if self.try_braces() is not None:
                self.err("quantifier with nothing to repeat")
            self.i += 1
            return ("chr", (("lit", ord("{")),))
        if c in "^$*+?|)":
            self.err(f"metacharacter {c!r}")
        # '}' and ']' alone are literals in CPython
        if ord(c) > 127:
            self.err("non-ASCII literal")
        self.i += 1
        return ("chr", (("lit", ord(c)),))


def _body(node):
    return node if node[0] in ("seq", "alt") else ("seq", [node])


def _nullable(n):
    k = n[0]
    if k == "seq":
        return all(_nullable(x) for x in n[1])
    if k == "alt":
        return any(_nullable(x) for x in n[1])
    if k == "chr":
        return False
    if k == "grp":
        return _nullable(n[3])
    if k == "opt":
        return True
    if k == "rep":
        return n[1] == 0 or _nullable(n[3])
    if k == "plus":
        return _nullable(n[1])
    raise GenError(f"regex: node {k}")


def _has_group(n):
    k = n[0]
    if k in ("seq", "alt"):
        return any(_has_group(x) for x in n[1])
    if k == "chr":
        return False
    if k == "grp":
        return True
    return _has_group(n[-1])


def _norm(n):
    """flatten singleton/nested seqs so the two views compare structurally."""
    k = n[0]
    if k == "seq":
        out = []
        for x in n[1]:
            x = _norm(x)
            if x[0] == "seq":
                out += x[1]
            else:
                out.append(x)
        return ("seq", out)
    if k == "alt":
        return ("alt", [_norm(x) for x in n[1]])
    if k == "chr":
        return n
    if k == "grp":
        return ("grp", n[1], n[2], _norm(n[3]))
    if k == "opt":
        return ("opt", _norm(n[1]))
    if k == "rep":
        return ("rep", n[1], n[2], _norm(n[3]))
    if k == "plus":
        return ("plus", _norm(n[1]))
    raise GenError(f"regex: node {k}")


def from_sre(pattern, flags, where):
    """CPython's own parse tree of the pattern -> the same normal form (fail closed)."""
    try:
        import re._parser as sp      # 3.11+
        import re._constants as sc
    except ImportError:               # pragma: no cover
        import sre_parse as sp
        import sre_constants as sc
    tree = sp.parse(pattern, flags)
    names = {v: k for k, v in tree.state.groupdict.items()}

    def items(lst):
        return ("seq", [one(op, av) for op, av in lst])

    def cls_items(av):
        out = []
        for op, a in av:
            if op is sc.LITERAL:
                out.append(("lit", a))
            elif op is sc.CATEGORY and a is sc.CATEGORY_DIGIT:
                out.append(("digit",))
            else:
                raise GenError(f"{where}: CPython parse tree has class item {op} {a}")
        return tuple(out)

    def one(op, av):
        if op is sc.LITERAL:
            return ("chr", (("lit", av),))
        if op is sc.IN:
            return ("chr", cls_items(av))
        if op is sc.ANY:
            return ("chr", (("any",),))
        if op is sc.SUBPATTERN:
            g, add, dele, p = av
            if g is None or add or dele:
                raise GenError(f"{where}: non-capturing group / inline flags")
            return ("grp", g, names.get(g, ""), body(p))
        if op is sc.MAX_REPEAT:
            lo, hi, p = av
            if (lo, hi) == (0, 1):
                return ("opt", body(p))
            if lo == 1 and hi is sc.MAXREPEAT:
                return ("plus", body(p))
            if hi is sc.MAXREPEAT:
                raise GenError(f"{where}: open-ended repeat")
            return ("rep", int(lo), int(hi), body(p))
        if op is sc.BRANCH:
            return ("alt", [items(p) for p in av[1]])
        raise GenError(f"{where}: CPython parse tree has {op}")

    def body(p):
        lst = list(p)
        if len(lst) == 1 and lst[0][0] is sc.BRANCH:
            return one(*lst[0])
        return items(lst)

    return _norm(body(tree)), tree.state.groups - 1, dict(tree.state.groupdict)


# ---------------------------------------------------------------------------------------------
def coq_re(n):
    """normal form -> Coq term of type Model.Regex.re (right-nested Seq/Alt, Eps for the empty seq)."""
    k = n[0]
    if k == "seq":
        xs = n[1]
        if not xs:
            return "Eps"
        if len(xs) == 1:
            return coq_re(xs[0])
        return f"(Seq {coq_re(xs[0])} {coq_re(('seq', xs[1:]))})"
    if k == "alt":
        xs = n[1]
        if len(xs) == 1:
            return coq_re(xs[0])
        return f"(Alt {coq_re(xs[0])} {coq_re(('alt', xs[1:]))})"
    if k == "chr":
        its = []
        for it in n[1]:
            its.append({"lit": lambda: f"CLit {it[1]}", "digit": lambda: "CDigit", "any": lambda: "CAny"}[it[0]]())
        return "(Chr [" + "; ".join(its) + "])"
    if k == "grp":
        return f"(Group {n[1]} {zs(n[2])} {coq_re(n[3])})"
    if k == "opt":
        return f"(Opt {coq_re(n[1])})"
    if k == "rep":
        return f"(Rep {n[1]} {n[2]} {coq_re(n[3])})"
    if k == "plus":
        return f"(Plus {coq_re(n[1])})"
    raise GenError(f"regex: node {k}")


def source_patterns():
    """{name: (pattern string from the literal pieces, flags expr names)} from the module AST."""
    tree = _parse("pycomm3/slc_driver.py")
    out = {}
    for node in tree.body:
        if not (isinstance(node, ast.Assign) and len(node.targets) == 1 and isinstance(node.targets[0], ast.Name)):
            continue
        name = node.targets[0].id
        if not name.endswith("_RE"):
            continue
        v = node.value
        if not (isinstance(v, ast.Call) and isinstance(v.func, ast.Attribute) and v.func.attr == "compile"
                and isinstance(v.func.value, ast.Name) and v.func.value.id == "re"):
            raise GenError(f"slc_driver.{name}: not a re.compile(...) call")
        if len(v.args) != 1 or not (isinstance(v.args[0], ast.Constant) and isinstance(v.args[0].value, str)):
            raise GenError(f"slc_driver.{name}: pattern is not a (concatenated) string literal")
        flags = []
        for kw in v.keywords:
            if kw.arg != "flags":
                raise GenError(f"slc_driver.{name}: keyword {kw.arg}")
            parts = [kw.value]
            while parts:
                p = parts.pop()
                if isinstance(p, ast.BinOp) and isinstance(p.op, ast.BitOr):
                    parts += [p.left, p.right]
                elif isinstance(p, ast.Attribute) and isinstance(p.value, ast.Name) and p.value.id == "re":
                    flags.append(p.attr)
                else:
                    raise GenError(f"slc_driver.{name}: flags expression")
        if name in out:
            raise GenError(f"slc_driver.{name}: assigned twice")
        out[name] = (v.args[0].value, sorted(flags))
    return out


def _dict_literal(tree, name):
    for node in tree.body:
        if isinstance(node, ast.Assign) and len(node.targets) == 1 and isinstance(node.targets[0], ast.Name) \
                and node.targets[0].id == name:
            if not isinstance(node.value, ast.Dict) or any(k is None for k in node.value.keys):
                raise GenError(f"pccc.{name}: not a plain dict literal")
            try:
                return [(ast.literal_eval(k), ast.literal_eval(v)) for k, v in zip(node.value.keys, node.value.values)]
            except Exception:
                raise GenError(f"pccc.{name}: non-literal entry")
    raise GenError(f"pccc.{name}: not found")


def gen_slc_tables():
    mod = _import("pycomm3.slc_driver")
    src = source_patterns()
    if sorted(src) != sorted(PATTERNS):
        raise GenError(f"slc_driver: pattern set changed: {sorted(src)}")
    out = [HEADER, "From PV Require Import Model.Regex.\n\n"]
    for name in PATTERNS:
        pat, flags = src[name]
        rx = getattr(mod, name, None)
        if rx is None or not isinstance(rx, re.Pattern):
            raise GenError(f"slc_driver.{name}: not a compiled pattern at runtime")
        if rx.pattern != pat:
            raise GenError(f"slc_driver.{name}: runtime .pattern differs from the source literal")
        if flags not in ([], ["IGNORECASE"]) and flags != ["I"]:
            raise GenError(f"slc_driver.{name}: flags {flags} not modelled")
        ic = bool(flags)
        if rx.flags != (re.UNICODE | (re.IGNORECASE if ic else 0)):
            raise GenError(f"slc_driver.{name}: runtime flags {rx.flags} differ from the source")
        p = _P(pat, f"slc_driver.{name}")
        mine = _norm(_body(p.parse()))
        theirs, ngroups, gdict = from_sre(rx.pattern, rx.flags, f"slc_driver.{name}")
        if mine != theirs:
            raise GenError(f"slc_driver.{name}: my parse differs from CPython's parse tree")
        if p.ngroups != rx.groups or p.ngroups != ngroups:
            raise GenError(f"slc_driver.{name}: group count")
        if p.names != dict(rx.groupindex) or p.names != gdict:
            raise GenError(f"slc_driver.{name}: group names")
        names = "; ".join(f"({zs(n)}, {i}%nat)" for n, i in sorted(p.names.items(), key=lambda kv: kv[1]))
        out.append("(* %s = %s *)\n" % (name, repr(pat).replace("*", "<star>")))
        out.append(f"Definition {name}_ast : re :=\n  {coq_re(mine)}.\n")
        out.append(f"Definition {name} : regex := {{| rx_re := {name}_ast; rx_ic := {coq_bool(ic)}; "
                   f"rx_groups := {p.ngroups}%nat; rx_names := [{names}] |}}.\n\n")
    # how parse_tag applies the patterns: every X_RE.<method>(tag) call of its body, one method for all seven
    ptree = _parse("pycomm3/slc_driver.py")
    fn = [n for n in ptree.body if isinstance(n, ast.FunctionDef) and n.name == "parse_tag"]
    if len(fn) != 1:
        raise GenError("slc_driver.parse_tag: not found")
    used, methods = [], set()
    for node in ast.walk(fn[0]):
        if isinstance(node, ast.Call) and isinstance(node.func, ast.Attribute) and isinstance(node.func.value, ast.Name) \
                and node.func.value.id.endswith("_RE"):
            if len(node.args) != 1 or not (isinstance(node.args[0], ast.Name) and node.args[0].id == "tag") or node.keywords:
                raise GenError(f"slc_driver.parse_tag: {node.func.value.id}.{node.func.attr}(...) is not applied to `tag` alone")
            used.append(node.func.value.id)
            methods.add(node.func.attr)
    if sorted(used) != sorted(PATTERNS):
        raise GenError(f"slc_driver.parse_tag: patterns applied: {used}")
    if methods not in ({"search"}, {"fullmatch"}):
        raise GenError(f"slc_driver.parse_tag: pattern methods {sorted(methods)} not modelled")
    out.append("(* parse_tag applies every pattern with the same method: fullmatch (true) or search (false) *)\n")
    out.append(f"Definition PARSE_TAG_FULLMATCH : bool := {coq_bool(methods == {'fullmatch'})}.\n\n")
    out.append("Definition slc_patterns : list (list Z * regex) := [\n" +
               ";\n".join(f"  ({zs(n)}, {n})" for n in PATTERNS) + "].\n\n")

    # ------------------------------------------------------------------ PCCC tables
    tree = _parse("pycomm3/cip/pccc.py")
    pccc = _import("pycomm3.cip.pccc")
    dt = _dict_literal(tree, "_PCCC_DATA_TYPE")
    if dict(dt) != pccc._PCCC_DATA_TYPE or len(dt) != len(pccc._PCCC_DATA_TYPE):
        raise GenError("pccc._PCCC_DATA_TYPE: AST differs from runtime")
    if pccc.PCCC_DATA_TYPE != {**pccc._PCCC_DATA_TYPE, **{v: k for k, v in pccc._PCCC_DATA_TYPE.items()}}:
        raise GenError("pccc.PCCC_DATA_TYPE: not the bidirectional merge of _PCCC_DATA_TYPE")
    for k, v in dt:
        if not (isinstance(k, str) and isinstance(v, bytes)):
            raise GenError(f"pccc._PCCC_DATA_TYPE[{k!r}]: not str -> bytes")
    out.append("(* PCCC_DATA_TYPE, forward direction: file type -> type code bytes (declaration order) *)\n")
    out.append("Definition pccc_data_type : list (list Z * list Z) := [\n" +
               ";\n".join(f"  ({zs(k)}, {zb(v)})" for k, v in dt) + "].\n\n")
    for nm, coqn in (("PCCC_DATA_SIZE", "pccc_data_size"), ("PCCC_CT", "pccc_ct")):
        d = _dict_literal(tree, nm)
        rt = getattr(pccc, nm)
        if dict(d) != rt or len(d) != len(rt):
            raise GenError(f"pccc.{nm}: AST differs from runtime")
        for k, v in d:
            if not (isinstance(k, str) and isinstance(v, int) and not isinstance(v, bool)):
                raise GenError(f"pccc.{nm}[{k!r}]: not str -> int")
        out.append(f"Definition {coqn} : list (list Z * Z) := [\n" + ";\n".join(f"  ({zs(k)}, {v})" for k, v in d) + "].\n\n")
    # PCCCDataTypes: member -> codec class name (lower-cased member names, as MapMeta keys them)
    members = []
    cls_node = [n for n in tree.body if isinstance(n, ast.ClassDef) and n.name == "PCCCDataTypes"]
    if len(cls_node) != 1:
        raise GenError("pccc.PCCCDataTypes: class not found")
    for st in cls_node[0].body:
        if isinstance(st, ast.Assign) and len(st.targets) == 1 and isinstance(st.targets[0], ast.Name):
            n = st.targets[0].id
            if n.startswith("_"):
                continue
            if not isinstance(st.value, ast.Name):
                raise GenError(f"pccc.PCCCDataTypes.{n}: value is not a class name")
            rv = pccc.PCCCDataTypes.__dict__.get(n)
            if not isinstance(rv, type) or rv.__name__ != st.value.id:
                raise GenError(f"pccc.PCCCDataTypes.{n}: AST differs from runtime")
            if pccc.PCCCDataTypes[n.upper()] is not rv:
                raise GenError(f"pccc.PCCCDataTypes[{n.upper()!r}]: lookup does not return the member")
            members = [(a, b) for a, b in members if a != n.lower()] + [(n.lower(), rv)]
        elif not isinstance(st, (ast.Expr, ast.Pass)):
            raise GenError(f"pccc.PCCCDataTypes: unrecognised statement at line {st.lineno}")
    dtm = _import("pycomm3.cip.data_types")
    rows = []
    for n, rv in members:
        base = rv.__name__
        if base in ("INT", "DINT", "REAL"):
            if rv is not getattr(dtm, base):
                raise GenError(f"pccc.PCCCDataTypes.{n}: {base} is not cip.data_types.{base}")
            rows.append(f"  ({zs(n)}, {zs(base)}, {rv.size}, {zs(rv._format)})")
        else:
            rows.append(f"  ({zs(n)}, {zs(base)}, 0, [])")
    out.append("(* PCCCDataTypes: (lower-cased member, codec class, size, struct format) *)\n")
    out.append("Definition pccc_data_types : list (list Z * list Z * Z * list Z) := [\n" + ";\n".join(rows) + "].\n\n")

    # ------------------------------------------------------------------ constants
    ctree = _parse("pycomm3/const.py")
    cmod = _import("pycomm3.const")
    assigned = {}
    for node in ctree.body:
        if isinstance(node, ast.Assign) and len(node.targets) == 1 and isinstance(node.targets[0], ast.Name):
            assigned[node.targets[0].id] = node.value
    for n in ("SLC_CMD_CODE", "SLC_CMD_REPLY_CODE", "SLC_FNC_READ", "SLC_FNC_WRITE", "PCCC_PATH", "SLC_REPLY_START", "SUCCESS"):
        if n not in assigned:
            raise GenError(f"const.{n}: not assigned at module level")
        try:
            lit = ast.literal_eval(assigned[n])
        except Exception:
            raise GenError(f"const.{n}: not a literal")
        rv = getattr(cmod, n)
        if lit != rv or type(lit) is not type(rv):
            raise GenError(f"const.{n}: AST value differs from runtime")
        if getattr(mod, n, rv) != rv:
            raise GenError(f"slc_driver.{n}: differs from const.{n}")
        if isinstance(rv, bytes):
            out.append(f"Definition {n} : list Z := {zb(rv)}.\n")
        elif isinstance(rv, int) and not isinstance(rv, bool):
            out.append(f"Definition {n} : Z := {rv}.\n")
        else:
            raise GenError(f"const.{n}: unexpected type")
    # USINT / UINT as the driver uses them for the request fields
    for tn in ("USINT", "UINT"):
        t = getattr(dtm, tn)
        if getattr(mod, tn) is not t:
            raise GenError(f"slc_driver.{tn}: is not cip.data_types.{tn}")
        out.append(f"Definition {tn}_fmt : list Z * Z := ({zs(t._format)}, {t.size}).\n")
    return "".join(out)


GENERATORS = {"SlcTables.v": gen_slc_tables}

if __name__ == "__main__":
    sys.stdout.write(gen_slc_tables())
