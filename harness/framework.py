"""framework.py — shared machinery of the checks: co-process link, token codec, result
aggregation, known-findings matching, evidence and verdict."""
import hashlib
import json
import os
import random
import subprocess
import sys
import time

VERIF = os.path.normpath(os.path.join(os.path.dirname(os.path.abspath(__file__)), ".."))
REPO = os.environ.get("VERIF_REPO", "/repo")


# ------------------------------------------------------------------ token codec (Base/Proto.v)
def t_int(z):
    return str(int(z))


def t_bytes(b):
    return "x" + bytes(b).hex()


def t_text(s):
    return "u" + "".join("%06x" % ord(c) for c in s)


def parse_tok(w):
    if w.startswith("x") and len(w) % 2 == 1 and all(c in "0123456789abcdef" for c in w[1:]):
        return bytes.fromhex(w[1:])
    if w.startswith("u") and len(w) % 6 == 1 and all(c in "0123456789abcdef" for c in w[1:]):
        return "".join(chr(int(w[i:i + 6], 16)) for i in range(1, len(w), 6))
    try:
        return int(w)
    except ValueError:
        return Sym(w)


class Sym(str):
    def __repr__(self):
        return f"Sym({str(self)})"


def parse_line(line):
    return [parse_tok(w) for w in line.strip().split(" ") if w != ""]


class ModelProc:
    """a live `bin/modelrun_<prop>` co-process."""

    def __init__(self, prop):
        exe = os.path.join(VERIF, "bin", f"modelrun_{prop.lower()}")
        self.p = subprocess.Popen(["bash", "-c", f"ulimit -s unlimited 2>/dev/null; exec {exe}"],
                                  stdin=subprocess.PIPE, stdout=subprocess.PIPE, bufsize=0)
        self.n = 0

    def ask_raw(self, line):
        self.p.stdin.write(line.encode("ascii") + b"\n")
        out = self.p.stdout.readline()
        if not out:
            raise RuntimeError(f"modelrun died on: {line[:200]}")
        self.n += 1
        return out.decode("ascii").rstrip("\n")

    def ask(self, *toks):
        return parse_line(self.ask_raw(" ".join(toks)))

    def batch(self, lines):
        """send many lines, read many answers; a reader thread drains stdout so neither pipe can
        fill up and deadlock, whatever the line sizes."""
        import threading
        out = []
        err = []

        def reader():
            try:
                for _ in lines:
                    o = self.p.stdout.readline()
                    if not o:
                        err.append("modelrun died in batch")
                        return
                    out.append(o.decode("ascii").rstrip("\n"))
            except Exception as e:  # pragma: no cover
                err.append(repr(e))

        th = threading.Thread(target=reader, daemon=True)
        th.start()
        try:
            CH = 500
            for i in range(0, len(lines), CH):
                self.p.stdin.write(("\n".join(lines[i:i + CH]) + "\n").encode("ascii"))
        except BrokenPipeError:
            err.append("modelrun closed its input in batch")
        th.join()
        if err or len(out) != len(lines):
            raise RuntimeError(err[0] if err else "modelrun answered fewer lines than asked")
        self.n += len(lines)
        return out

    def close(self):
        try:
            self.p.stdin.close()
            self.p.wait(timeout=5)
        except Exception:
            self.p.kill()


# ------------------------------------------------------------------ results
class Results:
    """what one run of a property's harness found."""

    def __init__(self, prop, tier, seed):
        self.prop, self.tier, self.seed = prop, tier, seed
        self.rng = random.Random(seed)
        self.evaluations = 0
        self.nontrivial = set()          # hashes of distinct non-trivial cases
        self.samples = []
        self.hist = {}                   # input-distribution histograms
        self.corr_checked = 0
        self.corr_disagreements = []     # [{what, case, model, impl}]
        self.oracle_failures = []        # [{what, case, observed, expected, cls}]
        self.traces = 0
        self.notes = []
        self.rule = ""
        self.exhaustive = False

    def count(self, hist, key, n=1):
        h = self.hist.setdefault(hist, {})
        h[str(key)] = h.get(str(key), 0) + n

    def case(self, case, nontrivial=True):
        self.evaluations += 1
        if nontrivial:
            self.nontrivial.add(hashlib.sha1(repr(case).encode()).hexdigest()[:16])
        if len(self.samples) < 6 or (self.evaluations % 997 == 0 and len(self.samples) < 12):
            self.samples.append(_jsonable(case))

    def disagree(self, what, case, model, impl):
        if len(self.corr_disagreements) < 50:
            self.corr_disagreements.append({"what": what, "case": _jsonable(case), "model": _jsonable(model), "impl": _jsonable(impl)})
        else:
            self.corr_disagreements[-1]["more"] = self.corr_disagreements[-1].get("more", 0) + 1

    def fail(self, what, case, observed, expected, cls=""):
        """an oracle failure observed on the IMPLEMENTATION. cls = input class for known-finding matching."""
        if len(self.oracle_failures) < 200:
            self.oracle_failures.append({"what": what, "class": cls, "case": _jsonable(case),
                                         "observed": _jsonable(observed), "expected": _jsonable(expected)})


def _jsonable(x):
    if isinstance(x, (bytes, bytearray)):
        return {"b": bytes(x).hex()}
    if isinstance(x, Sym):
        return str(x)
    if isinstance(x, (str, int, bool)) or x is None:
        return x
    if isinstance(x, float):
        return {"f": x.hex()}
    if isinstance(x, dict):
        return {str(k): _jsonable(v) for k, v in x.items()}
    if isinstance(x, (list, tuple, set, frozenset)):
        return [_jsonable(v) for v in x]
    return repr(x)


# ------------------------------------------------------------------ known findings
def load_known(prop):
    known, fixed = [], []
    paths = [os.path.join(VERIF, "KNOWN_FINDINGS.jsonl"), os.path.join(VERIF, "known_findings", f"{prop}.jsonl")]
    for path in paths:
        if not os.path.exists(path):
            continue
        for line in open(path):
            line = line.strip()
            if not line or line.startswith("#"):
                continue
            if line.startswith("fixed:"):
                fixed.append(line)
                continue
            e = json.loads(line)
            if e.get("property") == prop:
                known.append(e)
    return known, fixed


def match_known(failure, known):
    """an entry matches a failure when its `class` equals the failure's input class (a string the
    property harness derives from the failing case: call site + input class), and, when given, its
    `what` equals the failure's `what`."""
    for e in known:
        if e.get("class") == failure.get("class") and e.get("class"):
            if "what" in e and e["what"] != failure.get("what"):
                continue
            return e
    return None
