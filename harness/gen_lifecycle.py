"""gen_lifecycle.py — regenerates coq/Gen/LifecycleGen.v: the declarative facts the connection
lifecycle model (coq/Model/Lifecycle.v, property C10) depends on, read from /repo:

  cip_driver.py    CIPDriver.__init__ `_cfg` literal (context, protocol version, option, cid, csn, vid, vsn,
                   extended forward open, connection_size); with_forward_open's fallback assignments
                   (extended forward open := False, connection_size := 500); _forward_open's
                   init_net_params, the two network-parameter expressions, the forward_open_msg /
                   forward_close_msg field lists; which class / instance / service the connection
                   manager requests address
  logix_driver.py  the requests of _initialize_driver (get_plc_info, get_plc_name)
  packets/*.py     the encapsulation constants of the request builders and the offsets the response
                   classes read (`self.raw[a:b]`), UnRegisterSession's `no_response`

Every fact is read from the AST in its declared shape and cross-checked against the runtime objects
(the builders are run with a stub transport and must produce the bytes the template denotes).
Anything not in the recognised shape raises GenError (a broken obligation `gen:LifecycleGen.v`).
"""
import ast
import os
import sys

from gen_tables import GenError, REPO, zb, coq_bool  # noqa: E402


def _tree(rel):
    with open(os.path.join(REPO, rel), "rb") as f:
        return ast.parse(f.read(), rel)


def _func(tree, name, cls=None):
    """the FunctionDef `name` (inside ClassDef `cls` when given)."""
    scope = tree.body
    if cls is not None:
        cs = [n for n in tree.body if isinstance(n, ast.ClassDef) and n.name == cls]
        if len(cs) != 1:
            raise GenError(f"class {cls}: found {len(cs)}")
        scope = cs[0].body
    fs = [n for n in scope if isinstance(n, ast.FunctionDef) and n.name == name]
    if len(fs) != 1:
        raise GenError(f"{cls + '.' if cls else ''}{name}: found {len(fs)} definitions")
    return fs[0]


def _class_attr(tree, cls, attr):
    cs = [n for n in tree.body if isinstance(n, ast.ClassDef) and n.name == cls]
    if len(cs) != 1:
        raise GenError(f"class {cls}: found {len(cs)}")
    for n in cs[0].body:
        if isinstance(n, ast.Assign) and len(n.targets) == 1 and isinstance(n.targets[0], ast.Name) and n.targets[0].id == attr:
            return n.value
    return None


def _const(node, typ, where):
    if isinstance(node, ast.Constant) and isinstance(node.value, typ) and not (typ is int and isinstance(node.value, bool)):
        return node.value
    raise GenError(f"{where}: not a {typ.__name__} constant")


def _is_cfg_sub(node, key=None):
    """self._cfg["<key>"]"""
    ok = (isinstance(node, ast.Subscript) and isinstance(node.value, ast.Attribute) and node.value.attr == "_cfg"
          and isinstance(node.value.value, ast.Name) and node.value.value.id == "self"
          and isinstance(node.slice, ast.Constant) and isinstance(node.slice.value, str))
    if not ok:
        return None
    return node.slice.value if key is None or node.slice.value == key else None


# ---------------------------------------------------------------- CIPDriver.__init__: self._cfg
CFG_KEYS = [("context", bytes), ("protocol version", bytes), ("option", int), ("cid", bytes), ("csn", bytes),
            ("vid", bytes), ("vsn", bytes), ("extended forward open", bool), ("connection_size", int)]


def cfg_literal(tree):
    init = _func(tree, "__init__", "CIPDriver")
    dicts = [n.value for n in ast.walk(init) if isinstance(n, ast.Assign) and len(n.targets) == 1
             and isinstance(n.targets[0], ast.Attribute) and n.targets[0].attr == "_cfg" and isinstance(n.value, ast.Dict)]
    if len(dicts) != 1:
        raise GenError(f"CIPDriver.__init__: expected one `self._cfg = {{...}}`, found {len(dicts)}")
    d = {}
    for k, v in zip(dicts[0].keys, dicts[0].values):
        if isinstance(k, ast.Constant) and isinstance(k.value, str):
            d[k.value] = v
    out = {}
    for key, typ in CFG_KEYS:
        if key not in d:
            raise GenError(f"CIPDriver._cfg: key {key!r} missing")
        out[key] = _const(d[key], typ, f"CIPDriver._cfg[{key!r}]")
    return out


# ---------------------------------------------------------------- with_forward_open: the fallback
def fallback(tree):
    wfo = _func(tree, "with_forward_open")
    assigns = {}
    for n in ast.walk(wfo):
        if isinstance(n, ast.Assign) and len(n.targets) == 1:
            k = _is_cfg_sub(n.targets[0])
            if k is not None:
                if k in assigns:
                    raise GenError(f"with_forward_open: `_cfg[{k!r}]` assigned twice")
                assigns[k] = n.value
    if set(assigns) != {"extended forward open", "connection_size"}:
        raise GenError(f"with_forward_open: assigns {sorted(assigns)} (expected the two fallback settings)")
    return (_const(assigns["extended forward open"], bool, "with_forward_open fallback flag"),
            _const(assigns["connection_size"], int, "with_forward_open fallback size"))


# ---------------------------------------------------------------- _forward_open / _forward_close
# module-level constants of pycomm3.const (imported names, not locals)
FIELDS = {"PRIORITY": "FPriority", "TIMEOUT_TICKS": "FTimeoutTicks", "TIMEOUT_MULTIPLIER": "FTimeoutMultiplier",
          "TRANSPORT_CLASS": "FTransportClass"}
CFG_FIELDS = {"cid": "FCid", "csn": "FCsn", "vid": "FVid", "vsn": "FVsn"}


def local_assignments(fn, name):
    """the values assigned to the local variable `name` anywhere in `fn` (plain `name = value` statements)"""
    return [n.value for n in ast.walk(fn) if isinstance(n, ast.Assign) and len(n.targets) == 1
            and isinstance(n.targets[0], ast.Name) and n.targets[0].id == name]


def resolve(fn, node):
    """a local variable that is assigned exactly once in `fn` stands for the assigned expression (locals are
    recognised by what they hold, never by their names)"""
    seen = set()
    while isinstance(node, ast.Name) and node.id not in seen:
        seen.add(node.id)
        vals = local_assignments(fn, node.id)
        if len(vals) != 1:
            break
        node = vals[0]
    return node


def _is_conn_size(n):
    return (isinstance(n, ast.Attribute) and n.attr == "connection_size" and isinstance(n.value, ast.Name) and n.value.id == "self")


def net_params_shape(fn, name):
    """`name` is the local holding the network connection parameters when it is assigned exactly by
         if self._cfg["extended forward open"]: name = UDINT.encode((self.connection_size & M1) | <init> << SH)
         else:                                  name = UINT.encode((self.connection_size & M2) | <init>)
       with <init> an integer constant (directly or through a local assigned once) -> (init, M1, SH, M2) or None"""
    ifs = [n for n in ast.walk(fn) if isinstance(n, ast.If) and _is_cfg_sub(n.test, "extended forward open")
           and len(n.body) == 1 and len(n.orelse) == 1
           and all(isinstance(s, ast.Assign) and len(s.targets) == 1 and isinstance(s.targets[0], ast.Name)
                   and s.targets[0].id == name for s in (n.body[0], n.orelse[0]))]
    if len(ifs) != 1 or len(local_assignments(fn, name)) != 2:
        return None

    def enc(call, typ):
        if not (isinstance(call, ast.Call) and isinstance(call.func, ast.Attribute) and call.func.attr == "encode"
                and isinstance(call.func.value, ast.Name) and call.func.value.id == typ and len(call.args) == 1):
            raise GenError(f"{fn.name}: the network parameters are not {typ}.encode(...)")
        return call.args[0]

    def masked(n):
        if not (isinstance(n, ast.BinOp) and isinstance(n.op, ast.BitAnd) and _is_conn_size(n.left)):
            raise GenError(f"{fn.name}: network parameters: `self.connection_size & mask`")
        return _const(n.right, int, f"{fn.name}: size mask")

    def init_of(n):
        return _const(resolve(fn, n), int, f"{fn.name}: initial network parameters")

    big = enc(ifs[0].body[0].value, "UDINT")
    if not (isinstance(big, ast.BinOp) and isinstance(big.op, ast.BitOr) and isinstance(big.right, ast.BinOp)
            and isinstance(big.right.op, ast.LShift)):
        raise GenError(f"{fn.name}: extended network parameters shape")
    m1, sh, init1 = masked(big.left), _const(big.right.right, int, f"{fn.name}: shift"), init_of(big.right.left)
    small = enc(ifs[0].orelse[0].value, "UINT")
    if not (isinstance(small, ast.BinOp) and isinstance(small.op, ast.BitOr)):
        raise GenError(f"{fn.name}: standard network parameters shape")
    m2, init2 = masked(small.left), init_of(small.right)
    if init1 != init2:
        raise GenError(f"{fn.name}: the two network parameter expressions use different initial values")
    return init1, m1, sh, m2


def msg_template(fn, kw, where):
    """the field list of the request data: generic_message(request_data=b"".join(<list>)), the list given
    directly or through a local assigned once.  Elements: bytes literals, the module constants PRIORITY /
    TIMEOUT_TICKS / TIMEOUT_MULTIPLIER / TRANSPORT_CLASS, self._cfg[...] entries, and the local that holds the
    network connection parameters (recognised by the shape of its assignment).  -> (template, net params or None)"""
    rd = resolve(fn, kw.get("request_data"))
    if not (isinstance(rd, ast.Call) and isinstance(rd.func, ast.Attribute) and rd.func.attr == "join"
            and isinstance(rd.func.value, ast.Constant) and rd.func.value.value == b"" and len(rd.args) == 1):
        raise GenError(f"{where}: request_data is not b\"\".join(<field list>)")
    lst = resolve(fn, rd.args[0])
    if not isinstance(lst, ast.List):
        raise GenError(f"{where}: the request data field list is not a list literal")
    out, nps = [], None
    for e in lst.elts:
        if isinstance(e, ast.Constant) and isinstance(e.value, bytes):
            out.append(("lit", e.value))
        elif isinstance(e, ast.Name) and e.id in FIELDS:
            out.append(("field", FIELDS[e.id]))
        elif _is_cfg_sub(e) in CFG_FIELDS:
            out.append(("field", CFG_FIELDS[_is_cfg_sub(e)]))
        elif isinstance(e, ast.Name) and net_params_shape(fn, e.id) is not None:
            shape = net_params_shape(fn, e.id)
            if nps is not None and nps != shape:
                raise GenError(f"{where}: two different network parameter locals")
            nps = shape
            out.append(("field", "FNetParams"))
        else:
            raise GenError(f"{where}: unrecognised element of the request data field list: {ast.dump(e)[:80]}")
    return out, nps


def gm_call(fn, where):
    """the keyword arguments of the single `self.generic_message(...)` call in `fn`."""
    calls = [n for n in ast.walk(fn) if isinstance(n, ast.Call) and isinstance(n.func, ast.Attribute)
             and n.func.attr == "generic_message"]
    if len(calls) != 1 or calls[0].args:
        raise GenError(f"{where}: expected one keyword-only generic_message call")
    return {k.arg: k.value for k in calls[0].keywords}


def _attr_chain(n):
    if isinstance(n, ast.Attribute) and isinstance(n.value, ast.Name):
        return f"{n.value.id}.{n.attr}"
    return None


# ---------------------------------------------------------------- response offsets
def raw_slices(tree, cls, meth="_parse_reply"):
    """the `self.raw[a:b]` subscripts of cls.meth, in source order: [(a|None, b|None)]"""
    fn = _func(tree, meth, cls)
    out = []
    for n in ast.walk(fn):
        if (isinstance(n, ast.Subscript) and isinstance(n.value, ast.Attribute) and n.value.attr == "raw"
                and isinstance(n.value.value, ast.Name) and n.value.value.id == "self"):
            if not isinstance(n.slice, ast.Slice) or n.slice.step is not None:
                raise GenError(f"{cls}.{meth}: self.raw[...] is not a plain slice")
            lo = None if n.slice.lower is None else _const(n.slice.lower, int, f"{cls}.{meth} slice")
            hi = None if n.slice.upper is None else _const(n.slice.upper, int, f"{cls}.{meth} slice")
            out.append((n.lineno, n.col_offset, lo, hi))
    return [(lo, hi) for _, _, lo, hi in sorted(out)]


def ext_status_offsets(tree, cls):
    """get_extended_status(self.raw, K) in command_extended_status and service_extended_status"""
    ks = set()
    for meth in ("command_extended_status", "service_extended_status"):
        fn = _func(tree, meth, cls)
        calls = [n for n in ast.walk(fn) if isinstance(n, ast.Call) and isinstance(n.func, ast.Name)
                 and n.func.id == "get_extended_status"]
        if len(calls) != 1 or len(calls[0].args) != 2:
            raise GenError(f"{cls}.{meth}: get_extended_status call")
        ks.add(_const(calls[0].args[1], int, f"{cls}.{meth}"))
    if len(ks) != 1:
        raise GenError(f"{cls}: extended-status offsets differ")
    return ks.pop()


def reset_assignments(fn):
    """top-level `self.<attr> = <constant>` statements of a method -> {attr: value}"""
    out = {}
    for n in fn.body:
        if (isinstance(n, ast.Assign) and len(n.targets) == 1 and isinstance(n.targets[0], ast.Attribute)
                and isinstance(n.targets[0].value, ast.Name) and n.targets[0].value.id == "self" and isinstance(n.value, ast.Constant)):
            out[n.targets[0].attr] = n.value.value
    return out


RESET = {"_sock": None, "_target_is_connected": False, "_session": 0, "_connection_opened": False}


def gen_lifecycle():
    if REPO not in sys.path:
        sys.path.insert(0, REPO)
    import pycomm3
    from pycomm3 import cip_driver as cd
    from pycomm3.cip import (ConnectionManagerServices, ConnectionManagerInstances, ClassCode, Services,
                             EncapsulationCommands, PADDED_EPATH, STRING)
    from pycomm3.const import MSG_ROUTER_PATH, PRIORITY, TIMEOUT_TICKS, TIMEOUT_MULTIPLIER, TRANSPORT_CLASS
    from pycomm3.packets import (RequestPacket, SendRRDataRequestPacket, SendUnitDataRequestPacket,
                                 RegisterSessionRequestPacket, UnRegisterSessionRequestPacket,
                                 ListIdentityRequestPacket)
    from pycomm3.packets.ethernetip import DataItem, AddressItem
    from pycomm3.packets.util import request_path
    from pycomm3.custom_types import ModuleIdentityObject

    t_drv = _tree("pycomm3/cip_driver.py")
    t_lgx = _tree("pycomm3/logix_driver.py")
    t_base = _tree("pycomm3/packets/base.py")
    t_eip = _tree("pycomm3/packets/ethernetip.py")

    # ---- _cfg
    cfg = cfg_literal(t_drv)
    drv = cd.CIPDriver("192.168.1.10")
    for k, _ in CFG_KEYS:
        if drv._cfg[k] != cfg[k]:
            raise GenError(f"CIPDriver._cfg[{k!r}]: AST value differs from runtime")
    if len(cfg["context"]) != 8 or len(cfg["cid"]) != 4 or len(cfg["vsn"]) != 4 or len(cfg["csn"]) != 2 or len(cfg["vid"]) != 2:
        raise GenError("CIPDriver._cfg: field widths")
    fb_flag, fb_size = fallback(t_drv)

    # ---- close() and _abandon_transport() reset the same four attributes to the same values
    # (Model/Lifecycle.v [reset_driver] is used for both)
    for meth in ("close", "_abandon_transport"):
        got = reset_assignments(_func(t_drv, meth, "CIPDriver"))
        if got != RESET:
            raise GenError(f"CIPDriver.{meth}: resets {got}, expected {RESET}")
    for meth in ("_send", "_receive"):
        fn = _func(t_drv, meth, "CIPDriver")
        hs = [h for n in ast.walk(fn) if isinstance(n, ast.Try) for h in n.handlers]
        if len(hs) != 1 or not (isinstance(hs[0].type, ast.Name) and hs[0].type.id == "Exception"):
            raise GenError(f"CIPDriver.{meth}: expected one `except Exception` handler")
        calls = [c.func.attr for st in hs[0].body for c in ast.walk(st) if isinstance(c, ast.Call) and isinstance(c.func, ast.Attribute)]
        if "_abandon_transport" not in calls or not isinstance(hs[0].body[-1], ast.Raise):
            raise GenError(f"CIPDriver.{meth}: the handler does not abandon the transport and re-raise")

    # ---- _forward_open / _forward_close
    fo = _func(t_drv, "_forward_open", "CIPDriver")
    fc = _func(t_drv, "_forward_close", "CIPDriver")
    fo_kw, fc_kw = gm_call(fo, "_forward_open"), gm_call(fc, "_forward_close")
    fo_tmpl, fo_np = msg_template(fo, fo_kw, "_forward_open")
    fc_tmpl, fc_np = msg_template(fc, fc_kw, "_forward_close")
    if fo_np is None or fc_np is not None:
        raise GenError("_forward_open / _forward_close: network connection parameters (expected in the Forward Open only)")
    init_np, m1, sh, m2 = fo_np
    for fn_, kw, where in ((fo, fo_kw, "_forward_open"), (fc, fc_kw, "_forward_close")):
        if _attr_chain(resolve(fn_, kw.get("class_code"))) != "ClassCode.connection_manager":
            raise GenError(f"{where}: class_code is not ClassCode.connection_manager")
        if _attr_chain(resolve(fn_, kw.get("instance"))) != "ConnectionManagerInstances.open_request":
            raise GenError(f"{where}: instance is not ConnectionManagerInstances.open_request")
        con = resolve(fn_, kw.get("connected"))
        if not (isinstance(con, ast.Constant) and con.value is False):
            raise GenError(f"{where}: not sent unconnected")
        if "unconnected_send" in kw:
            raise GenError(f"{where}: unconnected_send given")
    if _attr_chain(resolve(fc, fc_kw.get("service"))) != "ConnectionManagerServices.forward_close":
        raise GenError("_forward_close: service")
    # _forward_open: service = forward_open if not extended else large_forward_open (also checked at run time below)
    svc = resolve(fo, fo_kw.get("service"))
    if not (isinstance(svc, ast.IfExp) and {_attr_chain(svc.body), _attr_chain(svc.orelse)}
            == {"ConnectionManagerServices.forward_open", "ConnectionManagerServices.large_forward_open"}):
        raise GenError("_forward_open: service is not a choice between forward_open and large_forward_open")
    # the route paths: PADDED_EPATH.encode(self._cfg["cip_path"] + MSG_ROUTER_PATH, length=True[, pad_length=True])

    def route_call(fn, where):
        kw = fo_kw if fn is fo else fc_kw
        c = resolve(fn, kw.get("route_path"))       # the route_path argument, directly or through a local
        if not (isinstance(c, ast.Call) and _attr_chain(c.func) == "PADDED_EPATH.encode" and len(c.args) == 1
                and isinstance(c.args[0], ast.BinOp) and isinstance(c.args[0].op, ast.Add)
                and _is_cfg_sub(c.args[0].left, "cip_path") and isinstance(c.args[0].right, ast.Name)
                and c.args[0].right.id == "MSG_ROUTER_PATH"):
            raise GenError(f"{where}: route_path is not PADDED_EPATH.encode(cip_path + MSG_ROUTER_PATH, ...)")
        kws = {k.arg: k.value for k in c.keywords}
        flags = {}
        for k in ("length", "pad_length"):
            flags[k] = bool(_const(kws[k], bool, f"{where}: {k}")) if k in kws else False
        if set(kws) - {"length", "pad_length"}:
            raise GenError(f"{where}: route_path keywords")
        return flags

    fo_route, fc_route = route_call(fo, "_forward_open"), route_call(fc, "_forward_close")
    if not fo_route["length"] or not fc_route["length"]:
        raise GenError("forward open/close route path without a length byte")
    mr_path = PADDED_EPATH.encode(MSG_ROUTER_PATH)
    cm_path = request_path(ClassCode.connection_manager, ConnectionManagerInstances.open_request)

    # runtime cross-check: run both builders with a stub generic_message
    def render(tmpl, d, ext):
        size = d._cfg["connection_size"]
        npar = ((size & m1) | (init_np << sh)).to_bytes(4, "little") if ext else ((size & m2) | init_np).to_bytes(2, "little")
        val = {"FPriority": PRIORITY, "FTimeoutTicks": TIMEOUT_TICKS, "FTimeoutMultiplier": TIMEOUT_MULTIPLIER,
               "FTransportClass": TRANSPORT_CLASS, "FNetParams": npar, "FCid": d._cfg["cid"], "FCsn": d._cfg["csn"],
               "FVid": d._cfg["vid"], "FVsn": d._cfg["vsn"]}
        return b"".join(v if k == "lit" else val[v] for k, v in tmpl)

    for ext, size in ((True, cfg["connection_size"]), (False, fb_size), (True, 70000), (False, 1000)):
        d = cd.CIPDriver("192.168.1.10/bp/3")
        d._session = 7
        d._cfg["extended forward open"] = ext
        d._cfg["connection_size"] = size
        seen = {}

        def stub(**kw):
            seen.update(kw)
            from pycomm3.tag import Tag
            return Tag("x", None, None, "stub")
        d.generic_message = stub
        d._forward_open()
        if seen["request_data"] != render(fo_tmpl, d, ext):
            raise GenError(f"_forward_open: template differs from the runtime message (ext={ext}, size={size})")
        want_svc = ConnectionManagerServices.large_forward_open if ext else ConnectionManagerServices.forward_open
        if seen["service"] != want_svc:
            raise GenError("_forward_open: service choice")
        rp = PADDED_EPATH.encode(d._cfg["cip_path"])
        if seen["route_path"] != bytes([(len(rp) + len(mr_path)) // 2]) + (b"\x00" if fo_route["pad_length"] else b"") + rp + mr_path:
            raise GenError("_forward_open: route path layout")
        seen.clear()
        d._target_is_connected = True
        d._forward_close()
        if seen["request_data"] != render(fc_tmpl, d, ext):
            raise GenError("_forward_close: template differs from the runtime message")
        if seen["route_path"] != bytes([(len(rp) + len(mr_path)) // 2]) + (b"\x00" if fc_route["pad_length"] else b"") + rp + mr_path:
            raise GenError("_forward_close: route path layout")

    # ---- LogixDriver._initialize_driver requests
    info_kw = gm_call(_func(t_lgx, "get_plc_info", "LogixDriver"), "get_plc_info")
    name_kw = gm_call(_func(t_lgx, "get_plc_name", "LogixDriver"), "get_plc_name")
    if _attr_chain(info_kw.get("class_code")) != "ClassCode.identity_object" or _attr_chain(info_kw.get("service")) != "Services.get_attributes_all":
        raise GenError("get_plc_info: class/service")
    info_inst = _const(info_kw.get("instance"), bytes, "get_plc_info: instance")
    if not (isinstance(info_kw.get("connected"), ast.Constant) and info_kw["connected"].value is False):
        raise GenError("get_plc_info: not unconnected")
    us = info_kw.get("unconnected_send")
    if not (isinstance(us, ast.UnaryOp) and isinstance(us.op, ast.Not) and isinstance(us.operand, ast.Attribute) and us.operand.attr == "_micro800"):
        raise GenError("get_plc_info: unconnected_send is not `not self._micro800`")
    if "route_path" in info_kw or "request_data" in info_kw:
        raise GenError("get_plc_info: unexpected route_path/request_data")
    if _attr_chain(name_kw.get("class_code")) != "ClassCode.program_name" or _attr_chain(name_kw.get("service")) != "Services.get_attributes_all":
        raise GenError("get_plc_name: class/service")
    name_inst = _const(name_kw.get("instance"), int, "get_plc_name: instance")
    if "connected" in name_kw or "request_data" in name_kw:
        raise GenError("get_plc_name: unexpected connected/request_data")
    if not (isinstance(name_kw.get("data_type"), ast.Name) and name_kw["data_type"].id == "STRING"):
        raise GenError("get_plc_name: data_type is not STRING")
    if STRING.len_type.__name__ != "UINT":
        raise GenError("STRING.len_type is not UINT")
    if not (isinstance(info_kw.get("data_type"), ast.Name) and info_kw["data_type"].id == "ModuleIdentityObject"):
        raise GenError("get_plc_info: data_type is not ModuleIdentityObject")
    info_msg = Services.get_attributes_all + request_path(ClassCode.identity_object, info_inst)
    name_msg = Services.get_attributes_all + request_path(ClassCode.program_name, name_inst)

    # ---- request builders: constants
    def cls_bytes(tree, cls, attr, rt):
        v = _class_attr(tree, cls, attr)
        if v is None:
            raise GenError(f"{cls}.{attr}: not assigned in the class body")
        if isinstance(v, ast.Constant) and isinstance(v.value, bytes):
            if v.value != rt:
                raise GenError(f"{cls}.{attr}: AST differs from runtime")
        elif _attr_chain(v) is None:
            raise GenError(f"{cls}.{attr}: unrecognised value")
        if not isinstance(rt, bytes):
            raise GenError(f"{cls}.{attr}: runtime value is not bytes")
        return rt

    timeout = cls_bytes(t_base, "RequestPacket", "_timeout", RequestPacket._timeout)
    cmds = {}
    for cls, c in ((RegisterSessionRequestPacket, "register"), (UnRegisterSessionRequestPacket, "unregister"),
                   (ListIdentityRequestPacket, "list_identity"), (SendRRDataRequestPacket, "rr_data"),
                   (SendUnitDataRequestPacket, "unit_data")):
        cmds[c] = cls_bytes(t_eip, cls.__name__, "_encap_command", cls._encap_command)
        if len(cmds[c]) != 2:
            raise GenError(f"{cls.__name__}._encap_command width")
    nr = _class_attr(t_eip, "UnRegisterSessionRequestPacket", "no_response")
    if nr is None or _const(nr, bool, "UnRegisterSessionRequestPacket.no_response") is not True or RequestPacket.no_response is not False:
        raise GenError("no_response flags")
    for cls in (RegisterSessionRequestPacket, ListIdentityRequestPacket, SendRRDataRequestPacket, SendUnitDataRequestPacket):
        if cls.no_response:
            raise GenError(f"{cls.__name__}.no_response")
    # the literal pieces of _build_header and _build_common_packet_format, by running them
    hdr = RequestPacket._build_header(b"\xAA\xBB", 0x1234, 0x01020304, b"CONTEXT!", 0x0A0B0C0D)
    if hdr != b"\xAA\xBB\x34\x12\x04\x03\x02\x01" + hdr[8:12] + b"CONTEXT!\x0D\x0C\x0B\x0A" or len(hdr) != 24:
        raise GenError("RequestPacket._build_header layout")
    hdr_status = hdr[8:12]
    rr = SendRRDataRequestPacket()
    cpf_rr = rr._build_common_packet_format(b"MSG", addr_data=b"zzzz")
    ud = SendUnitDataRequestPacket(5)
    cpf_ud = ud._build_common_packet_format(b"MSG", addr_data=b"\x01\x02\x03\x04")
    cpf_ud_none = ud._build_common_packet_format(b"MSG", addr_data=None)
    iface, count = cpf_rr[0:4], cpf_rr[6:8]
    no_addr = cpf_ud_none[10:12]
    if cpf_rr != iface + timeout + count + AddressItem.uccm + b"\x00\x00" + DataItem.unconnected + b"\x03\x00MSG":
        raise GenError("SendRRData common packet format layout")
    if cpf_ud != iface + timeout + count + AddressItem.connection + b"\x04\x00\x01\x02\x03\x04" + DataItem.connected + b"\x03\x00MSG":
        raise GenError("SendUnitData common packet format layout")
    if cpf_ud_none != iface + timeout + count + AddressItem.connection + b"\x00\x00" + DataItem.connected + b"\x03\x00MSG":
        raise GenError("SendUnitData common packet format layout (no connection id)")
    reg = RegisterSessionRequestPacket(cfg["protocol version"])
    reg_msg = reg.build_message()
    if reg._build_common_packet_format(reg_msg) != reg_msg or not reg_msg.startswith(cfg["protocol version"]):
        raise GenError("RegisterSession body layout")
    reg_flags = reg_msg[len(cfg["protocol version"]):]
    for cls in (UnRegisterSessionRequestPacket, ListIdentityRequestPacket):
        p = cls()
        if p._build_common_packet_format(p.build_message()) != b"":
            raise GenError(f"{cls.__name__}: body not empty")

    # ---- response offsets
    if raw_slices(t_base, "ResponsePacket") != [(None, 2), (8, 12)]:
        raise GenError("ResponsePacket._parse_reply: raw slices " + repr(raw_slices(t_base, "ResponsePacket")))
    rr_sl = raw_slices(t_eip, "SendRRDataResponsePacket")
    ud_sl = raw_slices(t_eip, "SendUnitDataResponsePacket")
    for sl, w in ((rr_sl, "SendRRData"), (ud_sl, "SendUnitData")):
        if not (len(sl) == 3 and sl[0][1] == sl[0][0] + 1 and sl[1][1] == sl[1][0] + 1 and sl[2][1] is None):
            raise GenError(f"{w}ResponsePacket._parse_reply: raw slices {sl}")
    reg_sl = raw_slices(t_eip, "RegisterSessionResponsePacket")
    li_sl = raw_slices(t_eip, "ListIdentityResponsePacket")
    if not (len(reg_sl) == 1 and None not in reg_sl[0] and reg_sl[0][1] - reg_sl[0][0] == 4):
        raise GenError(f"RegisterSessionResponsePacket._parse_reply: raw slices {reg_sl}")
    if not (len(li_sl) == 1 and li_sl[0][1] is None):
        raise GenError(f"ListIdentityResponsePacket._parse_reply: raw slices {li_sl}")
    rr_ext, ud_ext = ext_status_offsets(t_eip, "SendRRDataResponsePacket"), ext_status_offsets(t_eip, "SendUnitDataResponsePacket")

    def tmpl(t):
        return "[" + "; ".join(("inl " + zb(v)) if k == "lit" else ("inr " + v) for k, v in t) + "]"

    o = []
    o.append("(* GENERATED by harness/gen_lifecycle.py from /repo (cip_driver.py, logix_driver.py, packets/*.py) — do not edit. *)\n")
    o.append("From PV Require Import Base.Bytes.\nOpen Scope Z_scope.\n\n")
    o.append("(* CIPDriver.__init__: self._cfg *)\n")
    o.append(f"Definition CFG_CONTEXT : bytes := {zb(cfg['context'])}.\n")
    o.append(f"Definition CFG_PROTOCOL_VERSION : bytes := {zb(cfg['protocol version'])}.\n")
    o.append(f"Definition CFG_OPTION : Z := {cfg['option']}.\n")
    o.append(f"Definition CFG_CID : bytes := {zb(cfg['cid'])}.\n")
    o.append(f"Definition CFG_CSN : bytes := {zb(cfg['csn'])}.\n")
    o.append(f"Definition CFG_VID : bytes := {zb(cfg['vid'])}.\n")
    o.append(f"Definition CFG_VSN : bytes := {zb(cfg['vsn'])}.\n")
    o.append(f"Definition CFG_EXTENDED_FO : bool := {coq_bool(cfg['extended forward open'])}.\n")
    o.append(f"Definition CFG_CONNECTION_SIZE : Z := {cfg['connection_size']}.\n")
    o.append("(* close() and _abandon_transport() both assign _sock = None, _target_is_connected = False, _session = 0,\n   _connection_opened = False; _send/_receive abandon the transport in their `except Exception` (checked by the generator) *)\n")
    o.append("(* with_forward_open: what the fallback assigns *)\n")
    o.append(f"Definition FALLBACK_EXTENDED_FO : bool := {coq_bool(fb_flag)}.\n")
    o.append(f"Definition FALLBACK_CONNECTION_SIZE : Z := {fb_size}.\n")
    o.append("(* CIPDriver._forward_open: (size & LARGE_MASK) | INIT_NET_PARAMS << LARGE_SHIFT as UDINT / (size & STD_MASK) | INIT_NET_PARAMS as UINT *)\n")
    o.append(f"Definition INIT_NET_PARAMS : Z := {init_np}.\nDefinition LARGE_MASK : Z := {m1}.\nDefinition LARGE_SHIFT : Z := {sh}.\nDefinition STD_MASK : Z := {m2}.\n")
    o.append("Inductive fo_field := FPriority | FTimeoutTicks | FCid | FCsn | FVid | FVsn | FTimeoutMultiplier | FNetParams | FTransportClass.\n")
    o.append(f"Definition forward_open_msg : list (bytes + fo_field) := {tmpl(fo_tmpl)}.\n")
    o.append(f"Definition forward_close_msg : list (bytes + fo_field) := {tmpl(fc_tmpl)}.\n")
    o.append(f"Definition FO_ROUTE_PAD_LENGTH : bool := {coq_bool(fo_route['pad_length'])}.\n")
    o.append(f"Definition FC_ROUTE_PAD_LENGTH : bool := {coq_bool(fc_route['pad_length'])}.\n")
    o.append(f"Definition SVC_FORWARD_OPEN : bytes := {zb(ConnectionManagerServices.forward_open)}.\n")
    o.append(f"Definition SVC_LARGE_FORWARD_OPEN : bytes := {zb(ConnectionManagerServices.large_forward_open)}.\n")
    o.append(f"Definition SVC_FORWARD_CLOSE : bytes := {zb(ConnectionManagerServices.forward_close)}.\n")
    o.append(f"Definition SVC_UNCONNECTED_SEND : bytes := {zb(ConnectionManagerServices.unconnected_send)}.\n")
    o.append("(* packets.util.request_path(ClassCode.connection_manager, ConnectionManagerInstances.open_request): word count + padded EPATH *)\n")
    o.append(f"Definition CM_REQUEST_PATH : bytes := {zb(cm_path)}.\n")
    o.append(f"Definition MSG_ROUTER_PATH_BYTES : bytes := {zb(mr_path)}.\n")
    o.append("(* LogixDriver.get_plc_info / get_plc_name: service + request path *)\n")
    o.append(f"Definition PLC_INFO_MSG : bytes := {zb(info_msg)}.\nDefinition PLC_NAME_MSG : bytes := {zb(name_msg)}.\n")
    o.append("(* request builders (packets/base.py, packets/ethernetip.py) *)\n")
    o.append(f"Definition CMD_REGISTER_SESSION : bytes := {zb(cmds['register'])}.\nDefinition CMD_UNREGISTER_SESSION : bytes := {zb(cmds['unregister'])}.\n")
    o.append(f"Definition CMD_LIST_IDENTITY_B : bytes := {zb(cmds['list_identity'])}.\nDefinition CMD_SEND_RR_DATA : bytes := {zb(cmds['rr_data'])}.\nDefinition CMD_SEND_UNIT_DATA : bytes := {zb(cmds['unit_data'])}.\n")
    o.append(f"Definition HEADER_STATUS : bytes := {zb(hdr_status)}.\nDefinition REGISTER_OPTION_FLAGS : bytes := {zb(reg_flags)}.\n")
    o.append(f"Definition CPF_INTERFACE_HANDLE : bytes := {zb(iface)}.\nDefinition CPF_TIMEOUT : bytes := {zb(timeout)}.\nDefinition CPF_ITEM_COUNT : bytes := {zb(count)}.\n")
    o.append(f"Definition ADDR_ITEM_UCMM : bytes := {zb(AddressItem.uccm)}.\nDefinition ADDR_ITEM_CONNECTION : bytes := {zb(AddressItem.connection)}.\n")
    o.append(f"Definition DATA_ITEM_UNCONNECTED : bytes := {zb(DataItem.unconnected)}.\nDefinition DATA_ITEM_CONNECTED : bytes := {zb(DataItem.connected)}.\n")
    o.append(f"Definition CPF_NO_ADDR_DATA : bytes := {zb(no_addr)}.\n")
    o.append("(* response classes: the offsets of `self.raw[a:b]` *)\n")
    o.append("Definition OFF_STATUS_LO : nat := 8.\nDefinition OFF_STATUS_HI : nat := 12.\n")
    o.append(f"Definition OFF_SESSION_LO : nat := {reg_sl[0][0]}.\nDefinition OFF_SESSION_HI : nat := {reg_sl[0][1]}.\n")
    o.append(f"Definition OFF_LIST_IDENTITY : nat := {li_sl[0][0]}.\n")
    o.append(f"Definition RR_OFF_SERVICE : nat := {rr_sl[0][0]}.\nDefinition RR_OFF_STATUS : nat := {rr_sl[1][0]}.\nDefinition RR_OFF_DATA : nat := {rr_sl[2][0]}.\nDefinition RR_OFF_EXT : nat := {rr_ext}.\n")
    o.append(f"Definition UD_OFF_SERVICE : nat := {ud_sl[0][0]}.\nDefinition UD_OFF_STATUS : nat := {ud_sl[1][0]}.\nDefinition UD_OFF_DATA : nat := {ud_sl[2][0]}.\nDefinition UD_OFF_EXT : nat := {ud_ext}.\n")
    return "".join(o)


GENERATORS = {"LifecycleGen.v": gen_lifecycle}
