"""gen_identity.py — regenerated facts for the C16 vertical (device identities): coq/Gen/IdentityFacts.v.

Fail-closed like gen_tables.py: every fact is read from the source with `ast` (declared shape,
declaration order) and cross-checked against the imported runtime object; anything not in the
recognised shape raises GenError(<construct>).

Facts: the declared member lists of the identity structures of pycomm3/custom_types.py
    class Revision(Struct(...)), class ModuleIdentityObject(Struct(...)), class ListIdentityObject(Struct(...))
as rows (type name, member name or "" when unnamed, byte count for n_bytes(..) members else 0), in
declaration order.  Model/Identity.v decodes these members in this order (hand-modelled control
flow); Proofs/IdentityLayout.v states that the regenerated declarations are the ones the model
follows, so a changed declaration breaks a named lemma of the C16 cone.
(VENDORS / PRODUCT_TYPES / KEYSWITCH / STATES and the type rows come from gen_tables.py.)
"""
import ast

from gen_tables import GenError, HEADER, _import, _parse, zs

STRUCTS = ("Revision", "ModuleIdentityObject", "ListIdentityObject")


def _member_row(arg, where):
    """one argument of Struct(...): T | T("name") | n_bytes(k, "name")"""
    if isinstance(arg, ast.Name):
        return (arg.id, "", 0)
    if isinstance(arg, ast.Call) and isinstance(arg.func, ast.Name) and not arg.keywords:
        vals = []
        for a in arg.args:
            if not isinstance(a, ast.Constant):
                raise GenError(f"{where}: non-literal argument of {arg.func.id}(..)")
            vals.append(a.value)
        if arg.func.id == "n_bytes":
            if len(vals) != 2 or not isinstance(vals[0], int) or isinstance(vals[0], bool) or not isinstance(vals[1], str) or vals[0] < 0:
                raise GenError(f"{where}: n_bytes(..) not of the form n_bytes(<count>, <name>)")
            return ("BYTES", vals[1], vals[0])
        if len(vals) == 1 and isinstance(vals[0], str):
            return (arg.func.id, vals[0], 0)
    raise GenError(f"{where}: member not of the form T | T(\"name\") | n_bytes(k, \"name\")")


def _runtime_row(m, where):
    """the same row from the runtime member (a DataType class or instance)"""
    cls = m if isinstance(m, type) else type(m)
    name = m.name if not isinstance(m, type) else getattr(m, "name", None)
    name = "" if name is None else name
    if not isinstance(name, str):
        raise GenError(f"{where}: runtime member name is not a string")
    size = 0
    if cls.__name__ == "BYTES":
        size = getattr(cls, "size", None)
        if not isinstance(size, int):
            raise GenError(f"{where}: BYTES member without an integer size")
    return (cls.__name__, name, size)


def struct_members():
    tree = _parse("pycomm3/custom_types.py")
    mod = _import("pycomm3.custom_types")
    found = {}
    for st in tree.body:
        if isinstance(st, ast.ClassDef) and st.name in STRUCTS:
            if st.name in found:
                raise GenError(f"{st.name}: declared twice")
            if len(st.bases) != 1 or st.keywords:
                raise GenError(f"{st.name}: not exactly one base")
            b = st.bases[0]
            if not (isinstance(b, ast.Call) and isinstance(b.func, ast.Name) and b.func.id == "Struct" and not b.keywords):
                raise GenError(f"{st.name}: base is not Struct(<members>)")
            if any(isinstance(a, ast.Starred) for a in b.args):
                raise GenError(f"{st.name}: starred member list")
            found[st.name] = [_member_row(a, f"{st.name} member {k}") for k, a in enumerate(b.args)]
    for name in STRUCTS:
        if name not in found:
            raise GenError(f"{name}: class statement not found at module level")
        rt = getattr(mod, name, None)
        members = getattr(rt, "members", None)
        if not isinstance(members, tuple):
            raise GenError(f"{name}: runtime class has no member tuple")
        rows = [_runtime_row(m, f"{name} member {k}") for k, m in enumerate(members)]
        if rows != found[name]:
            raise GenError(f"{name}: AST view of the members differs from the runtime members")
    # a later rebinding of one of the names would make the class statements meaningless
    for st in tree.body:
        targets = []
        if isinstance(st, ast.Assign):
            targets = st.targets
        elif isinstance(st, (ast.AugAssign, ast.AnnAssign)):
            targets = [st.target]
        for t in targets:
            if isinstance(t, ast.Name) and t.id in STRUCTS:
                raise GenError(f"{t.id}: rebound")
            if isinstance(t, ast.Attribute) and isinstance(t.value, ast.Name) and t.value.id in STRUCTS and t.attr == "members":
                raise GenError(f"{t.value.id}.members: reassigned")
    return found


def gen_identity_facts():
    found = struct_members()
    out = [HEADER.replace("gen_tables.py", "gen_identity.py"),
           "(* (type name, member name or [] when unnamed, byte count of an n_bytes member else 0), declaration order *)\n"]
    for name, coqname in (("Revision", "revision_members"), ("ModuleIdentityObject", "module_identity_members"),
                          ("ListIdentityObject", "list_identity_members")):
        rows = ";\n".join(f"  ({zs(t)}, {zs(n)}, {k})" for t, n, k in found[name])
        out.append(f"Definition {coqname} : list (list Z * list Z * Z) := [\n{rows}].\n\n")
    return "".join(out)


GENERATORS = {"IdentityFacts.v": gen_identity_facts}
