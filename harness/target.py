"""target.py — Python side of the reference target (TARGET.md): the co-process link [TargetProc],
the [FakeSocket] that makes it the live peer of the REAL pycomm3 drivers, and [open_driver].

Nothing in /repo is modified: the driver's socket is replaced from outside (the instance's
`_sock` is set before every `open()`, or `pycomm3.cip_driver.Socket` is patched for the duration
of a `with patched_socket(...)` block for code that builds its own driver, e.g. the classmethod
`CIPDriver.list_identity`).

Event dictionaries returned by `TargetProc.log()` (one per `tevent` of Spec/TargetIface.v):
  {"ev": "frame", "cmd", "session", "len"}            {"ev": "badframe", "why"}
  {"ev": "request", "transport": ("conn", serial) | ("ucmm",) | ("ucsend", route_bytes),
                    "seq": int | None, "service", "path": bytes, "data": bytes}
  {"ev": "reply", "status", "len"}                     {"ev": "oversize", "granted", "got"}
  {"ev": "replytoolarge", "granted", "needed"}         {"ev": "malformed", "service", "why"}
  {"ev": "app", "tag", "args": [ints], "data": bytes}
The meaning of the `why` codes and `app` tags is documented at the top of coq/Spec/EncapParser.v,
coq/Spec/MRParser.v and coq/Spec/TargetCore.v.
"""
import contextlib
import os
import socket
import sys
from unittest import mock

sys.path.insert(0, os.path.dirname(os.path.abspath(__file__)))
import framework as fw  # noqa: E402

BAD_EVENTS = ("badframe", "malformed", "oversize", "replytoolarge")


class TargetError(RuntimeError):
    pass


def _tok(v):
    if isinstance(v, bool):
        return "1" if v else "0"
    if isinstance(v, int):
        return str(v)
    if isinstance(v, (bytes, bytearray)):
        return fw.t_bytes(v)
    if isinstance(v, str):
        return fw.t_bytes(v.encode("latin-1"))
    if v is None:
        return "none"
    raise TypeError(f"cannot send {v!r} to the target")


def _groups(toks):
    """split a token list at the `|` separators -> list of token lists (the part before the first `|` first)."""
    out, cur = [], []
    for t in toks:
        if isinstance(t, fw.Sym) and t == "|":
            out.append(cur)
            cur = []
        else:
            cur.append(t)
    out.append(cur)
    return out


def parse_event(g):
    k = str(g[0])
    if k == "frame":
        return {"ev": k, "cmd": g[1], "session": g[2], "len": g[3]}
    if k == "badframe":
        return {"ev": k, "why": g[1]}
    if k == "request":
        t = str(g[1])
        if t == "conn":
            tr, r = ("conn", g[2]), g[3:]
        elif t == "ucsend":
            tr, r = ("ucsend", g[2]), g[3:]
        else:
            tr, r = ("ucmm",), g[2:]
        return {"ev": k, "transport": tr, "seq": None if r[0] < 0 else r[0], "service": r[1], "path": r[2], "data": r[3]}
    if k == "reply":
        return {"ev": k, "status": g[1], "len": g[2]}
    if k == "oversize":
        return {"ev": k, "granted": g[1], "got": g[2]}
    if k == "replytoolarge":
        return {"ev": k, "granted": g[1], "needed": g[2]}
    if k == "malformed":
        return {"ev": k, "service": g[1], "why": g[2]}
    if k == "app":
        return {"ev": k, "tag": g[1], "data": g[2], "args": list(g[3:])}
    return {"ev": k, "raw": g[1:]}


CONN_FIELDS = ("serial", "vendor", "originator_serial", "ot_id", "to_id", "ot_size", "to_size", "large", "session", "route")


class TargetProc:
    """a live reference-target co-process: bin/modelrun_targetcore (core + basic_handler) or
    bin/modelrun_target (core + Logix handler, a superset of the protocol)."""

    def __init__(self, model="targetcore"):
        self.model = model
        self.mp = fw.ModelProc(model)
        self.frames = 0

    # ---- raw protocol
    def ask(self, line):
        ans = fw.parse_line(self.mp.ask_raw(line))
        if not ans or str(ans[0]) == "ERR":
            raise TargetError(f"target answered {ans!r} to {line[:120]!r}")
        return ans

    def lines(self, lines):
        """raw protocol lines (scenario loading); every one must be answered `ok ...`."""
        out = []
        for ln in lines:
            out.append(self.ask(ln))
        return out

    def reset(self):
        self.ask("reset")

    def cfg(self, **kw):
        for k, v in kw.items():
            self.ask(f"cfg {k} {_tok(v)}")

    def inject(self, nth, service, status, *ext):
        """the nth next (0 = the next) message-router request with this service answers status/ext."""
        self.ask("inject " + " ".join(str(int(x)) for x in (nth, service, status) + tuple(ext)))

    def frame(self, data):
        """one encapsulation frame in -> reply frame (bytes) or None."""
        self.frames += 1
        ans = self.ask("frame " + fw.t_bytes(data))
        return ans[1] if str(ans[0]) == "reply" else None

    def closed(self):
        self.ask("closed")

    # ---- observation
    def dump(self, what, start=None):
        if what == "log":
            return self.log(start or 0)
        if what == "sessions":
            return self.sessions()
        if what == "conns":
            return self.conns()
        if what == "clock":
            return self.clock()
        return self.ask(f"dump {what}")[1:]

    def log(self, start=0):
        """events number `start`.. (oldest first). `log_size()` gives the next event number."""
        ans = self.ask(f"dump log {int(start)}")
        return [parse_event(g) for g in _groups(ans[2:])[1:]]

    def log_size(self):
        return self.ask("dump log 1000000000")[1]

    def sessions(self):
        return list(self.ask("dump sessions")[1:])

    def conns(self):
        return [dict(zip(CONN_FIELDS, g[1:])) for g in _groups(self.ask("dump conns")[1:])[1:]]

    def clock(self):
        return self.ask("dump clock")[1]

    def injections(self):
        return [{"left": g[1], "service": g[2], "status": g[3], "ext": list(g[4:])}
                for g in _groups(self.ask("dump inject")[1:])[1:]]

    # ---- the strict parsers alone (oracles of C11 / C14)
    def parseframe(self, data):
        """-> {"cmd", "session", "context", "body": ("nop", data) | ("empty",) | ("register",) |
               ("cpf", timeout, None | connection id, data item type, data)}  or  {"rej": code}"""
        a = self.ask("parseframe " + fw.t_bytes(data))
        if str(a[0]) == "rej":
            return {"rej": a[1]}
        kind = str(a[4])
        if kind == "cpf":
            if str(a[6]) == "null":
                body = ("cpf", a[5], None, a[7], a[8])
            else:
                body = ("cpf", a[5], a[7], a[8], a[9])
        elif kind == "nop":
            body = ("nop", a[5])
        else:
            body = (kind,)
        return {"cmd": a[1], "session": a[2], "context": a[3], "body": body}

    def parsemr(self, data):
        """-> {"service", "path", "data", "cia": (class, instance, attribute | None) | None} or {"rej": code}"""
        a = self.ask("parsemr " + fw.t_bytes(data))
        if str(a[0]) == "rej":
            return {"rej": a[1]}
        cia = (a[5], a[6], None if a[7] < 0 else a[7]) if str(a[4]) == "cia" else None
        return {"service": a[1], "path": a[2], "data": a[3], "cia": cia}

    def parseucsend(self, data):
        a = self.ask("parseucsend " + fw.t_bytes(data))
        if str(a[0]) == "rej":
            return {"rej": a[1]}
        return {"priority": a[1], "ticks": a[2], "embedded": a[3], "route": a[4]}

    def close(self):
        self.mp.close()


class FakeSocket:
    """stands in for `pycomm3.socket_.Socket` (connect / send / receive / close), bound to a TargetProc.

    Every frame the driver writes goes to the target; the target's answer (if any) is queued and
    handed out by the next `receive()`.  Like the real `Socket`, OS-level errors (socket.error and
    subclasses such as socket.timeout) surface as `CommError`; a `receive()` with nothing queued
    behaves as a socket timeout.  `faults`, all optional, indices count from 0 over the lifetime of
    this object (they keep counting across close()/re-open of the same driver):
        {"connect": exc | {k: exc},       # k-th connect() raises
         "send":    {k: exc},             # k-th send() raises BEFORE the frame reaches the target
         "send_after": {k: exc},          # k-th send() raises AFTER the target processed the frame
         "recv":    {k: exc},             # k-th receive() raises (a queued reply stays queued)
         "drop_reply": {k, ...},          # the reply to the k-th sent frame is lost
         "close":   exc}                  # close() raises (the target still sees the TCP close)
    `exc` is an exception instance or class.  Records: `.sent` (frames written, in order),
    `.received` (frames handed to the driver), `.replies` (parallel to `.sent`: the target's answer
    or None), `.trace` (chronological ("connect", host, port) / ("send", bytes) / ("recv", bytes) /
    ("close",) / ("fault", where, k))."""

    def __init__(self, tp, faults=None, timeout=5.0, notify_close=True):
        self.tp = tp
        self.faults = faults or {}
        self.timeout = timeout
        self.notify_close = notify_close
        self.sent, self.received, self.replies, self.trace = [], [], [], []
        self.queue = []
        self.n_connect = self.n_send = self.n_recv = self.n_close = 0
        self.is_open = False

    # -- helpers
    @staticmethod
    def _exc(e):
        return e() if isinstance(e, type) else e

    def _raise(self, where, k, e, msg):
        from pycomm3.exceptions import CommError
        self.trace.append(("fault", where, k))
        e = self._exc(e)
        if isinstance(e, OSError):          # what pycomm3.socket_.Socket does with socket.error
            raise CommError(msg) from e
        raise e

    def _fault(self, key, k):
        f = self.faults.get(key)
        if f is None:
            return None
        if isinstance(f, dict):
            return f.get(k)
        return f if key in ("connect", "close") else None

    # -- the Socket interface
    def connect(self, host, port):
        k = self.n_connect
        self.n_connect += 1
        self.trace.append(("connect", host, port))
        e = self._fault("connect", k)
        if e is not None:
            self._raise("connect", k, e, f"Failed to open socket to {host}:{port}")
        self.is_open = True
        self.queue = []

    def send(self, msg, timeout=0):
        k = self.n_send
        self.n_send += 1
        msg = bytes(msg)
        e = self._fault("send", k)
        if e is not None:
            self._raise("send", k, e, "socket connection broken.")
        self.sent.append(msg)
        self.trace.append(("send", msg))
        reply = self.tp.frame(msg)
        self.replies.append(reply)
        if reply is not None and k not in self.faults.get("drop_reply", ()):
            self.queue.append(reply)
        e = self._fault("send_after", k)
        if e is not None:
            self._raise("send_after", k, e, "socket connection broken.")
        return len(msg)

    def receive(self, timeout=0):
        k = self.n_recv
        self.n_recv += 1
        e = self._fault("recv", k)
        if e is not None:
            self._raise("recv", k, e, "socket connection broken")
        if not self.queue:
            self._raise("recv-empty", k, socket.timeout("timed out"), "socket connection broken")
        data = self.queue.pop(0)
        self.received.append(data)
        self.trace.append(("recv", data))
        return data

    def close(self):
        self.n_close += 1
        self.trace.append(("close",))
        was_open = self.is_open
        self.is_open = False
        self.queue = []
        if was_open and self.notify_close:
            self.tp.closed()
        e = self._fault("close", 0)
        if e is not None:
            self._raise("close", 0, e, "socket connection broken")


def attach(drv, tp, faults=None, **fs_kwargs):
    """give an (unopened) driver instance a FakeSocket bound to `tp`, for this and every later open()
    of this instance.  -> the FakeSocket (also `drv.fakesock`)."""
    fs = FakeSocket(tp, faults, **fs_kwargs)
    cls_open = drv.open            # the bound class method

    def open_():
        if drv._sock is None:
            drv._sock = fs
        return cls_open()

    drv.open = open_               # instance attribute: `with drv:` and LogixDriver.open go through it
    drv.fakesock = fs
    return fs


def open_driver(cls, path, tp, faults=None, open=True, **kwargs):
    """a real pycomm3 driver (CIPDriver / LogixDriver / SLCDriver) whose socket is a FakeSocket bound
    to `tp`.  `open=True` (default) also calls `.open()` (its exceptions propagate; with
    `open=False` the caller opens).  `drv.fakesock` is the FakeSocket."""
    drv = cls(path, **kwargs)
    attach(drv, tp, faults)
    if open:
        drv.open()
    return drv


@contextlib.contextmanager
def patched_socket(tp, faults=None, **fs_kwargs):
    """patch `pycomm3.cip_driver.Socket` so that every driver built inside the block talks to `tp`
    (for code that creates its own driver: `CIPDriver.list_identity(path)`).  Yields the FakeSocket."""
    import pycomm3.cip_driver as cd
    fs = FakeSocket(tp, faults, **fs_kwargs)
    with mock.patch.object(cd, "Socket", lambda *a, **k: fs):
        yield fs


def bad_events(events):
    """the events a well-behaved client must not cause."""
    return [e for e in events if e["ev"] in BAD_EVENTS]
