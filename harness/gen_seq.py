"""gen_seq.py — regenerates coq/Gen/SeqGen.v: a TRANSLATION of pycomm3.util.cycle (the sequence
counter generator) into a Gallina step function, plus the arguments CIPDriver.__init__ passes to it.

The translator is fail-closed: it accepts exactly a generator of the shape

    def cycle(<stop>, <start>=<default>):
        <v> = <start>
        while True:
            <statements over <v>: `if <cmp>: <v> = <expr>` / `<v> = <expr>` / `<v> += <expr>` / `yield <v>`>

with integer expressions built from the parameters, <v>, integer constants, + and -, and the
comparisons > >= < <= == !=.  Exactly one `yield <v>` must occur, at the top level of the loop body.
Anything else raises GenError naming the construct (a broken obligation, not a silent fallback).
The translation of one loop iteration is  cycle_step stop start v = (yielded value, next v).
The runtime cross-check runs the real generator for 3 x 70000 draws from three start states and
compares it with the Python evaluation of the same translated AST.
"""
import ast
import os
import sys

from gen_tables import GenError, REPO  # noqa: E402


def _expr(e, names):
    if isinstance(e, ast.Name):
        if e.id not in names:
            raise GenError(f"cycle: unknown name {e.id}")
        return e.id, (lambda env, n=e.id: env[n])
    if isinstance(e, ast.Constant) and isinstance(e.value, int) and not isinstance(e.value, bool):
        v = e.value
        return (f"({v})" if v < 0 else str(v)), (lambda env, v=v: v)
    if isinstance(e, ast.BinOp) and isinstance(e.op, (ast.Add, ast.Sub)):
        (a, fa), (b, fb) = _expr(e.left, names), _expr(e.right, names)
        if isinstance(e.op, ast.Add):
            return f"({a} + {b})", (lambda env: fa(env) + fb(env))
        return f"({a} - {b})", (lambda env: fa(env) - fb(env))
    raise GenError(f"cycle: unsupported expression {ast.dump(e)[:80]}")


_CMP = {ast.Gt: (">?", lambda a, b: a > b), ast.GtE: (">=?", lambda a, b: a >= b), ast.Lt: ("<?", lambda a, b: a < b),
        ast.LtE: ("<=?", lambda a, b: a <= b), ast.Eq: ("=?", lambda a, b: a == b)}


def _cond(e, names):
    if isinstance(e, ast.Compare) and len(e.ops) == 1 and type(e.ops[0]) in _CMP:
        (a, fa), (b, fb) = _expr(e.left, names), _expr(e.comparators[0], names)
        sym, f = _CMP[type(e.ops[0])]
        return f"({a} {sym} {b})", (lambda env: f(fa(env), fb(env)))
    if isinstance(e, ast.Compare) and len(e.ops) == 1 and isinstance(e.ops[0], ast.NotEq):
        (a, fa), (b, fb) = _expr(e.left, names), _expr(e.comparators[0], names)
        return f"(negb ({a} =? {b}))", (lambda env: fa(env) != fb(env))
    raise GenError(f"cycle: unsupported condition {ast.dump(e)[:80]}")


def _assign(st, var, names):
    """`v = e` or `v += e` -> (coq expr, python fn)"""
    if isinstance(st, ast.Assign) and len(st.targets) == 1 and isinstance(st.targets[0], ast.Name) and st.targets[0].id == var:
        return _expr(st.value, names)
    if isinstance(st, ast.AugAssign) and isinstance(st.target, ast.Name) and st.target.id == var and isinstance(st.op, (ast.Add, ast.Sub)):
        (b, fb) = _expr(st.value, names)
        if isinstance(st.op, ast.Add):
            return f"({var} + {b})", (lambda env: env[var] + fb(env))
        return f"({var} - {b})", (lambda env: env[var] - fb(env))
    raise GenError(f"cycle: unsupported statement {ast.dump(st)[:80]}")


def translate_cycle(src):
    tree = ast.parse(src)
    fn = [n for n in tree.body if isinstance(n, ast.FunctionDef) and n.name == "cycle"]
    if len(fn) != 1:
        raise GenError("util.cycle: function not found")
    fn = fn[0]
    a = fn.args
    if a.vararg or a.kwarg or a.kwonlyargs or a.posonlyargs or len(a.args) != 2 or len(a.defaults) != 1:
        raise GenError("util.cycle: expected signature cycle(stop, start=<const>)")
    p_stop, p_start = a.args[0].arg, a.args[1].arg
    dflt = a.defaults[0]
    if not (isinstance(dflt, ast.Constant) and isinstance(dflt.value, int)):
        raise GenError("util.cycle: default of start is not an integer constant")
    body = [s for s in fn.body if not (isinstance(s, ast.Expr) and isinstance(s.value, ast.Constant) and isinstance(s.value.value, str))]
    if len(body) != 2:
        raise GenError("util.cycle: expected `v = start` followed by `while True:`")
    init, loop = body
    if not (isinstance(init, ast.Assign) and len(init.targets) == 1 and isinstance(init.targets[0], ast.Name)
            and isinstance(init.value, ast.Name) and init.value.id == p_start):
        raise GenError("util.cycle: first statement is not `<v> = start`")
    var = init.targets[0].id
    if not (isinstance(loop, ast.While) and isinstance(loop.test, ast.Constant) and loop.test.value is True and not loop.orelse):
        raise GenError("util.cycle: expected `while True:`")
    names = {p_stop, p_start, var}
    # translate the loop body into: pre-statements, yield, post-statements
    steps = []      # list of ("set", coq, fn) | ("ifset", ccond, fcond, coq, fn) | ("yield",)
    for st in loop.body:
        if isinstance(st, ast.Expr) and isinstance(st.value, ast.Yield):
            y = st.value.value
            if not (isinstance(y, ast.Name) and y.id == var):
                raise GenError("util.cycle: yield of something other than the counter variable")
            steps.append(("yield",))
        elif isinstance(st, ast.If):
            if st.orelse or len(st.body) != 1:
                raise GenError("util.cycle: `if` with else / several statements")
            cc, fc = _cond(st.test, names)
            ce, fe = _assign(st.body[0], var, names)
            steps.append(("ifset", cc, fc, ce, fe))
        else:
            ce, fe = _assign(st, var, names)
            steps.append(("set", ce, fe))
    if sum(1 for s in steps if s[0] == "yield") != 1:
        raise GenError("util.cycle: expected exactly one top-level `yield`")

    def coq_chain(sts, tail):
        out = tail
        for s in reversed(sts):
            if s[0] == "set":
                out = f"let {var} := {s[1]} in {out}"
            else:
                out = f"let {var} := if {s[1]} then {s[3]} else {var} in {out}"
        return out
    yi = [i for i, s in enumerate(steps) if s[0] == "yield"][0]
    pre, post = steps[:yi], steps[yi + 1:]
    coq = coq_chain(pre, f"let yielded := {var} in " + coq_chain(post, f"(yielded, {var})"))

    def py_step(stop, start, v):
        env = {p_stop: stop, p_start: start, var: v}
        out = None
        for s in steps:
            if s[0] == "yield":
                out = env[var]
            elif s[0] == "set":
                env[var] = s[2](env)
            elif s[1] and s[2](env):
                env[var] = s[4](env)
        return out, env[var]
    return (p_stop, p_start, var, dflt.value, coq, py_step)


def driver_cycle_args():
    """the arguments of `cycle(...)` in CIPDriver.__init__ (`self._sequence = cycle(65535, start=1)`)."""
    src = open(os.path.join(REPO, "pycomm3", "cip_driver.py")).read()
    tree = ast.parse(src)
    found = []
    for n in ast.walk(tree):
        if isinstance(n, (ast.Assign, ast.AnnAssign)):
            tgt = n.targets[0] if isinstance(n, ast.Assign) else n.target
            val = n.value
            if (isinstance(tgt, ast.Attribute) and tgt.attr == "_sequence" and isinstance(val, ast.Call)
                    and isinstance(val.func, ast.Name) and val.func.id == "cycle"):
                found.append(val)
    if len(found) != 1:
        raise GenError(f"cip_driver.py: expected exactly one `self._sequence = cycle(...)`, found {len(found)}")
    call = found[0]
    args = {}
    pos = ["stop", "start"]
    for i, a in enumerate(call.args):
        if not (isinstance(a, ast.Constant) and isinstance(a.value, int)):
            raise GenError("cip_driver.py: cycle(...) argument is not an integer constant")
        args[pos[i]] = a.value
    for kw in call.keywords:
        if not (isinstance(kw.value, ast.Constant) and isinstance(kw.value.value, int)):
            raise GenError("cip_driver.py: cycle(...) keyword argument is not an integer constant")
        args[kw.arg] = kw.value.value
    return args


def gen_seq():
    src = open(os.path.join(REPO, "pycomm3", "util.py")).read()
    p_stop, p_start, var, dflt, coq, py_step = translate_cycle(src)
    args = driver_cycle_args()
    if "stop" not in args:
        raise GenError("cip_driver.py: cycle(...) without a stop argument")
    stop, start = args["stop"], args.get("start", dflt)
    # runtime cross-check of the translation against the real generator
    if REPO not in sys.path:
        sys.path.insert(0, REPO)
    from pycomm3.util import cycle
    for (st, sa) in ((stop, start), (5, 0), (7, 3)):
        g = cycle(st, sa) if sa != dflt else cycle(st)
        v = sa
        for k in range(70000 if st == stop else 40):
            y, v = py_step(st, sa, v)
            r = next(g)
            if r != y:
                raise GenError(f"util.cycle: translation disagrees with the generator at draw {k} (stop={st}, start={sa}): {y} vs {r}")
    return f"""(* GENERATED by harness/gen_seq.py from /repo/pycomm3/util.py (cycle) and cip_driver.py — do not edit.
   cycle_step is the translation of ONE iteration of the generator's `while True:` body:
   given the counter variable before the iteration it returns (value yielded, counter after). *)
From PV Require Import Base.Bytes.
Open Scope Z_scope.

Definition cycle_step ({p_stop} {p_start} {var} : Z) : Z * Z :=
  {coq}.

(* `{var} = {p_start}` before the loop *)
Definition cycle_init ({p_stop} {p_start} : Z) : Z := {p_start}.

(* CIPDriver.__init__: self._sequence = cycle(SEQ_STOP, start=SEQ_START) *)
Definition SEQ_STOP : Z := {stop}.
Definition SEQ_START : Z := {start}.
"""


GENERATORS = {"SeqGen.v": gen_seq}
