"""C01 — tag reads return exactly what the controller holds.

Tie (correspondence): a scenario = project lines + memory image + target policies (harness/scenarios.py)
is loaded into TWO co-processes: bin/modelrun_target, the live peer of the REAL `LogixDriver` through
a fake socket, and bin/modelrun_c01 (the same target + the client model of Model/LogixRead.v).  For
every call `read(*requests)` the connected messages the real driver wrote (`drv.fakesock.sent`, the
bytes after the sequence count) are compared byte for byte with the messages the model client sent,
and every returned Tag (name, value, type string, has-an-error) with the model's Tag.  Components
are compared separately on far more inputs: `_parse_tag_request` (valid and malformed request
strings) and `parse_read_reply` (true, truncated, extended and corrupted reply data).

Oracle on the implementation (Spec side only): for every request that exists in the project
(`refread` of Spec/Expect.v has a value) the Tag returned by the real driver must be truthy, its
value equal to the reference value (ints / bools / strings exactly, REAL / LREAL by IEEE bits,
structures as dicts of exactly the visible members, `{n}` as lists) and its type string the
documented one; a call made only of such requests must leave no badframe / malformed / oversize /
replytoolarge event in the target's log.  Swept: any number of tags per call, both connection sizes
(Large Forward Open accepted / refused), fragment-length policies (1, 2, 7, conn/3, conn-k, random),
data sizes around the connection size, symbol-instance and symbolic addressing (firmware < 21 / >= 21),
Micro800 (no multi-service)."""
import os
import random
import struct
import sys
import time

import framework as fw

sys.path.insert(0, os.path.dirname(os.path.dirname(os.path.abspath(__file__))))
import target as T          # noqa: E402
import scenarios as S       # noqa: E402
import refview as RV        # noqa: E402

EXTRA_MODELS = ["Target"]

ASSUMPTIONS = [
    "the reference target (Spec/TargetCore.v + Spec/TargetLogix.v) and Spec/Expect.v are the specification of the controller",
    "request strings spell tag and member names as the controller does: README.rst documents that tag names for read and write are case-sensitive (the reference, like Logix, is case-insensitive; a case variant is not demanded)",
    "LEN/DATA strings have LEN at offset 0 and DATA at offset 4 (as Logix does)",
    "the encapsulation around a connected message (header, CPF, sequence count) is C11 / C17; here the message after the sequence count is compared",
    "error texts of failed Tags are C13; here a Tag carries whether it has an error",
    "REAL / LREAL values are compared by their IEEE bit pattern; any NaN equals any NaN",
]

CORPUS = os.path.join(fw.VERIF, "corpus", "C01")
EXN_CODE = {"DataError": 1, "BufferEmptyError": 2, "CommError": 3, "RequestError": 4, "ResponseError": 5,
            "TypeError": 10, "ValueError": 11, "KeyError": 12, "IndexError": 13, "error": 14, "OverflowError": 15,
            "AttributeError": 16, "StopIteration": 17, "UnicodeEncodeError": 18, "UnicodeDecodeError": 18,
            "ZeroDivisionError": 19}
MODEL_FUEL = 30000
FRAME_BUDGET = 25000


class Budget(Exception):
    pass


# ------------------------------------------------------------------ the two peers
class Pair:
    """one scenario loaded into the real driver's target and into the model co-process"""

    def __init__(self, sc):
        from pycomm3 import LogixDriver
        self.sc = sc
        self.tp = T.TargetProc("target")
        self.mp = T.TargetProc("c01")
        self.drv = None
        try:
            for p in (self.tp, self.mp):
                p.reset()
                p.lines(sc.cfg_lines())
                p.lines(sc.lines())
            wf = self.tp.ask("wf")
            if wf[1:3] != [1, 1]:
                raise RuntimeError(f"generated scenario is not well-formed: {wf}")
            self.drv = T.open_driver(LogixDriver, "10.0.0.1", self.tp)
            fs = self.drv.fakesock
            real_send = fs.send
            self.frames = 0

            def counted(msg, timeout=0):
                self.frames += 1
                if self.frames > FRAME_BUDGET:
                    raise Budget("frame budget exhausted (the call does not terminate?)")
                return real_send(msg, timeout)
            fs.send = counted
        except Exception:
            self.close()
            raise

    @property
    def conn(self):
        return self.drv.connection_size

    def close(self):
        try:
            if self.drv is not None:
                self.drv.close()
        except Exception:      # noqa: BLE001
            pass
        for p in (self.tp, self.mp):
            try:
                p.close()
            except Exception:  # noqa: BLE001
                pass

    # ---- real side
    def real_read(self, reqs):
        """-> (messages after the sequence count, list of Tags | None, exception class name | None)"""
        fs = self.drv.fakesock
        n0 = len(fs.sent)
        self.frames = 0
        exc = None
        res = None
        try:
            res = self.drv.read(*reqs)
            if not isinstance(res, list):
                res = [res]
        except Budget:
            raise
        except Exception as e:     # noqa: BLE001
            exc = type(e).__name__
        msgs = [bytes(f[46:]) for f in fs.sent[n0:]]
        return msgs, res, exc

    # ---- model side
    def model_read(self, reqs, conn=None, micro=None, ids=None):
        conn = self.conn if conn is None else conn
        micro = self.drv._micro800 if micro is None else micro
        ids = self.drv._cfg["use_instance_ids"] if ids is None else ids
        line = f"runread {MODEL_FUEL} {conn} {int(micro)} {int(ids)} " + " ".join(S.x(r) for r in reqs)
        return parse_model(fw.parse_line(self.mp.mp.ask_raw(line)))


def _is_none(t):
    return isinstance(t, fw.Sym) and str(t) == "none"


def parse_model(ans):
    """-> (kind, messages, tags | None, exception code | None); tag = (name, tagged value | None, type | None, error?)"""
    kind = str(ans[0])
    if kind == "raise":
        k = ans[2]
        return kind, [bytes(b) for b in ans[3:3 + k]], None, ans[1]
    if kind == "nofuel":
        k = ans[1]
        return kind, [bytes(b) for b in ans[2:2 + k]], None, None
    if kind != "ok":
        raise RuntimeError(f"model answered {ans[:4]!r}")
    k = ans[1]
    msgs = [bytes(b) for b in ans[2:2 + k]]
    tags = []
    for g in T._groups(ans[2 + k:])[1:]:
        name = RV._text(g[1])
        ty = None if _is_none(g[3]) else RV._text(g[3])
        val = None if _is_none(g[4]) else RV.parse_value(g, 4)[0]
        tags.append((name, val, ty, bool(g[2])))
    return kind, msgs, tags, None


def untag(v):
    return None if v is None else RV.to_python(v)


def tag_agrees(real, model):
    name, val, ty, err = model
    if real.tag != name or real.type != ty or (real.error is not None) != err:
        return False
    if val is None or real.value is None:
        return val is None and real.value is None
    return RV.same_value(val, real.value, ordered=True)


# ------------------------------------------------------------------ classification of requests (histograms, cls strings)
def shape_of(req, exp):
    s = []
    if req.startswith("Program:"):
        s.append("prog")
    body = req.split("{")[0]
    parts = body.split(".")
    if parts[0].startswith("Program:"):
        parts = parts[1:]
    if len(parts) > 1 and parts[-1].isdigit():
        s.append("intbit")
        parts = parts[:-1]
    if len(parts) > 1:
        s.append("member%d" % min(len(parts) - 1, 3))
    if "[" in body:
        s.append("index%d" % (body[body.index("["):body.index("]")].count(",") + 1) if "]" in body else "index?")
    if "{" in req:
        s.append("count")
    if exp is None:
        s.append("noref")
    else:
        v = exp["value"]
        et = exp["elem_type"]
        first = v[1][0] if (v[0] == "L" and v[1]) else v
        if "intbit" in s:
            pass
        elif et == "BOOL":
            s.append("bools" if v[0] == "L" else "bool")
        elif first[0] == "S":
            s.append("struct")
        elif first[0] == "s":
            s.append("string")
        elif et in ("REAL", "LREAL"):
            s.append("float")
        else:
            s.append("int")
    return "+".join(s)


def plan_kind(msgs):
    k = set()
    for m in msgs:
        if m[:1] == b"\x0a":
            k.add("multi")
        elif m[:1] == b"\x52":
            k.add("frag")
        elif m[:1] == b"\x4c":
            k.add("single")
        else:
            k.add("other")
    return "+".join(sorted(k)) or "none"


def project_names(sc):
    names = set()
    for g in sc.tags:
        names.add(g["name"])
        if g["prog"] is not None:
            names.add("Program:" + g["prog"])
    for t in sc.templates:
        for m in t["members"]:
            names.add(m["name"])
    return names


def exact_spelling(names, req):
    body = req.split("{")[0]
    for part in body.split("."):
        nm = part.split("[")[0]
        if nm and not nm.isdigit() and nm not in names:
            return False
    return True


# ------------------------------------------------------------------ one call, both sides, oracle
def check_call(R, pair, reqs, case, all_valid_expected=False):
    """run read(*reqs) on the implementation and on the model; correspondence + oracle"""
    tp = pair.tp
    mark = tp.log_size()
    msgs, res, exc = pair.real_read(reqs)
    events = tp.log(mark)
    kind, mmsgs, mtags, mcode = pair.model_read(reqs)
    R.corr_checked += 1
    pk = plan_kind(msgs)
    R.count("plan", pk)
    R.count("tags_per_call", len(reqs) if len(reqs) < 10 else "10+" if len(reqs) < 30 else "30+")
    R.count("messages_per_call", len(msgs) if len(msgs) < 5 else "5-50" if len(msgs) <= 50 else "50+")
    # ---- correspondence
    if msgs != mmsgs:
        k = next((i for i, (a, b) in enumerate(zip(msgs, mmsgs)) if a != b), min(len(msgs), len(mmsgs)))
        R.disagree("read: connected messages differ", case,
                   {"n": len(mmsgs), "first_diff": k, "msg": mmsgs[k].hex()[:400] if k < len(mmsgs) else None},
                   {"n": len(msgs), "first_diff": k, "msg": msgs[k].hex()[:400] if k < len(msgs) else None})
    if exc is not None or kind != "ok":
        if not (exc is not None and kind == "raise" and EXN_CODE.get(exc) == mcode):
            R.disagree("read: outcome differs", case, {"kind": kind, "code": mcode}, {"exception": exc})
    else:
        if len(res) != len(mtags):
            R.disagree("read: number of Tags", case, len(mtags), len(res))
        for i, (t, m) in enumerate(zip(res, mtags)):
            if not tag_agrees(t, m):
                R.disagree("read: Tag differs", dict(case, index=i, request=reqs[i]),
                           {"tag": m[0], "value": untag(m[1]), "type": m[2], "error": m[3]},
                           {"tag": t.tag, "value": t.value, "type": t.type, "error": t.error})
    # ---- oracle on the implementation
    exps = [RV.refread(tp, r) for r in reqs]
    names = project_names(pair.sc)
    nontrivial = False
    for i, (r, e) in enumerate(zip(reqs, exps)):
        sh = shape_of(r, e)
        R.count("request_shape", sh)
        if e is None:
            continue
        if not exact_spelling(names, r):
            # Logix names are case-insensitive, LogixDriver's tag list is a case-sensitive dict: requests are
            # assumed to spell names as the controller does (ASSUMPTIONS); a case variant is not demanded
            R.count("request_shape", "case-variant (not demanded)")
            exps[i] = None
            continue
        nontrivial = True
        where = f"{pk}:{sh}"
        c = dict(case, index=i, request=r)
        if exc is not None:
            R.fail("read() raised on requests that exist", c, exc, "a truthy Tag per request", f"read:raise:{where}")
            continue
        if i >= len(res):
            R.fail("read() returned fewer Tags than requests", c, len(res), len(reqs), f"read:count:{where}")
            continue
        t = res[i]
        if not t:
            big = e["count"] > 65535 or (e["elem_type"] == "BOOL" and e["count"] > 32 * 65535 - 32)
            R.fail("read of an existing address is falsy", c, {"error": t.error},
                   {"value": "(%d elements)" % e["count"] if big else untag(e["value"]), "type": e["type"]},
                   "read:falsy:count>65535" if big else f"read:falsy:{where}")
        elif not RV.same_value(e["value"], t.value):
            R.fail("read returned a value the controller does not hold", c, {"value": t.value, "type": t.type},
                   {"value": untag(e["value"]), "type": e["type"]}, f"read:value:{where}")
        elif t.type != e["type"]:
            R.fail("read returned a wrong type string", c, t.type, e["type"], f"read:type:{where}")
    if exps and all(e is not None for e in exps):
        for ev in T.bad_events(events):
            R.fail("valid read requests caused a bad event in the target", case,
                   {k: (v.hex() if isinstance(v, bytes) else v) for k, v in ev.items()}, "none", f"read:badevent:{pk}:{ev['ev']}")
            break
    elif all_valid_expected:
        R.notes.append(f"generator slip: a request of {case} has no reference value")
    R.case(case, nontrivial)
    return msgs, res, exps


# ------------------------------------------------------------------ scenarios
FLAVOURS = ["default", "default", "default", "std_fo", "old_fw", "micro800", "frag1", "frag_small", "booltrue1"]


def sub_seed(R, phase, k):
    """a seed that depends only on the run's seed, the phase and the index (not on time budgets)"""
    return random.Random(f"{R.seed}:{phase}:{k}").randrange(1 << 30)


def make_scenario(seed, flavour, sized=None, frag=None, n_tags=None):
    rng = random.Random(seed)
    sc = S.gen_scenario(rng, sized=sized, n_tags=n_tags)
    if flavour == "std_fo":
        sc.cfg["accept_large_fo"] = 0
    elif flavour == "large_fo":
        sc.cfg["accept_large_fo"] = 1
    elif flavour == "old_fw":
        sc.cfg["rev_major"] = rng.choice([16, 19, 20])
    elif flavour == "new_fw":
        sc.cfg["rev_major"] = rng.choice([21, 24, 32])
    elif flavour == "micro800":
        sc.cfg["product_name"] = b"2080-LC50-24QWB"
        sc.cfg["multi_service"] = 0
        for g in sc.tags:                       # Micro800 controllers have no program-scoped tag upload here
            pass
    elif flavour == "frag1":
        sc.policy["frag"] = [1]
    elif flavour == "frag_small":
        sc.policy["frag"] = rng.choice([[2], [7], [3, 0, 11], [rng.randint(1, 40)]])
    elif flavour == "booltrue1":
        sc.policy["booltrue"] = rng.choice([1, 128, 255])
    if frag is not None:
        sc.policy["frag"] = list(frag)
    return sc, rng


def scenario_calls(R, seed, flavour, n_calls):
    sc, rng = make_scenario(seed, flavour)
    pair = Pair(sc)
    try:
        R.count("flavour", flavour)
        R.count("conn", pair.conn)
        R.count("addressing", "instance" if pair.drv._cfg["use_instance_ids"] else "symbolic")
        R.count("micro800", pair.drv._micro800)
        base = {"kind": "scenario", "seed": seed, "flavour": flavour}
        for k in range(n_calls):
            r = rng.random()
            if r < 0.25:
                reqs = S.gen_read_requests(rng, sc, 1)
            elif r < 0.75:
                reqs = S.gen_read_requests(rng, sc, rng.randint(2, 14))
            elif r < 0.85:
                reqs = S.gen_read_requests(rng, sc, rng.randint(15, 60))
            else:
                reqs = S.gen_read_requests(rng, sc, rng.randint(1, 6))
                reqs += rng.choices(reqs, k=rng.randint(1, 3))          # duplicates
                rng.shuffle(reqs)
            if rng.random() < 0.2:                                       # invalid requests mixed in (correspondence; C03)
                bad = [b for _, b in S.gen_invalid_requests(rng, sc, rng.randint(1, 3))]
                reqs = reqs + bad
                rng.shuffle(reqs)
            if rng.random() < 0.15:                                      # malformed strings: parse errors, unbuildable requests
                bad = [mutate_request(rng, r) for r in rng.sample(reqs, min(len(reqs), rng.randint(1, 3)))]
                bad += rng.sample(["", ".", "{", "}", "[", "x{70000}", reqs[0] + "[abc]", reqs[0] + "{65536}", reqs[0] + "[-1]",
                                   reqs[0] + "{x}", "Program:", "Program:.x"], 2)
                R.count("malformed_in_read", len(bad))
                reqs = reqs + bad
                rng.shuffle(reqs)
            check_call(R, pair, reqs, dict(base, requests=reqs))
    finally:
        pair.close()


# ------------------------------------------------------------------ every addressable thing of one small project
def exhaustive_project(R, seed, flavour):
    """every tag, every member at every depth, first/last array element, slices, integer bits, BOOL
    elements and ranges of one generated project"""
    sc, rng = make_scenario(seed, flavour, n_tags=10)
    reqs = []

    def walk(path, kind, code, dims, depth):
        total = 1
        for d in dims:
            total *= d
        if dims:
            if kind == "a" and code == S.DWORD:
                nb = 32 * total
                reqs.append(path)
                for i in sorted({0, 1, 31, 32 % nb, nb - 1, rng.randrange(nb)}):
                    reqs.append(f"{path}[{i}]")
                for i, n in {(0, nb), (0, 1), (0, min(33, nb)), (nb - 1, 1), (5 % nb, nb - 5 % nb)} | \
                        {(a, rng.randint(1, nb - a)) for a in (rng.randrange(nb), rng.randrange(nb))}:
                    reqs.append(f"{path}[{i}]{{{n}}}")
                reqs.append(f"{path}{{{rng.randint(1, nb)}}}")
                return
            reqs.append(path)
            reqs.append(f"{path}{{{total}}}")
            reqs.append(f"{path}{{1}}")
            if len(dims) == 1:
                i = rng.randrange(total)
                reqs.append(f"{path}[{i}]{{{rng.randint(1, total - i)}}}")
                reqs.append(f"{path}[{total - 1}]{{1}}")
            first = "[" + ",".join("0" for _ in dims) + "]"
            last = "[" + ",".join(str(d - 1) for d in dims) + "]"
            for ix in {first, last, S._idx(rng, dims)}:
                walk(path + ix, kind, code, [], depth)
            return
        reqs.append(path)
        if kind == "s":
            t = sc.template(code)
            if not sc.is_string(t) and depth < 4:
                for m in t["members"]:
                    if m["hidden"]:
                        continue
                    if m["kind"] == "a" and m["code"] == S.BOOL:
                        reqs.append(path + "." + m["name"])
                    else:
                        walk(path + "." + m["name"], m["kind"], m["code"], [m["arr"]] if m["arr"] else [], depth + 1)
        elif code in S.INTEGER:
            w = 8 * S.CODE_SIZE[code]
            for b in {0, w - 1, rng.randrange(w)}:
                reqs.append(f"{path}.{b}")

    for g in sc.data_tags():
        if S._hidden_tag(g):
            continue
        if g["kind"] == "a" and g["code"] == S.BOOL:
            reqs.append(sc.full_name(g))
        else:
            walk(sc.full_name(g), g["kind"], g["code"], g["dims"], 0)
    pair = Pair(sc)
    try:
        R.count("flavour", "exhaustive:" + flavour)
        base = {"kind": "exhaustive", "seed": seed, "flavour": flavour}
        rng.shuffle(reqs)
        i = 0
        while i < len(reqs):
            n = rng.choice([1, 1, 3, 8, 20, 45])
            chunk = reqs[i:i + n]
            i += n
            check_call(R, pair, chunk, dict(base, requests=chunk), all_valid_expected=True)
    finally:
        pair.close()


# ------------------------------------------------------------------ data sizes around the connection size
def size_sweep(R, large, tname, counts, frag, label, lists=4):
    sc, rng = make_scenario(7, "large_fo" if large else "std_fo", sized=[(tname, n) for n in counts], frag=frag, n_tags=3)
    sc.cfg["rev_major"] = 32
    pair = Pair(sc)
    try:
        conn = pair.conn
        R.count("conn", conn)
        R.count("frag_policy", "none" if not frag else frag[0] if frag[0] in (1, 2, 7) else "conn/3" if frag[0] == (conn // 3)
                else "conn-9" if frag[0] == conn - 9 else "random")
        bigs = [g for g in sc.tags if g["name"].startswith("Big")]
        small = [sc.full_name(g) for g in sc.data_tags() if not S._hidden_tag(g) and not g["name"].startswith("Big")]
        for g in bigs:
            n = g["dims"][0]
            whole = f"{g['name']}{{{n}}}"
            base = {"kind": "sweep", "large": large, "type": tname, "counts": counts, "frag": list(frag), "label": label}
            R.count("sweep_bytes_minus_conn", max(-80, min(80, n * S.ATOMS[tname][1] - conn)) // 8 * 8)
            for reqs in ([whole], [whole, small[0]], [small[0], whole], [g["name"] + "[1]{%d}" % (n - 1), whole])[:lists]:
                check_call(R, pair, reqs, dict(base, requests=reqs), all_valid_expected=True)
    finally:
        pair.close()


def sweeps(R, thorough):
    types = (("SINT", 1), ("INT", 2), ("DINT", 4), ("LINT", 8), ("REAL", 4))
    for large, centre in ((True, 4000), (False, 500)):
        rnd = random.Random(f"{R.seed}:sweep:{centre}").randint(8, 2 * centre)
        if thorough:
            pols = [(), (1,), (2,), (7,), (centre // 3,), (centre - 9,), (rnd,)]
            for tname, es in types:
                c = centre // es
                counts = sorted({c + k for k in range(-24 // es - 3, 4)} | {2 * c + k for k in (-3, -1, 0, 1)} | {3 * c + 1})
                for pol in pols:
                    cs = counts
                    if pol in ((1,), (2,)) and large:
                        if tname != "SINT":
                            continue
                        cs = [counts[0], counts[len(counts) // 2], counts[-1]]
                    elif pol in ((1,), (2,), (7,)):
                        cs = counts[::3] + [counts[-1]]
                    size_sweep(R, large, tname, cs, pol, f"{tname}@{centre}/{pol}", lists=4 if pol == () else 2)
            continue
        # quick tier: the whole window without a fragment policy for every type; the policies on a few sizes
        for tname, es in types:
            c = centre // es
            if tname == "SINT":
                counts = sorted({c + k for k in (-17, -13, -12, -11, -9, -8, -7, -3, -2, -1, 0, 1)} | {2 * c + 1})
            else:
                counts = sorted({c + k for k in (-12 // es - 1, -8 // es, 0, 1)})
            size_sweep(R, large, tname, counts, (), f"{tname}@{centre}/()", lists=4 if tname == "SINT" else 2)
        c = centre
        three = [c - 9, c, 2 * c + 1]
        for pol in ((centre // 3,), (centre - 9,), (rnd,)):
            size_sweep(R, large, "SINT", three, pol, f"SINT@{centre}/{pol}", lists=2)
        size_sweep(R, large, "DINT", [centre // 4 - 2, centre // 4 + 1], (centre // 3,), f"DINT@{centre}/conn/3", lists=2)
        size_sweep(R, large, "SINT", [c - 9, c + 1] if not large else [c + 1], (7,), f"SINT@{centre}/(7,)", lists=2 if not large else 1)
        if not large:
            size_sweep(R, large, "SINT", [c - 9, c + 1], (2,), f"SINT@{centre}/(2,)", lists=2)
            size_sweep(R, large, "SINT", [c - 8, c + 1], (1,), f"SINT@{centre}/(1,)", lists=2)
            size_sweep(R, large, "INT", [c // 2 + 1], (1,), f"INT@{centre}/(1,)", lists=1)
        else:
            size_sweep(R, large, "SINT", [c + 1], (2,), f"SINT@{centre}/(2,)", lists=1)


def count_limit(R):
    """an array of more than 65535 elements: {65535} is read; {65536} cannot be expressed in the UINT
    element count of Read Tag (known finding)"""
    sc, rng = make_scenario(11, "large_fo", sized=[("SINT", 66000)], n_tags=2)
    sc.cfg["rev_major"] = 32
    pair = Pair(sc)
    try:
        g = [g for g in sc.tags if g["name"].startswith("Big")][0]
        small = [sc.full_name(t) for t in sc.data_tags() if not S._hidden_tag(t) and not t["name"].startswith("Big")][0]
        base = {"kind": "count_limit", "count": 66000}
        for reqs in ([g["name"] + "{65535}"], [g["name"] + "{65536}"], [small, g["name"] + "[3]{65990}"]):
            check_call(R, pair, reqs, dict(base, requests=reqs), all_valid_expected=True)
            R.count("count_limit", reqs[-1].split("{")[1])
    finally:
        pair.close()


# ------------------------------------------------------------------ component: _parse_tag_request
_MUT_CHARS = "[]{}.,0123456789 _-+:"


def mutate_request(rng, s):
    ops = rng.randint(1, 3)
    for _ in range(ops):
        r = rng.random()
        if r < 0.2 and s:
            i = rng.randrange(len(s))
            s = s[:i] + s[i + 1:]
        elif r < 0.5:
            i = rng.randint(0, len(s))
            s = s[:i] + rng.choice(_MUT_CHARS) + s[i:]
        elif r < 0.6:
            s = s + rng.choice([".0", ".5", ".31", ".32", ".x", "{0}", "{1}", "{2}", "{ 3 }", "{1_0}", "{-1}", "{+2}", "{}", "[0]", "[1,2]", "[a]", "]", "[", ".", "..a"])
        elif r < 0.7 and s:
            i = rng.randrange(len(s))
            s = s[:i] + s[i].swapcase() + s[i + 1:]
        elif r < 0.8:
            s = rng.choice(["Program:", "Program:X.", ""]) + s
        elif r < 0.9 and "." in s:
            a = s.split(".")
            rng.shuffle(a)
            s = ".".join(a)
        else:
            s = s[:rng.randint(0, len(s))]
    return s


def parsetag_stream(R, n_scen, per):
    from pycomm3.exceptions import RequestError
    from pycomm3.cip import DataTypes
    for k in range(n_scen):
        seed = sub_seed(R, "parsetag", k)
        sc, rng = make_scenario(seed, "default")
        pair = Pair(sc)
        try:
            valid = S.gen_read_requests(rng, sc, per)
            strings = []
            for v in valid:
                strings.append(v)
                strings.append(mutate_request(rng, v))
            strings += [b for _, b in S.gen_invalid_requests(rng, sc, per // 4)]
            lines = ["parsetag " + S.x(s) for s in strings]
            answers = pair.mp.mp.batch(lines)
            for s, a in zip(strings, answers):
                a = fw.parse_line(a)
                try:
                    p = pair.drv._parse_tag_request(s, "r")
                    ti = p["tag_info"]
                    if ti["tag_type"] == "atomic":
                        size = DataTypes[ti["data_type"]].size
                    else:
                        size = ti["data_type"]["template"]["structure_size"]
                    impl = ["ok", p["user_tag"], p["plc_tag"], -1 if p["bit"] is None else p["bit"], p["elements"],
                            -1 if p["bool_elements"] is None else p["bool_elements"], int(ti["tag_type"] == "struct"),
                            ti["data_type_name"], size, ti.get("instance_id") or -1]
                    R.count("parsetag", "ok" if s in valid else "ok-mutated")
                except RequestError:
                    impl = ["err"]
                    R.count("parsetag", "RequestError")
                except Exception as e:   # noqa: BLE001
                    impl = ["raised", type(e).__name__]
                    R.count("parsetag", "other-exception")
                model = [str(a[0])] + [RV._text(x) if isinstance(x, (bytes, str)) and not isinstance(x, fw.Sym) else x for x in a[1:]]
                R.corr_checked += 1
                if model != impl:
                    R.disagree("_parse_tag_request differs", {"kind": "parsetag", "seed": seed, "request": s}, model, impl)
                R.case(("parsetag", s), impl[0] == "ok")
        finally:
            pair.close()


# ------------------------------------------------------------------ component: parse_read_reply
def readreply_stream(R, n_scen, per):
    from pycomm3.packets.util import parse_read_reply
    from pycomm3.packets import ReadTagRequestPacket
    for k in range(n_scen):
        seed = sub_seed(R, "readreply", k)
        sc, rng = make_scenario(seed, "default")
        pair = Pair(sc)
        try:
            reqs = S.gen_read_requests(rng, sc, per)
            cases = []
            for s in reqs:
                try:
                    p = pair.drv._parse_tag_request(s, "r")
                except Exception:   # noqa: BLE001
                    continue
                pkt = ReadTagRequestPacket(1, p["plc_tag"], p["elements"], p["tag_info"], 0, pair.drv._cfg["use_instance_ids"])
                pkt.build_message()
                path = pkt.request_path[1:]
                ans = pair.tp.ask(f"mr 100000 76 {fw.t_bytes(path)} {fw.t_bytes(struct.pack('<H', p['elements']))}")
                if str(ans[0]) != "ok" or ans[1] != 0:
                    continue
                data = bytes(ans[2])
                variants = [("true", data, p["elements"])]
                for _ in range(4):
                    r = rng.random()
                    if r < 0.35:
                        variants.append(("truncated", data[:rng.randint(0, len(data))], p["elements"]))
                    elif r < 0.5:
                        variants.append(("extended", data + bytes(rng.randrange(256) for _ in range(rng.randint(1, 9))), p["elements"]))
                    elif r < 0.65:
                        d = bytearray(data)
                        if d:
                            d[rng.randrange(len(d))] = rng.randrange(256)
                        variants.append(("corrupted", bytes(d), p["elements"]))
                    elif r < 0.8:
                        variants.append(("marker", (b"\xa0\x02" + data[2:]) if data[:2] != b"\xa0\x02" else data[2:], p["elements"]))
                    else:
                        variants.append(("elements", data, rng.choice([1, 2, p["elements"] + 1, max(1, p["elements"] - 1)])))
                for why, d, el in variants:
                    cases.append((s, p, why, d, el))
            lines = [f"readreply {S.x(s)} {el} {fw.t_bytes(d)}" for s, p, why, d, el in cases]
            answers = pair.mp.mp.batch(lines)
            for (s, p, why, d, el), a in zip(cases, answers):
                a = fw.parse_line(a)
                R.corr_checked += 1
                R.count("readreply", why)
                try:
                    v, ty = parse_read_reply(d, p["tag_info"], el)
                    impl_ok = True
                except Exception:   # noqa: BLE001
                    impl_ok = False
                case = {"kind": "readreply", "seed": seed, "request": s, "why": why, "data": d.hex()[:200], "elements": el}
                if str(a[0]) == "ok":
                    mty = RV._text(a[1])
                    mv = RV.parse_value(a, 2)[0]
                    if not impl_ok or ty != mty or not RV.same_value(mv, v, ordered=True):
                        R.disagree("parse_read_reply differs", case, {"type": mty, "value": untag(mv)},
                                   {"type": ty, "value": v} if impl_ok else "exception")
                elif str(a[0]) == "err":
                    if impl_ok:
                        R.disagree("parse_read_reply differs", case, "exception", {"type": ty, "value": v})
                else:
                    R.disagree("parse_read_reply: model could not parse the request", case, [str(x) for x in a[:2]], "parsed")
                R.case(("readreply", s, why, d[:64], el), impl_ok)
        finally:
            pair.close()


# ------------------------------------------------------------------ corpus / replay
def run_case(R, c):
    kind = c.get("kind")
    if kind in ("scenario", "exhaustive"):
        if kind == "exhaustive":
            sc, _ = make_scenario(c["seed"], c["flavour"], n_tags=10)
        else:
            sc, _ = make_scenario(c["seed"], c["flavour"])
        pair = Pair(sc)
        try:
            check_call(R, pair, c["requests"], {k: v for k, v in c.items() if k not in ("index", "request")})
        finally:
            pair.close()
    elif kind == "count_limit":
        sc, _ = make_scenario(11, "large_fo", sized=[("SINT", c.get("count", 66000))], n_tags=2)
        sc.cfg["rev_major"] = 32
        pair = Pair(sc)
        try:
            check_call(R, pair, c["requests"], {k: v for k, v in c.items() if k not in ("index", "request")})
        finally:
            pair.close()
    elif kind == "sweep":
        sc, _ = make_scenario(7, "large_fo" if c["large"] else "std_fo", sized=[(c["type"], n) for n in c["counts"]],
                              frag=c["frag"], n_tags=3)
        sc.cfg["rev_major"] = 32
        pair = Pair(sc)
        try:
            check_call(R, pair, c["requests"], {k: v for k, v in c.items() if k not in ("index", "request")})
        finally:
            pair.close()
    else:
        R.notes.append(f"corpus/replay case of unknown kind {kind!r} skipped")


def run_corpus(R):
    import glob
    import json
    for path in sorted(glob.glob(os.path.join(CORPUS, "*.json"))):
        try:
            c = json.load(open(path))
        except Exception as e:   # noqa: BLE001
            R.notes.append(f"corpus file {path} unreadable: {e!r}")
            continue
        for case in (c if isinstance(c, list) else [c]):
            run_case(R, case)
        R.count("corpus", os.path.basename(path))


def replay(R, rp):
    import logging
    logging.disable(logging.CRITICAL)
    R.rule = RULE
    f = rp.get("failure") or {}
    case = f.get("case") or rp.get("case")
    if case is None and rp.get("correspondence_disagreements"):
        case = rp["correspondence_disagreements"][0].get("case")
    if case is not None:
        run_case(R, case)


RULE = ("for every request r of read(*reqs) that exists in the project: the Tag is truthy, value == Expect.ref_read (REAL/LREAL by IEEE bits), "
        "type == element type name + [count] as documented; no bad event in the target log; "
        "model messages == real messages byte for byte, model Tags == real Tags")


def run(R, escalate=False):
    import logging
    logging.disable(logging.CRITICAL)
    R.rule = RULE
    thorough = R.tier == "thorough" or escalate
    t0 = time.time()
    run_corpus(R)
    n_scen, n_calls = (1500, 14) if thorough else (110, 9)
    n_exh = 60 if thorough else 8
    budget = (600 if thorough else 36)
    for k in range(n_scen):
        if time.time() - t0 > budget:
            R.notes.append(f"scenario stream stopped after {k} scenarios (time budget)")
            break
        scenario_calls(R, sub_seed(R, "scenario", k), FLAVOURS[k % len(FLAVOURS)], n_calls)
    for k in range(n_exh):
        if time.time() - t0 > budget * 1.25:
            R.notes.append(f"exhaustive projects stopped after {k} (time budget)")
            break
        exhaustive_project(R, sub_seed(R, "exhaustive", k), ["default", "std_fo", "old_fw", "micro800", "frag_small"][k % 5])
    sweeps(R, thorough)
    count_limit(R)
    parsetag_stream(R, 40 if thorough else 6, 300 if thorough else 160)
    readreply_stream(R, 40 if thorough else 5, 120 if thorough else 70)
    R.notes.append(f"harness wall {time.time() - t0:.1f}s")
