"""C08 — codec failures are DataError: never foreign, silent or non-terminating.

(a) Correspondence: the shared codec model (Model/Codec.v, co-process bin/modelrun_codec) against
    the real pycomm3 classes on out-of-domain values, valid values, every truncation of valid
    encodings, random bytes, the empty buffer, positional calls and unbounded arrays
    (codec_common.corr: the implementation runs in a forked child under an interval timer and an
    address-space limit, a hang is an observation).
(b) Oracle on the IMPLEMENTATION, from the property text only (no model involved):
      * T.encode(v): returns bytes or raises DataError; a value that is clearly outside the type's
        domain (`bad_reason`: out of range, wrong Python type, too few elements / bits, missing
        member, unencodable character) must raise DataError;
      * T.decode(bs): returns, or raises DataError; BufferEmptyError only with the stream at the
        end of the buffer; no other exception class; a successful decode never comes from fewer
        bytes than the head of the buffer announces (`need`: an independent length-only reader of
        the wire layout); every call returns within the time budget;
      * Array(None, T) over the concatenation of k whole encodings returns k elements and consumes
        the buffer.
    Every failure carries a class = call site + input class, matched against known_findings/C08.jsonl.
"""
import ast
import glob
import json
import os

import codec_common as cc
import framework as fw

EXTRA_MODELS = ["Codec"]

ASSUMPTIONS = [
    "Python values are None/bool/int/float/str/bytes/list/tuple/dict (None/str keys) and elementary type classes inside STRINGI items; "
    "lists with non-integer items given to n_bytes and STRINGI items naming other classes are outside the model (model_gap)",
    "EPATH / CIPSegment encoders are property C09's; PCCC_STRING's own layout (84-byte ST element) is not used as a width by the short-read oracle",
    "BufferEmptyError 'where a value should start' is read as: the stream is at the end of the buffer when it is raised "
    "(a string whose length prefix is present but whose characters are all missing therefore may raise it; consequence, observed and NOT "
    "reported: an unbounded array silently drops a trailing element truncated exactly at a component boundary, e.g. "
    "Array(None, Struct(DINT, DINT)).decode(4 bytes) == [] — under the stricter reading 'only at the start of the top-level value' "
    "that is a further finding)",
    "BOOL accepts every Python value by truthiness (its _encode is annotated Any): no value is outside BOOL's domain",
    "a hang is observed as: no result within 0.5 s of CPU-bound work in a forked child (RLIMIT_AS 3 GiB); type terms with an "
    "Array(<length type>, T) over an element type of no size are kept out of the random streams (the listed finding) and run in the targeted stream",
    "Array(None, <bit string>) may return the k elements as k lists or as the flat list of k * 8w bits",
]

BUDGET = 0.5

# --------------------------------------------------------------------------------------------
#  independent, length-only reader of the wire layout: how many bytes does the value at the head
#  of `data` need?
# --------------------------------------------------------------------------------------------
class _Unknown(Exception):
    pass


FIXED_ELEM = dict({n: w for n, (_, w) in cc.INT_NAMES.items()}, BOOL=1, REAL=4, LREAL=8, **cc.BITS_NAMES)
STR_PREFIX = {"STRING": 2, "LOGIX_STRING": 4, "SHORT_STRING": 1}
STRINGI_CODES = {0xD0: "STRING", 0xD5: "STRING2", 0xD9: "STRINGN", 0xDA: "SHORT_STRING"}


def _u(data, pos, w):
    return int.from_bytes(data[pos:pos + w], "little")


def need(td, data, pos=0):
    """-> (end, leaf): a value of type td starting at data[pos] extends to `end` (possibly beyond
    len(data)); leaf = kind of the first component that does not fit.  _Unknown when the layout
    does not say (greedy types, STRING2, length-prefixed arrays)."""
    n = len(data)
    k = td[0]
    if k == "elem":
        name = td[1]
        if name in FIXED_ELEM:
            e = pos + FIXED_ELEM[name]
            return e, ("fixed:" + name if e > n else None)
        if name == "DATE_AND_TIME":
            e = pos + 6
            return e, ("fixed:DATE_AND_TIME" if e > n else None)
        if name in STR_PREFIX or name == "STRING2":
            lw = STR_PREFIX.get(name, 2)
            if pos + lw > n:
                return pos + lw, "fixed:len"
            e = pos + lw + _u(data, pos, lw) * (2 if name == "STRING2" else 1)
            return e, ("string" if e > n else None)
        if name == "STRINGN":
            if pos + 4 > n:
                return pos + 4, "fixed:len"
            cs, cnt = _u(data, pos, 2), _u(data, pos + 2, 2)
            if cs not in (1, 2, 4):
                raise _Unknown()
            e = pos + 4 + cs * cnt
            return e, ("string" if e > n else None)
        if name == "STRINGI":
            if pos + 1 > n:
                return pos + 1, "fixed:len"
            cnt, p = data[pos], pos + 1
            for _ in range(cnt):
                if p + 6 > n:
                    return p + 6, "stringi"
                st = STRINGI_CODES.get(data[p + 3])
                if st is None:
                    raise _Unknown()
                p, leaf = need(("elem", st), data, p + 6)
                if leaf:
                    return p, leaf
            return p, None
        raise _Unknown()
    if k == "named":
        name = td[1]
        if name == "IPAddress":
            e = pos + 4
            return e, ("fixed:IPAddress" if e > n else None)
        if name == "PCCC_ASCII":
            e = pos + 2
            return e, ("pccc_ascii" if e > n else None)
        if name == "Revision":
            e = pos + 2
            return e, ("fixed:USINT" if e > n else None)
        if name in ("ModuleIdentityObject", "ListIdentityObject"):
            return need(IDENTITY_TD[name], data, pos)
        raise _Unknown()
    if k == "nbytes":
        if td[1] < 0:
            raise _Unknown()
        e = pos + td[1]
        return e, ("nbytes" if e > n else None)
    if k == "fss":
        lw = cc.INT_NAMES[td[2]][1]
        if pos + lw > n:
            return pos + lw, "fixed:len"
        e = pos + lw + td[1]
        return e, ("fss" if e > n else None)
    if k == "arr":
        p = pos
        for _ in range(td[1]):
            p, leaf = need(td[2], data, p)
            if leaf:
                return p, leaf
        return p, None
    if k == "arrp":
        lt = td[2]
        if lt[0] != "elem" or lt[1] not in cc.INT_NAMES or cc.INT_NAMES[lt[1]][0]:
            raise _Unknown()
        lw = cc.INT_NAMES[lt[1]][1]
        if pos + lw > n:
            return pos + lw, "fixed:len"
        cnt, p = _u(data, pos, lw), pos + lw
        if cnt > n:                        # more elements than bytes: only zero-width elements could fit
            if min_width(td[3]) > 0:
                return p + cnt * min_width(td[3]), "array-elements"
            raise _Unknown()
        for _ in range(cnt):
            p, leaf = need(td[3], data, p)
            if leaf:
                return p, leaf
        return p, None
    if k == "struct":
        p = pos
        for _, t in td[1]:
            p, leaf = need(t, data, p)
            if leaf:
                return p, leaf
        return p, None
    if k == "stag":
        if not td[1] and not td[2]:
            raise _Unknown()               # nothing is read from it: not a value of some width
        e = pos + td[4]
        return e, ("stag" if e > n else None)
    raise _Unknown()


IDENTITY_TD = {
    "ModuleIdentityObject": ("struct", ((None, ("elem", "UINT")), (None, ("elem", "UINT")), (None, ("elem", "UINT")), (None, ("named", "Revision")),
                                        (None, ("nbytes", 2)), (None, ("elem", "UDINT")), (None, ("elem", "SHORT_STRING")))),
    "ListIdentityObject": ("struct", ((None, ("elem", "UINT")), (None, ("elem", "UINT")), (None, ("elem", "UINT")), (None, ("elem", "INT")),
                                      (None, ("elem", "UINT")), (None, ("named", "IPAddress")), (None, ("elem", "ULINT")), (None, ("elem", "UINT")),
                                      (None, ("elem", "UINT")), (None, ("elem", "UINT")), (None, ("named", "Revision")), (None, ("nbytes", 2)),
                                      (None, ("elem", "UDINT")), (None, ("elem", "SHORT_STRING")), (None, ("elem", "USINT")))),
}


# --------------------------------------------------------------------------------------------
#  syntactic facts about type terms (from the constructors' documentation, not from the code)
# --------------------------------------------------------------------------------------------
def subterms(td):
    yield td
    k = td[0]
    if k == "arr":
        yield from subterms(td[2])
    elif k == "arrp":
        yield from subterms(td[2])
        yield from subterms(td[3])
    elif k == "arrall":
        yield from subterms(td[1])
    elif k == "struct":
        for _, t in td[1]:
            yield from subterms(t)
    elif k == "stag":
        for _, _, t in td[1]:
            yield from subterms(t)


def min_width(td):
    """a lower bound on the bytes a value of the type occupies (0 = may occupy nothing)"""
    k = td[0]
    if k == "elem":
        if td[1] in FIXED_ELEM:
            return FIXED_ELEM[td[1]]
        return {"DATE_AND_TIME": 6, "STRINGN": 4, "STRINGI": 1}.get(td[1], STR_PREFIX.get(td[1], 2 if td[1] == "STRING2" else 0))
    if k == "named":
        return {"IPAddress": 4, "PCCC_ASCII": 2, "PCCC_STRING": 2, "Revision": 2, "ModuleIdentityObject": 15, "ListIdentityObject": 34}[td[1]]
    if k == "nbytes":
        return max(td[1], 0) if td[1] >= 0 else 1
    if k == "fss":
        return cc.INT_NAMES[td[2]][1] + td[1]
    if k == "arr":
        return td[1] * min_width(td[2])
    if k == "arrp":
        return min_width(td[2])
    if k == "arrall":
        return 0
    if k == "struct":
        return sum(min_width(t) for _, t in td[1])
    if k == "stag":
        return td[4]
    return 0


def lenient_on_empty(e):
    """element types of positive width whose decoder reads with a plain stream.read and therefore
    returns a value from an empty buffer instead of raising BufferEmptyError"""
    if e == ("named", "PCCC_ASCII"):
        return True
    if e[0] == "stag":
        return not e[1] and not e[2]
    if e[0] == "arr":
        return e[1] >= 1 and lenient_on_empty(e[2])
    if e[0] == "struct":
        return len(e[1]) >= 1 and all(lenient_on_empty(t) or min_width(t) == 0 for _, t in e[1])
    return False


def hang_class(td):
    """the class of an array whose loop need not end with the buffer: Array(L, T) over an element
    type that can occupy no bytes runs `count` rounds; Array(None, T) whose element decoder can
    return without consuming input relied, before a3c2e95, on BufferEmptyError alone.  Or None."""
    for s in subterms(td):
        if s[0] == "arrp" and (min_width(s[3]) == 0 or lenient_on_empty(s[3])):
            return "dec:hang:length-prefixed-array-over-zero-width-element"
    for s in subterms(td):
        if s[0] == "arrall":
            e = s[1]
            if min_width(e) == 0:
                return "dec:hang:unbounded-array-over-zero-width-element"
            if lenient_on_empty(e):
                return "dec:hang:unbounded-array-over-element-read-without-_stream_read"
    return None


def zero_length_read_class(td):
    """the type can announce a zero-length read, which DataType._stream_read reports as
    BufferEmptyError: STRINGN / STRINGI with zero characters; the zero-size types n_bytes(0),
    FixedSizeString(0).  -> class suffix or None"""
    subs = list(subterms(td))
    if any(s in (("elem", "STRINGN"), ("elem", "STRINGI")) for s in subs):
        return "STRINGN-zero-characters"
    if any((s[0] == "nbytes" and s[1] == 0) or (s[0] == "fss" and s[1] == 0) for s in subs):
        return "zero-size-type"
    return None


def stag_layouts_ok(td):
    """every StructTag in the term has its members (of known constant width) and bits inside struct_size"""
    for s in subterms(td):
        if s[0] == "stag":
            for _, off, t in s[1]:
                w = cc.fixed_width(t)
                if w is None or off + w > s[4]:
                    return False
            for _, off, bit in s[2]:
                if off >= s[4] or bit > 7:
                    return False
    return True


# --------------------------------------------------------------------------------------------
#  values that are clearly outside a type's domain (the classes the property text lists)
# --------------------------------------------------------------------------------------------
REAL_MAX_ROUND = float.fromhex("0x1.ffffffp+127")      # the smallest magnitude that rounds beyond binary32


def _scalar(v):
    return v is None or isinstance(v, (bool, int, float))


def _unencodable(s, enc):
    try:
        s.encode(enc)
        return False
    except UnicodeError:
        return True


def bad_reason(td, v):
    """a reason string when `v` is clearly outside the domain of `td`, else None (unknown / inside)."""
    k = td[0]
    if k == "elem":
        n = td[1]
        if n == "BOOL" or n == "STRINGI":
            return None
        if n == "DATE_AND_TIME":
            if _scalar(v):
                return "datetime-not-a-pair"
            if isinstance(v, (list, tuple)):
                if len(v) != 2:
                    return "datetime-not-a-pair"
                return bad_reason(("elem", "UDINT"), v[0]) or bad_reason(("elem", "UINT"), v[1])
            return None
        if n in cc.INT_NAMES:
            sg, w = cc.INT_NAMES[n]
            if isinstance(v, bool):
                return None
            if isinstance(v, int):
                lo, hi = (-(1 << (8 * w - 1)), (1 << (8 * w - 1)) - 1) if sg else (0, (1 << (8 * w)) - 1)
                return None if lo <= v <= hi else "int-out-of-range"
            return "int-wrong-type"
        if n in ("REAL", "LREAL"):
            if isinstance(v, bool):
                return None
            if isinstance(v, int):
                return "real-out-of-range" if abs(v) >= (1 << 1024) else (
                    "real-out-of-range" if n == "REAL" and abs(v) >= REAL_MAX_ROUND else None)
            if isinstance(v, float):
                if n == "REAL" and v == v and abs(v) != float("inf") and abs(v) >= REAL_MAX_ROUND:
                    return "real-out-of-range"
                return None
            return "real-wrong-type"
        if n in cc.BITS_NAMES:
            if _scalar(v):
                return "bits-wrong-type"
            try:
                return None if len(v) == 8 * cc.BITS_NAMES[n] else "bits-wrong-length"
            except TypeError:
                return "bits-wrong-type"
        if n in cc.STR_NAMES or n == "STRINGN":
            if not isinstance(v, str):
                return "string-wrong-type"
            lw, enc = cc.STR_NAMES.get(n, (2, "latin1"))      # STRINGN.encode(value): one byte per character
            if len(v) >= (1 << (8 * lw)):
                return "string-too-long"
            if _unencodable(v, {"latin1": "iso-8859-1", "utf16": "utf-16-le", "utf8": "utf-8"}[enc]):
                return "string-unencodable"
            return None
        return None
    if k == "named":
        n = td[1]
        if n == "IPAddress":
            if isinstance(v, bool):
                return None
            if isinstance(v, int):
                return None if 0 <= v < (1 << 32) else "ip-out-of-range"
            if isinstance(v, bytes):
                return None if len(v) == 4 else "ip-wrong-length"
            if isinstance(v, str):
                parts = v.split(".")
                ok = len(parts) == 4 and all(p.isascii() and p.isdigit() and len(p) <= 3 and int(p) <= 255 and (p == "0" or p[0] != "0") for p in parts)
                return None if ok else "ip-malformed"
            return "ip-wrong-type"
        if n == "Revision":
            return bad_reason(("struct", (("major", ("elem", "USINT")), ("minor", ("elem", "USINT")))), v)
        if n == "PCCC_STRING":
            if not isinstance(v, str):
                return "string-wrong-type"
            return "string-unencodable" if _unencodable(v, "iso-8859-1") else None
        if n == "PCCC_ASCII":
            return "string-wrong-type" if _scalar(v) else None
        if n == "ModuleIdentityObject":
            return None if isinstance(v, dict) else "struct-wrong-type"
        if n == "ListIdentityObject":
            return "struct-wrong-type" if _scalar(v) else None
        return None
    if k == "nbytes":
        return None if isinstance(v, (bytes, bytearray, list, tuple)) else "nbytes-not-bytes"
    if k == "fss":
        if not isinstance(v, str):
            return "string-wrong-type"
        cap = td[1] if td[3] is None else td[3]
        s = v[:cap]
        sg, w = cc.INT_NAMES[td[2]]
        if len(s) > ((1 << (8 * w - 1)) - 1 if sg else (1 << (8 * w)) - 1):
            return "string-too-long"
        return "string-unencodable" if _unencodable(s, "iso-8859-1") else None
    if k in ("arr", "arrp", "arrall"):
        e = td[-1]
        if _scalar(v):
            return "array-value-without-len"
        if not isinstance(v, (list, tuple)):
            return None
        if e[0] == "elem" and e[1] in cc.BITS_NAMES:
            chunk = 8 * cc.BITS_NAMES[e[1]]
            if k == "arr":
                return "bit-array-too-few-bits" if len(v) < td[1] * chunk else None
            return "bit-array-partial-element" if len(v) % chunk else None
        items = v
        if k == "arr":
            if len(v) < td[1]:
                return "array-too-few-elements"
            items = v[:td[1]]
        for x in items:
            r = bad_reason(e, x)
            if r:
                return r
        return None
    if k == "struct":
        ms = td[1]
        if _scalar(v):
            return "struct-wrong-type"
        if isinstance(v, (list, tuple)):
            for (_, t), x in zip(ms, v):
                r = bad_reason(t, x)
                if r:
                    return r
            if len(v) < len(ms):
                return "struct-too-few-values"
            return None
        if isinstance(v, dict):
            names = [n for n, _ in ms]
            if any(n is None or n == "" for n in names) or len(set(names)) != len(names):
                return None
            for n, t in ms:
                if n not in v:
                    return "struct-missing-member"
                r = bad_reason(t, v[n])
                if r:
                    return r
            return None
        return None
    if k == "stag":
        if not isinstance(v, dict):
            return "struct-wrong-type"
        for n, off, t in td[1]:
            if n in td[3]:
                continue
            if n not in v:
                return "struct-missing-member"
            r = bad_reason(t, v[n])
            if r:
                return r
        for n, off, bit in td[2]:
            if n not in v:
                return "struct-missing-member"
        return None
    return None


SILENT_CLASS = {
    "struct-too-few-values": "enc:silent:struct-too-few-values",
    "nbytes-not-bytes": "enc:silent:n_bytes-value-not-bytes",
    "bit-array-too-few-bits": "enc:silent:bit-string-array-length",
    "bit-array-partial-element": "enc:silent:bit-string-array-length",
}


# --------------------------------------------------------------------------------------------
#  the oracle
# --------------------------------------------------------------------------------------------
PER_CLASS = 3


def fail(R, what, case, observed, expected, cls):
    """R.fail keeps the first 200 failures: record at most PER_CLASS per class (all are counted) so
    that the many instances of a listed finding cannot crowd out a new class"""
    R.count("oracle_failures_by_class", cls)
    if R.hist["oracle_failures_by_class"][cls] <= PER_CLASS:
        R.fail(what, case, observed, expected, cls)


def case_json(c):
    return {"op": c[0], "ty": " ".join(cc.ty_tokens(c[1])), "td": repr(c[1]), "args": repr(tuple(c[2:]))}


def oracle_encode(R, c, im):
    td = c[1]
    top = cc.ty_kind(td)
    R.evaluations += 1
    reason = bad_reason(td, c[2]) if c[0] == "enc" else None
    R.count("enc_value_class", reason or "not-classified-as-outside")
    if im[0] in ("hang", "crash"):
        fail(R, "encode does not return", case_json(c), im, "bytes or DataError", f"enc:{im[0]}:{top}")
        return
    if im[0] == "noconstruct":
        return
    if im[0] == "err":
        if im[1] == 1:
            return
        name = cc.CODE_NAMES.get(im[1], str(im[1]))
        if c[0] == "enc" and top == "DATE_AND_TIME" and im[1] == 10:
            cls = "enc:foreign:DATE_AND_TIME-single-value-call"
        elif c[0] == "enc" and td[0] in ("arr", "arrp", "arrall") and im[1] == 10 and _scalar(c[2]):
            cls = "enc:foreign:array-value-without-len"
        elif c[0] == "enca" and td[0] in ("arr", "arrp", "arrall") and im[1] == 10 and len(c[2]) == 2 and _scalar(c[2][0]):
            cls = "enc:foreign:array-value-without-len"
        elif c[0] == "enca" and im[1] == 10 and not _arity_ok(td, c[2]):
            return          # a call with the wrong number of arguments is not a value
        else:
            cls = f"enc:foreign:{name}:{top}"
        fail(R, "encode raises an exception that is not DataError", case_json(c), name, "DataError", cls)
        return
    # returned
    if im[1] != 0:
        fail(R, "encode returns an object that is not bytes", case_json(c), {1: "str", 2: "list", 3: "tuple"}.get(im[1], "object"), "bytes or DataError",
               "enc:silent:n_bytes-value-not-bytes" if td[0] == "nbytes" else f"enc:not-bytes:{top}")
        return
    if reason:
        fail(R, "a value outside the type's domain is encoded without an error", case_json(c), "bytes " + str(im[2])[:60], "DataError",
               SILENT_CLASS.get(reason, f"enc:silent:{reason}:{top}"))


def _arity_ok(td, args):
    if td == ("elem", "DATE_AND_TIME"):
        return len(args) >= 2
    if td == ("elem", "STRINGN"):
        return len(args) in (1, 2)
    if td == ("elem", "STRINGI"):
        return True
    if td[0] in ("arr", "arrp", "arrall"):
        return len(args) in (1, 2)
    return len(args) == 1


def oracle_decode(R, c, im):
    td, data = c[1], c[2]
    top = cc.ty_kind(td)
    R.evaluations += 1
    if c[0] == "decl":
        # T.decode(stream, length): the array behaves as Array(length, E) for a positive int
        ln = c[3]
        if ln is None or ln is False or ln == 0:
            td_eff = td                                   # `length or cls.length`
        elif ln is True:
            td_eff = ("arr", 1, td[-1])                   # range(True)
        elif isinstance(ln, int) and ln > 0:
            td_eff = ("arr", ln, td[-1])
        else:
            td_eff = None
    else:
        td_eff = td
    if im[0] == "noconstruct":
        return
    if im[0] in ("hang", "crash"):
        cls = (hang_class(td_eff) if td_eff else None) or f"dec:{im[0]}:{top}"
        fail(R, "decode does not return", case_json(c), im, "a value or DataError", cls)
        return
    if im[0] == "err":
        if im[1] != 1:
            name = cc.CODE_NAMES.get(im[1], str(im[1]))
            fail(R, "decode raises an exception that is not DataError", case_json(c), name, "DataError / BufferEmptyError", f"dec:foreign:{name}:{top}")
        return
    if im[0] == "empty":
        if im[1] != len(data) and (td_eff is None or stag_layouts_ok(td_eff)):
            z = zero_length_read_class(td_eff or td)
            cls = f"dec:buffer-empty-with-bytes-remaining:{z or top}"
            fail(R, "BufferEmptyError although bytes remain", case_json(c), f"BufferEmptyError at offset {im[1]} of {len(data)}",
                   "BufferEmptyError only at the end of the buffer, DataError otherwise", cls)
        return
    # returned a value
    if td_eff is None:
        return
    try:
        end, leaf = need(td_eff, data)
    except _Unknown:
        R.count("need", "unknown")
        return
    R.count("need", "short" if leaf else "enough")
    if leaf:
        fail(R, "a value is produced from fewer bytes than its encoding announces", case_json(c),
               f"value from {len(data)} bytes", f"DataError (needs {end} bytes)", f"dec:short-read:{leaf}")


# --------------------------------------------------------------------------------------------
#  case streams
# --------------------------------------------------------------------------------------------
def run_stream(R, mp, cases, stream):
    """correspondence + oracle on one batch"""
    out = []
    if not cases:
        return out
    for c in cases:
        R.count("c08_stream", stream)
    res = cc.corr(R, mp, cases, stream=stream, budget=BUDGET, impl=run_impl_retry(R, cases))
    for c, mo, im in res:
        R.count("impl_outcome:" + c[0], cc.outcome_class(im))
        if c[0] in ("enc", "enca"):
            oracle_encode(R, c, im)
        else:
            oracle_decode(R, c, im)
        out.append((c, mo, im))
    return out


def run_impl_retry(R, cases):
    """cc.run_impl; a case on which the forked child died is run once more, alone, in a fresh child
    (a death that does not repeat is the harness's, e.g. the address-space limit hit by a child
    forked from a large parent, not the codec's)"""
    impls = cc.run_impl(cases, BUDGET)
    for i, im in enumerate(impls):
        if im == ("crash",):
            R.count("impl_child_died", "retried")
            impls[i] = cc.run_impl([cases[i]], BUDGET)[0]
    return impls


def sendable(td, v):
    """can the (type, value) pair be put to the model?"""
    if not cc.modelable(v):
        return False
    return True


LEAVES_FOR_JUNK = [("elem", n) for n in ("BOOL", "SINT", "INT", "DINT", "LINT", "USINT", "UINT", "UDINT", "ULINT", "REAL", "LREAL", "DATE_AND_TIME",
                                         "LOGIX_STRING", "STRING", "STRING2", "STRINGN", "SHORT_STRING", "BYTE", "WORD", "DWORD", "LWORD", "STRINGI",
                                         "TIME", "DATE", "ENGUNIT")] + \
                  [("named", n) for n in cc.NAMED] + [("nbytes", 2), ("nbytes", -1), ("nbytes", 0), ("fss", 4, "UDINT", None), ("fss", 8, "USINT", 6)]

COMPOSITES_FOR_JUNK = [
    ("arr", 2, ("elem", "UINT")), ("arr", 0, ("elem", "UINT")), ("arr", 2, ("elem", "BYTE")), ("arr", 1, ("elem", "STRING")),
    ("arrall", ("elem", "DINT")), ("arrall", ("elem", "WORD")), ("arrp", False, ("elem", "UINT"), ("elem", "UINT")), ("arrp", True, ("elem", "USINT"), ("elem", "SINT")),
    ("struct", (("a", ("elem", "UINT")), ("b", ("elem", "STRING")))), ("struct", ()), ("struct", ((None, ("elem", "UINT")), ("x", ("arr", 2, ("elem", "SINT"))))),
    ("stag", (("x", 0, ("elem", "DINT")), ("ZZZZZZZZZZh", 4, ("elem", "SINT"))), (("b0", 4, 0), ("b1", 4, 7)), ("ZZZZZZZZZZh",), 8),
    ("struct", (("d", ("elem", "DATE_AND_TIME")),)), ("arr", 1, ("elem", "DATE_AND_TIME")), ("struct", (("n", ("nbytes", 2)),)),
]


def targeted_cases():
    """one or more cases per suspected spot of DESIGN.md section 8 (F15-F19, F21, F22) and per overriding
    public method; boundary values of every leaf class"""
    E = lambda n: ("elem", n)
    S3 = ("struct", (("a", E("UINT")), ("b", E("UINT")), ("c", E("UINT"))))
    enc, dec = [], []
    # F22: Array.encode of a value without len()
    for t in (("arr", 2, E("UINT")), ("arrall", E("UINT")), ("arrp", False, E("UINT"), E("UINT")), ("arr", 0, E("BYTE"))):
        for v in (None, 5, 1.5, True):
            enc.append(("enc", t, v))
    enc += [("enc", ("arr", 2, E("UINT")), [1]), ("enc", ("arr", 2, E("UINT")), []), ("enc", ("struct", (("a", ("arr", 2, E("UINT"))),)), {"a": None}),
            ("enca", ("arr", 2, E("UINT")), (None, 3)), ("enca", ("arrall", E("UINT")), ([1, 2], 3)), ("enca", ("arrall", E("UINT")), ([1, 2, 3], 2))]
    # F19: Struct.encode from a too-short sequence / missing key
    enc += [("enc", S3, [1]), ("enc", S3, []), ("enc", S3, (1, 2)), ("enc", S3, [1, 2, 3]), ("enc", S3, {"a": 1}), ("enc", S3, None), ("enc", S3, {"a": 1, "b": 2, "c": 70000}),
            ("enc", ("arr", 2, S3), [[1, 2, 3], [1]]), ("enc", ("named", "Revision"), [1]), ("enc", ("named", "Revision"), {"major": 1})]
    # silent acceptance: n_bytes of non-bytes, bit-string arrays
    enc += [("enc", ("nbytes", 2), "ab"), ("enc", ("nbytes", 2), [1, 2, 3]), ("enc", ("nbytes", 2), (1, 2)), ("enc", ("nbytes", 2), None), ("enc", ("nbytes", 2), b"abc"),
            ("enc", ("nbytes", -1), "abc"), ("enc", ("struct", (("n", ("nbytes", 2)),)), ["ab"]),
            ("enc", ("arr", 2, E("BYTE")), [True] * 8), ("enc", ("arr", 1, E("BYTE")), [1] * 3), ("enc", ("arr", 2, E("BYTE")), [True]), ("enc", ("arr", 2, E("BYTE")), [True] * 16),
            ("enc", ("arrall", E("BYTE")), [True] * 12), ("enc", ("arrall", E("WORD")), [False] * 16), ("enc", E("BYTE"), [True] * 7), ("enc", E("BYTE"), [True] * 9),
            ("enc", E("WORD"), [True] * 8), ("enc", E("BYTE"), None), ("enc", E("BYTE"), [False] * 8 + [False])]
    # overriding public methods
    enc += [("enc", E("DATE_AND_TIME"), 5), ("enc", E("DATE_AND_TIME"), (1, 2)), ("enca", E("DATE_AND_TIME"), (1, "x")), ("enca", E("DATE_AND_TIME"), (1, 2)),
            ("enca", E("DATE_AND_TIME"), (1 << 32, 2)), ("enca", E("DATE_AND_TIME"), (None, None)), ("enca", E("DATE_AND_TIME"), (1, 65536)),
            ("enc", E("STRINGN"), None), ("enca", E("STRINGN"), ("a", 3)), ("enca", E("STRINGN"), ("a", [])), ("enca", E("STRINGN"), ("a", None)), ("enca", E("STRINGN"), (5, 2)),
            ("enca", E("STRINGN"), ("\ud800", 2)), ("enca", E("STRINGN"), ("a", 4)), ("enca", E("STRINGN"), ("x" * 65536, 1)),
            ("enc", E("STRINGI"), None), ("enc", E("STRINGI"), 5), ("enc", E("STRINGI"), ("a", 1, "eng", 4)), ("enc", E("STRINGI"), ("a", "b", "c")),
            ("enca", E("STRINGI"), ()), ("enca", E("STRINGI"), (None, None))]
    # boundary +-1 of every integer class, strings at the prefix limits, unencodable characters
    for n, (sg, w) in cc.INT_NAMES.items():
        lo, hi = (-(1 << (8 * w - 1)), (1 << (8 * w - 1)) - 1) if sg else (0, (1 << (8 * w)) - 1)
        for v in (lo - 1, lo, hi, hi + 1):
            enc.append(("enc", E(n), v))
    enc += [("enc", E("SHORT_STRING"), "x" * 255), ("enc", E("SHORT_STRING"), "x" * 256), ("enc", E("STRING"), "x" * 65535), ("enc", E("STRING"), "x" * 65536),
            ("enc", E("STRING"), "Ā"), ("enc", E("STRING2"), "\ud800"), ("enc", E("STRINGN"), "\udfff"), ("enc", E("LOGIX_STRING"), b"ab"),
            ("enc", ("fss", 4, "USINT", None), "Ā"), ("enc", ("fss", 4, "UDINT", None), None), ("enc", ("fss", 300, "USINT", None), "x" * 256),
            ("enc", E("REAL"), 3.4028235677973366e38), ("enc", E("REAL"), 3.4028234663852886e38), ("enc", E("REAL"), 1e39), ("enc", E("LREAL"), 1 << 1024),
            ("enc", E("REAL"), "1.0"), ("enc", ("named", "IPAddress"), "1.2.3.256"), ("enc", ("named", "IPAddress"), 1 << 32), ("enc", ("named", "IPAddress"), None)]
    # F17: short reads
    dec += [("dec", E("STRING"), b"\x05\x00ab"), ("dec", E("STRING"), b"\x05\x00"), ("dec", E("SHORT_STRING"), b"\x05ab"), ("dec", E("LOGIX_STRING"), b"\x05\x00\x00\x00ab"),
            ("dec", E("STRINGN"), b"\x01\x00\x05\x00ab"), ("dec", E("STRINGN"), b"\x02\x00\x02\x00a\x00b"), ("dec", ("nbytes", 4), b"ab"), ("dec", ("nbytes", 4), b"abcd"),
            ("dec", ("fss", 4, "UDINT", None), b"\x02\x00\x00\x00ab"), ("dec", ("fss", 4, "UDINT", None), b"\x04\x00\x00\x00ab"), ("dec", ("fss", 4, "UDINT", None), b"\x02\x00\x00\x00ab\x00\x00"),
            ("dec", ("named", "PCCC_ASCII"), b""), ("dec", ("named", "PCCC_ASCII"), b"a"), ("dec", ("named", "PCCC_ASCII"), b"ab"),
            ("dec", ("named", "PCCC_STRING"), b"\x04\x00ba"), ("dec", ("named", "PCCC_STRING"), b"\x04"), ("dec", ("named", "PCCC_STRING"), b""),
            ("dec", ("stag", (("x", 0, E("DINT")),), (), (), 8), b"\x01\x00\x00\x00"), ("dec", ("stag", (("x", 0, E("DINT")),), (), (), 8), b"\x01\x00\x00\x00\x00\x00\x00\x00"),
            ("dec", ("stag", (("x", 0, E("DINT")), ("y", 4, E("DINT"))), (), (), 8), b"\x01\x00\x00\x00"),
            ("dec", ("stag", (("x", 0, E("DINT")), ("y", 4, E("DINT"))), (), (), 8), b"\x01\x00\x00\x00\x01\x02"),
            ("dec", ("stag", (("ZZZZZZZZZZh", 0, E("SINT")),), (("b", 0, 1),), ("ZZZZZZZZZZh",), 4), b"\x02"),
            ("dec", ("struct", (("s", ("fss", 2, "UINT", None)), ("t", E("UINT")))), b"\x01\x00a"),
            ("dec", ("arr", 2, ("nbytes", 2)), b"abc"), ("dec", ("arrall", ("nbytes", 2)), b"abc")]
    for n, w in sorted(FIXED_ELEM.items()):
        for k in sorted({0, 1, w - 1, w, w + 1}):
            if k >= 0:
                dec.append(("dec", E(n), bytes(range(1, k + 1))))
    dec += [("dec", ("named", "IPAddress"), b"\x01\x02\x03"), ("dec", ("named", "IPAddress"), b""), ("dec", E("DATE_AND_TIME"), b"\x01\x00\x00\x00\x02\x00"),
            ("dec", E("DATE_AND_TIME"), b"\x01\x00\x00\x00\x02"), ("dec", E("DATE_AND_TIME"), b"\x01\x00\x00\x00"), ("dec", E("DATE_AND_TIME"), b"\x01\x00"),
            ("dec", E("STRINGI"), b""), ("dec", E("STRINGI"), b"\x01"), ("dec", E("STRINGI"), b"\x01en"), ("dec", E("STRINGI"), b"\x01eng"), ("dec", E("STRINGI"), b"\x01eng\xd0"),
            ("dec", E("STRINGI"), b"\x01eng\x99\x00\x00"), ("dec", E("STRINGI"), b"\x01eng\xd0\x04\x00\x05\x00ab"), ("dec", E("STRINGI"), b"\x01eng\xd9\x04\x00\x01\x00\x00\x00Z"),
            ("dec", E("STRINGI"), b"\x02eng\xda\x04\x00\x01a")]
    # BufferEmptyError with bytes remaining: zero-length reads
    dec += [("dec", E("STRINGN"), b"\x01\x00\x00\x00"), ("dec", E("STRINGN"), b"\x01\x00\x00\x00A"), ("dec", E("STRINGN"), b"\x03\x00\x01\x00A"), ("dec", E("STRINGN"), b"\x00\x00\x01\x00A"),
            ("dec", ("nbytes", 0), b"ab"), ("dec", ("nbytes", 0), b""), ("dec", ("nbytes", -1), b""), ("dec", ("nbytes", -1), b"abc"), ("dec", ("fss", 0, "UDINT", None), b"\x00\x00\x00\x00ab"),
            ("dec", ("arrall", E("STRINGN")), b"\x01\x00\x02\x00ab\x01\x00\x00\x00\x01\x00\x02\x00cd"), ("dec", ("arrall", E("STRING")), b"\x02\x00ab\x00\x00\x02\x00cd"),
            ("dec", ("arrall", E("STRING")), b"\x02\x00ab\x05\x00"), ("dec", ("arrall", E("STRING")), b"\x02\x00ab\x05\x00x"),
            ("dec", ("arrall", E("DINT")), bytes(6)), ("dec", ("arrall", E("DINT")), bytes(8)), ("dec", ("arrall", E("DINT")), b""),
            ("dec", ("arr", 3, E("DINT")), bytes(4)), ("dec", ("arr", 3, E("DINT")), bytes(6)), ("dec", ("arr", 3, E("DINT")), bytes(12)), ("dec", ("arr", 0, E("DINT")), b""),
            ("decl", ("arr", 3, E("DINT")), bytes(8), 2), ("decl", ("arrall", E("DINT")), bytes(8), 3), ("decl", ("arrall", E("DINT")), bytes(8), 0), ("decl", ("arr", 1, E("DINT")), bytes(8), None)]
    # F15 / F16
    dec += [("dec", ("arrp", False, E("UINT"), E("UINT")), b"\x02\x00\x01\x00\x02\x00"), ("dec", ("arrp", True, E("UINT"), E("UINT")), b"\x02\x00\x01\x00\x02\x00"),
            ("dec", ("arrp", True, E("UINT"), E("UINT")), b""), ("dec", ("arrp", True, E("UINT"), E("UINT")), b"\x02"),
            ("dec", E("STRING2"), b"\x03\x00a\x00b\x00c\x00"), ("dec", E("STRING2"), b"\x02\x00a\x00b\x00"), ("dec", E("STRING2"), b"\x02\x00a")]
    enc += [("enc", ("arrp", False, E("UINT"), E("UINT")), [1, 2]), ("enc", E("STRING2"), "abc")]
    # F18: unbounded arrays over element types that consume nothing (each costs the time budget)
    dec += [("dec", ("arrall", ("struct", ())), b""), ("dec", ("arrall", ("arr", 0, E("UINT"))), b"ab"), ("dec", ("arrall", ("arrall", E("UINT"))), b"ab"),
            ("dec", ("arrall", ("named", "PCCC_ASCII")), b"ab"), ("dec", ("arrall", ("stag", (), (), (), 4)), b"abcd"),
            ("dec", ("struct", (("h", E("UINT")), ("t", ("arrall", ("struct", (("z", ("arr", 0, E("SINT"))),)))))), b"\x01\x00"),
            ("dec", ("arrp", True, E("UINT"), ("struct", ())), b"\xff\xff"), ("dec", ("arrp", False, E("UDINT"), E("UINT")), b"\xff\xff\xff\xffab"),
            ("dec", ("arrp", False, E("USINT"), E("UINT")), b"\x02\x01\x00\x02\x00\x09"), ("dec", ("arrp", False, E("USINT"), E("UINT")), b"\x02\x01\x00\x02"),
            ("dec", ("arrp", False, E("USINT"), E("BYTE")), b"\x02\x01\x80")]
    # what remains: Array(L, T) over an element of no size runs `count` rounds (each costs the time budget)
    hang = [("dec", ("arrp", False, E("UDINT"), ("struct", ())), b"\xff\xff\xff\xff"),
            ("dec", ("arrp", False, E("UDINT"), ("arr", 0, E("UINT"))), b"\xff\xff\xff\x7fab")]
    dec += [("dec", ("arrall", ("named", "PCCC_STRING")), b""), ("dec", ("arrall", ("named", "PCCC_STRING")), b"\x02\x00ab"), ("dec", ("arrall", ("nbytes", 0)), b"ab"),
            ("dec", ("arrall", ("fss", 0, "UDINT", None)), bytes(8)), ("dec", ("arrall", ("stag", (("x", 0, E("INT")),), (), (), 0)), b"ab"),
            ("dec", ("arrall", ("struct", (("e", ("struct", ())), ("v", E("UINT"))))), b"\x01\x00\x02\x00"),
            ("dec", ("arrall", ("arrp", True, E("USINT"), E("USINT"))), b"\x01\x02")]
    return enc, dec, hang


def load_corpus():
    out = []
    for p in sorted(glob.glob(os.path.join(fw.VERIF, "corpus", "C08", "*.json"))):
        for e in json.load(open(p)):
            out.append(entry_case(e))
    return out


def entry_case(e):
    td = ast.literal_eval(e["td"])
    args = ast.literal_eval(e["args"])
    return (e["op"], td) + tuple(args)


EXACT_LEAVES = [("elem", n) for n in ("BOOL", "SINT", "INT", "DINT", "LINT", "USINT", "UINT", "UDINT", "ULINT", "REAL", "LREAL", "BYTE", "WORD", "DWORD", "LWORD",
                                      "STRING", "SHORT_STRING", "LOGIX_STRING", "STRINGN", "TIME", "DATE")] + \
               [("named", "IPAddress"), ("named", "Revision"), ("nbytes", 1), ("nbytes", 3), ("fss", 4, "UDINT", None), ("fss", 6, "UINT", 4)]


def gen_exact_type(rng, depth):
    """element types every value of which occupies at least one byte and whose encoding the
    library documents as self-delimiting"""
    if depth <= 0 or rng.random() < 0.55:
        return rng.choice(EXACT_LEAVES)
    r = rng.random()
    if r < 0.35:
        e = gen_exact_type(rng, depth - 1)
        if e[0] == "nbytes":
            e = ("elem", "USINT")          # arrays of n_bytes cannot be built by the library (C06 deviation 6)
        return ("arr", rng.choice([1, 2, 3]), e)
    if r < 0.8:
        k = rng.choice([1, 2, 3])
        return ("struct", tuple((f"m{i}", gen_exact_type(rng, depth - 1)) for i in range(k)))
    return cc.gen_stag(rng, depth - 1, False)


def exact_value(rng, td):
    """a value in the documented domain that avoids the round-trip deviations listed under C06
    (n_bytes of another length, non-ASCII text in STRINGN), so that the chunk boundaries are the
    element boundaries"""
    k = td[0]
    if k == "nbytes":
        return bytes(rng.randrange(256) for _ in range(td[1]))
    if td == ("elem", "STRINGN"):
        return cc.gen_text(rng, rng.choice([0, 0, 1, 2, 5]), "ascii")
    if k == "arr":
        if td[2][0] == "elem" and td[2][1] in cc.BITS_NAMES:
            return [rng.random() < 0.5 for _ in range(td[1] * 8 * cc.BITS_NAMES[td[2][1]])]
        return [exact_value(rng, td[2]) for _ in range(td[1])]
    if k == "struct":
        return [exact_value(rng, t) for _, t in td[1]]
    if k == "stag":
        d = {}
        for name, off, t in td[1]:
            if name not in td[3]:
                d[name] = exact_value(rng, t)
        for name, off, bit in td[2]:
            d[name] = rng.random() < 0.5
        return d
    if k == "fss":
        cap = td[1] if td[3] is None else td[3]
        return cc.gen_text(rng, rng.randrange(0, cap + 1), "latin1")
    return cc.gen_value(rng, td)


def exact_stream(R, mp, n_types, rng):
    """Array(None, E) over the concatenation of k whole encodings of E values"""
    tds, vals = [], []
    for _ in range(n_types):
        e = gen_exact_type(rng, 2)
        k = rng.choice([0, 1, 2, 3, 5, 9])
        tds.append(e)
        vals.append([exact_value(rng, e) for _ in range(k)])
    enc_cases = [("enc", e, v) for e, vs in zip(tds, vals) for v in vs]
    enc_out = cc.run_impl(enc_cases, BUDGET)
    it = iter(enc_out)
    cases, expect = [], []
    for e, vs in zip(tds, vals):
        chunks = [next(it) for _ in vs]
        if any(o[0] != "ok" or o[1] != 0 or o[2] == "" for o in chunks):
            R.count("exact_skipped", "element-not-encodable-or-empty")
            continue
        data = b"".join(bytes.fromhex(o[2]) for o in chunks)
        cases.append(("dec", ("arrall", e), data))
        expect.append((len(vs), vs))
    for c in cases:
        R.count("c08_stream", "arrall-exact")
    res = cc.corr(R, mp, cases, stream="arrall-exact", budget=BUDGET, impl=run_impl_retry(R, cases))
    for (c, mo, im), (k, vs) in zip(res, expect):
        R.evaluations += 1
        R.count("exact_elements", k)
        R.count("exact_elem_kind", cc.ty_kind(c[1][1]))
        e = c[1][1]
        counts = {k}
        if e[0] == "elem" and e[1] in cc.BITS_NAMES:
            counts.add(k * 8 * cc.BITS_NAMES[e[1]])       # Array(None, <bit string>) returns the flat list of bits
        ok = im[0] == "ok" and im[1][0] == "L" and len(im[1][1]) in counts and im[2] == len(c[2])
        if not ok:
            zero = zero_length_read_class(c[1]) == "STRINGN-zero-characters" and any(_has_empty_text(v) for v in vs)
            cls = "dec:unbounded-array-not-exact:STRINGN-zero-characters" if zero else f"dec:unbounded-array-not-exact:{cc.ty_kind(c[1][1])}"
            got = im if im[0] != "ok" else ("ok", f"{len(im[1][1])} elements", im[2])
            fail(R, "an unbounded array over a whole number of elements does not decode exactly those", case_json(c), got, f"{k} elements, {len(c[2])} bytes consumed", cls)
        else:
            oracle_decode(R, c, im)


def _has_empty_text(v):
    if v == "":
        return True
    if isinstance(v, (list, tuple)):
        return any(_has_empty_text(x) for x in v)
    if isinstance(v, dict):
        return any(_has_empty_text(x) for x in v.values())
    return False


def run(R, escalate=False):
    thorough = R.tier == "thorough" or escalate
    rng = R.rng
    R.rule = ("codec calls (T.encode(v), T.encode(*args), T.decode(bs), T.decode(bs, length)) over type terms to depth 3 built from every exported elementary "
              "class, n_bytes, FixedSizeString, Array (fixed / length-typed / unbounded), Struct, StructTag, the identity objects and the PCCC strings: "
              "values outside the domain (type confusion, boundary+-1, None, short containers, wrong bit-string length, unencodable characters), "
              "documented values, every truncation of valid encodings, random bytes, the empty buffer, unbounded arrays over whole elements; "
              "non-trivial = distinct (operation, type, argument)")
    mp = fw.ModelProc("Codec")
    try:
        # ---- corpus and targeted witnesses first
        corpus = load_corpus()
        run_stream(R, mp, [c for c in corpus if c[0] in ("enc", "enca")], "corpus")
        run_stream(R, mp, [c for c in corpus if c[0] in ("dec", "decl")], "corpus")
        enc_t, dec_t, hang_t = targeted_cases()
        run_stream(R, mp, [c for c in enc_t if all(sendable(c[1], a) for a in (c[2] if c[0] == "enca" else (c[2],)))], "targeted")
        run_stream(R, mp, dec_t, "targeted")
        run_stream(R, mp, hang_t, "targeted-hang")

        # ---- JUNK x every leaf class and a few composites
        junk = [("enc", t, v) for t in LEAVES_FOR_JUNK + COMPOSITES_FOR_JUNK for v in cc.JUNK if sendable(t, v)]
        run_stream(R, mp, junk, "junk")

        # ---- random type terms: out-of-domain values, documented values, truncations, random bytes
        n_types = 2500 if thorough else 330
        rounds = 6 if thorough else 1
        for _ in range(rounds):
            tds = []
            while len(tds) < n_types:
                td = cc.gen_type(rng, depth=rng.choice([0, 1, 2, 3]), wild=rng.random() < 0.15)
                if hang_class(td) is not None:
                    R.count("skipped_types", "hang-prone")
                    continue
                tds.append(td)
            bad, good = [], []
            for td in tds:
                for _ in range(3):
                    v = cc.gen_bad_value(rng, td)
                    if sendable(td, v):
                        bad.append(("enc", td, v))
                for _ in range(2):
                    v = cc.gen_value(rng, td, big=rng.random() < 0.1)
                    if sendable(td, v):
                        good.append(("enc", td, v))
            run_stream(R, mp, bad, "out-of-domain")
            res_good = run_stream(R, mp, good, "documented")
            decs, seen = [], set()
            for c, mo, im in res_good:
                if im[0] == "ok" and im[1] == 0:
                    bs = bytes.fromhex(im[2])
                    for t in cc.truncations(bs, limit=24 if not thorough else 40, rng=rng):
                        key = (c[1], t)
                        if key not in seen:
                            seen.add(key)
                            decs.append(("dec", c[1], t))
                    if rng.random() < 0.3:
                        decs.append(("dec", c[1], bs + bytes(rng.randrange(256) for _ in range(rng.choice([1, 2, 5])))))
            run_stream(R, mp, decs, "truncation")
            rnd = []
            for td in tds:
                rnd.append(("dec", td, b""))
                for _ in range(2):
                    rnd.append(("dec", td, cc.random_bytes(rng, td)))
            run_stream(R, mp, rnd, "random-bytes")

            # positional calls
            pos = []
            for _ in range(n_types // 3):
                r = rng.random()
                if r < 0.25:
                    pos.append(("enca", ("elem", "DATE_AND_TIME"), (rng.choice(cc.JUNK + [0, 1, (1 << 32) - 1, 1 << 32]), rng.choice(cc.JUNK + [0, 65535, 65536]))))
                elif r < 0.5:
                    pos.append(("enca", ("elem", "STRINGN"), (rng.choice(cc.JUNK + ["abc", "é", "\U0001F600"]), rng.choice([1, 2, 4, 0, 3, -1, None, "1", 1.0, True, [], 65536]))))
                elif r < 0.7:
                    items = tuple(cc.gen_value(rng, ("elem", "STRINGI")) if rng.random() < 0.7 else rng.choice(cc.JUNK) for _ in range(rng.choice([0, 1, 2, 3])))
                    pos.append(("enca", ("elem", "STRINGI"), items))
                else:
                    e = cc.gen_type(rng, 1)
                    if hang_class(("arrall", e)) is not None:
                        continue
                    t = rng.choice([("arr", rng.randrange(4), e), ("arrall", e)])
                    ln = rng.choice([None, 0, 1, 2, 3, 5, True])
                    vals = [cc.gen_value(rng, e) for _ in range(rng.randrange(5))] if rng.random() < 0.8 else rng.choice(cc.JUNK)
                    pos.append(("enca", t, (vals, ln)))
                    pos.append(("decl", t, cc.random_bytes(rng), ln))
            run_stream(R, mp, [c for c in pos if c[0] == "enca" and all(sendable(c[1], a) for a in c[2])], "positional")
            run_stream(R, mp, [c for c in pos if c[0] == "decl"], "positional")

            exact_stream(R, mp, n_types, rng)

        # ---- thorough: exhaustive small domains
        if thorough:
            ex = []
            for n, w in sorted(FIXED_ELEM.items()):
                if w == 1:
                    for b in range(256):
                        ex.append(("dec", ("elem", n), bytes([b])))
            for n in ("SHORT_STRING", "STRING", "STRINGN", "LOGIX_STRING"):
                for ln in range(0, 40):
                    for have in range(0, ln + 2):
                        prefix = {"SHORT_STRING": bytes([ln]), "STRING": ln.to_bytes(2, "little"), "LOGIX_STRING": ln.to_bytes(4, "little"),
                                  "STRINGN": b"\x01\x00" + ln.to_bytes(2, "little")}[n]
                        ex.append(("dec", ("elem", n), prefix + b"x" * have))
            run_stream(R, mp, ex, "exhaustive-small")
    finally:
        mp.close()


def replay(R, rp):
    """re-run the failing case of a replay file (and the corpus) on the implementation"""
    mp = fw.ModelProc("Codec")
    try:
        cases = []
        f = rp.get("failure") or {}
        for e in [f.get("case")] + [m.get("case") for m in rp.get("more_failures", [])]:
            if isinstance(e, dict) and "td" in e:
                try:
                    cases.append(entry_case(e))
                except Exception:
                    pass
        if not cases:
            return run(R, escalate=True)
        run_stream(R, mp, [c for c in cases if c[0] in ("enc", "enca")], "replay")
        run_stream(R, mp, [c for c in cases if c[0] in ("dec", "decl")], "replay")
    finally:
        mp.close()
