"""C03 — one result per request, in request order, with failures isolated.

Tie (correspondence):
 (a) the shared request parser Model/LogixParse.v vs the real `LogixDriver._parse_tag_request` on the
     tag database the real driver uploaded from the live reference target: grammar-generated valid
     requests, generated invalid ones, and single / double character edits of both (mostly edits of
     the part after the tag name, so that most cases get past the name lookup), read and write mode;
     compared: every field of the parsed dict, or which wrapper raised, the class of its cause, the key /
     tag in the message.
 (b) the result assembly Model/LogixResults.v (run_read / run_write composed with Model/LogixPlan.v)
     vs the real `read` / `write`: the real call runs against the live target with `LogixDriver.send`
     wrapped from outside to RECORD what every packet was answered (per request id; per service of a
     multi-service reply); the model gets the same requests and the recorded replies and must
     produce the same Tags (name, value, type, error wording) or the same exception class.  The
     model's plan must be the real plan, otherwise the recorded replies cannot be looked up.
     The type-directed value encoder (C02's subject) is an abstract parameter of the model: the
     harness supplies its outcome per write request from the real `encode_value`.

Oracle on the implementation (what the property states, nothing from the model): for every call
`read(*reqs)` / `write(*pairs)` mixing valid requests, every invalidity class of the statement,
duplicates, n = 0, 1, many (several packets, fragmented transfers, merged bit writes), with and
without controller error statuses injected in the target:
   * no exception of any class escapes;
   * n = 1 -> a Tag, otherwise a list of exactly n Tags;
   * the k-th Tag carries the k-th request (as given, or without its {n}; without it when truthy);
   * a request that cannot succeed (no reference value in Spec/Expect.v for its address; an
     unencodable / too short value; a misaligned BOOL-array write; an injected error status) is a
     falsy Tag with a non-empty error string;
   * isolation: each request's outcome (name, value, type, truthiness) equals its outcome when issued
     alone against the same target with the same memory (memory is restored before every write call);
   * bool(Tag) == (value is not None and error is None).
"""
import collections
import json
import os
import random
import signal

import framework as fw

EXTRA_MODELS = ["Target"]

ASSUMPTIONS = [
    "the reference target (Spec/TargetLogix.v) stands for the controller; a request 'cannot succeed' when Spec/Expect.v gives it no reference value",
    "replies are taken as parsed by the response classes (property C13); the peer of the model is the recorded reply per request id",
    "the type-directed value encoder is abstract in the model (Some length | raises), supplied from the real encode_value; the BOOL-array alignment rule is modelled",
    "isolation theorems: the reply to a service depends on that service request only (reads: any memory; read-modify-write: on the addressed tag only)",
    "ASCII request strings (str.isdigit / int() on non-ASCII digits are outside the model and the generators)",
    "calls whose arguments are not (tag, value) pairs (write('a')) are usage errors, not requests",
]

EXN = {"DataError": 1, "BufferEmptyError": 2, "CommError": 3, "RequestError": 4, "ResponseError": 5, "TypeError": 10,
       "ValueError": 11, "KeyError": 12, "IndexError": 13, "error": 14, "OverflowError": 15, "AttributeError": 16,
       "StopIteration": 17, "UnicodeEncodeError": 18, "ZeroDivisionError": 19, "NotImplementedError": 20}


# sha1 of ast.dump of the modelled functions when the models were last reviewed against them.  A
# difference is NOT a failure: it only enlarges the search (the code changed where the model mirrors it).
SOURCE_PINS = {
    "LogixDriver.read": "fc4f96cd18e0",
    "LogixDriver._read_build_requests": "833e11ad454c",
    "LogixDriver._read_build_multi_requests": "acf02a651f36",
    "LogixDriver._read_build_single_request": "4eed28af0e39",
    "LogixDriver.write": "39522f9a09a0",
    "LogixDriver._write_build_requests": "117a96ec91bb",
    "LogixDriver._write_build_multi_requests": "f294be7cfc3a",
    "LogixDriver._write_build_single_request": "49946c9afb30",
    "LogixDriver.get_tag_info": "b44930a208c5",
    "LogixDriver._get_tag_info": "d7fa07ff141d",
    "LogixDriver._parse_requested_tags": "c82191554b1d",
    "LogixDriver._parse_tag_request": "7ca63fd1a66f",
    "LogixDriver._send_requests": "1ca6683b4a69",
    "pycomm3/logix_driver.py.encode_value": "70cf34a6e626",
    "pycomm3/logix_driver.py._tag_return_size": "fc7d5b9c6fb3",
    "pycomm3/util.py.strip_array": "80be2f43560d",
    "pycomm3/util.py.get_array_index": "8475c7d1685c",
    "ReadModifyWriteRequestPacket.__init__": "871b37e3cc06",
    "ReadModifyWriteRequestPacket.set_bit": "2c6cd171c187",
    "ReadModifyWriteRequestPacket._setup_message": "20c066b48f1a",
    "Tag.__bool__": "ae817346868c"
}


def source_hashes():
    import ast
    import hashlib
    out = {}
    for rel, cls, names in (("pycomm3/logix_driver.py", "LogixDriver",
                             ["read", "write", "_parse_requested_tags", "_parse_tag_request", "get_tag_info", "_get_tag_info",
                              "_send_requests", "_read_build_requests", "_read_build_multi_requests", "_read_build_single_request",
                              "_write_build_requests", "_write_build_multi_requests", "_write_build_single_request"]),
                            ("pycomm3/logix_driver.py", None, ["encode_value", "_tag_return_size"]),
                            ("pycomm3/util.py", None, ["strip_array", "get_array_index"]),
                            ("pycomm3/packets/logix.py", "ReadModifyWriteRequestPacket", ["__init__", "set_bit", "_setup_message"]),
                            ("pycomm3/tag.py", "Tag", ["__bool__"])):
        tree = ast.parse(open(os.path.join(fw.REPO, rel), "rb").read())
        body = tree.body
        if cls:
            body = [n for n in body if isinstance(n, ast.ClassDef) and n.name == cls][0].body
        for n in body:
            if isinstance(n, ast.FunctionDef) and n.name in names:
                out[f"{cls or rel}.{n.name}"] = hashlib.sha1(ast.dump(n).encode()).hexdigest()[:12]
    return out


class Hang(BaseException):
    pass


_FAIL_SEEN = {}


def fail(R, what, case, observed, expected, cls):
    """R.fail, at most 5 times per class (framework keeps 200 failures in all: a frequent known class
    must not crowd out a new one); every occurrence is counted in the histogram"""
    R.count("oracle_failures_by_class", cls)
    k = _FAIL_SEEN.get((id(R), cls), 0)
    _FAIL_SEEN[(id(R), cls)] = k + 1
    if k < 5:
        R.fail(what, case, observed, expected, cls)


def _alarm(sig, frm):
    raise Hang()


def guarded(fn, secs=20):
    """run fn() under an alarm (nested inside bin/check's own alarm: restore it afterwards)"""
    old = signal.signal(signal.SIGALRM, _alarm)
    left = signal.alarm(secs)
    try:
        return fn()
    finally:
        signal.alarm(0)
        signal.signal(signal.SIGALRM, old)
        if left:
            signal.alarm(max(1, left))


# ------------------------------------------------------------------ tokens
def tx(s):
    if all(ord(c) < 256 for c in s):
        return "x" + s.encode("latin-1").hex()
    return fw.t_text(s)


def req_tok(r):
    if isinstance(r, str):
        return tx(r)
    return "10" if isinstance(r, (bytes, bytearray)) else "16"


def _t(v):
    return v.decode("latin-1") if isinstance(v, (bytes, bytearray)) else v


def db_lines(tags):
    """drv._tags -> protocol lines of bin/modelrun_c03 (reset / dt ... / tag ...)"""
    from pycomm3.cip import DataTypes
    keys, lines = {}, []

    def dt_key(dt):
        k = id(dt)
        if k in keys:
            return keys[k]
        ms = [member(n, i) for n, i in dt["internal_tags"].items()]
        keys[k] = len(keys) + 1
        st = dt.get("string")
        lines.append(f"dt {keys[k]} {tx(dt['name'])} {dt['template']['structure_size']} {dt['template']['structure_handle']} "
                     f"{st if st is not None else -1}" + "".join(" | " + m for m in ms))
        return keys[k]

    def member(name, info):
        if info["tag_type"] == "struct":
            k, size = dt_key(info["data_type"]), info["data_type"]["template"]["structure_size"]
        else:
            k, size = -1, (DataTypes[info["data_type"]].size if info.get("data_type") else 0)
        return (f"{tx(name)} {1 if info['tag_type'] == 'struct' else 0} {tx(info['data_type_name'] or '')} {k} "
                f"{info.get('array', 0) or 0} {info['bit'] if 'bit' in info else -1} {size}")

    out = []
    for name, t in tags.items():
        if t["tag_type"] == "struct":
            k, size = dt_key(t["data_type"]), t["data_type"]["template"]["structure_size"]
        else:
            k, size = -1, DataTypes[t["data_type"]].size
        out.append(f"tag {tx(name)} {1 if t['tag_type'] == 'struct' else 0} {tx(t['data_type_name'])} {k} "
                   f"{t.get('instance_id', -1)} {size}" + "".join(f" {d}" for d in t["dimensions"][: t["dim"]]))
    return ["reset"] + lines + out


# ------------------------------------------------------------------ (a) the parser
def impl_parse(drv, rw, req):
    from pycomm3.exceptions import RequestError
    try:
        p = drv._parse_tag_request(req, rw)
        return ("ok", p["user_tag"], p["plc_tag"], p["bit"], p["elements"], p["bool_elements"],
                p["tag_info"]["data_type_name"], 1 if p["tag_info"]["tag_type"] == "struct" else 0)
    except RequestError as e:
        msg = str(e)
        cause = type(e.__cause__).__name__ if e.__cause__ is not None else None
        if msg.startswith("Tag doesn't exist - "):
            return ("err", "notag", EXN["KeyError"], msg[len("Tag doesn't exist - "):])
        if msg.startswith("failed to get tag data for: "):
            return ("err", "tagdata", EXN.get(cause, -1), "")
        if e.args and e.args[0] == "Failed to parse tag request":
            a = e.args[1]
            return ("err", "parse", EXN.get(cause, -1), a if isinstance(a, str) else (10 if isinstance(a, (bytes, bytearray)) else 16))
        return ("err", "?", msg)
    except Exception as e:            # anything but RequestError escaping the parser: reported as such
        return ("raised", type(e).__name__)


def model_parse(mp, rw, req):
    a = mp.ask(f"parse {rw} {req_tok(req)}")
    if str(a[0]) == "ok":
        return ("ok", _t(a[1]), _t(a[2]), None if isinstance(a[3], fw.Sym) else a[3], a[4],
                None if isinstance(a[5], fw.Sym) else a[5], _t(a[6]), a[7])
    return ("err", str(a[1]), a[2], _t(a[3]))


ALPHABET = "[]{}.,:0123456789 -+_xA"


def mutate(rng, s):
    """one character edit, mostly after the tag name"""
    cut = min([s.find(c) for c in "[{." if c in s] or [len(s)])
    lo = cut if (rng.random() < 0.8 and cut < len(s)) else 0
    i = rng.randrange(lo, len(s) + 1)
    k = rng.randrange(4)
    if k == 0 and i < len(s):
        return s[:i] + s[i + 1:]
    if k == 1:
        return s[:i] + rng.choice(ALPHABET) + s[i:]
    if k == 2 and i < len(s):
        return s[:i] + rng.choice(ALPHABET) + s[i + 1:]
    return s[:i] + s[i:i + 2] + s[i:]


def parse_correspondence(R, rng, ctx, n_base):
    S = ctx["S"]
    sc, drv, mp = ctx["sc"], ctx["drv"], ctx["mp"]
    base = S.gen_read_requests(rng, sc, n_base) + [r for _, r in S.gen_invalid_requests(rng, sc, n_base // 3)]
    base += [w for w, _ in S.gen_write_requests(rng, sc, n_base // 2)]
    names = ctx["names"]
    base += [rng.choice(names) + sfx for sfx in (".0", ".31", ".7.1", "[0]", "[1,2]", "{2}", "[0]{2}", ".x", "[0].y", "{1}", "{0}")]
    reqs = list(base)
    for s in base:
        m = mutate(rng, s)
        reqs.append(m)
        reqs.append(mutate(rng, m))
    reqs += ["", ".", "{", "}", "{}", "[", "]", "Program:", "Program:.x", "a{1}{2}", "{3}", ".5", "a..5", 5, None, b"ab"]
    for s in reqs:
        for rw in "rw":
            a, b = impl_parse(drv, rw, s), model_parse(mp, rw, s)
            R.corr_checked += 1
            kind = a[0] if a[0] != "err" else "err:" + a[1]
            R.count("parse_outcome", kind)
            R.case(("parse", rw, repr(s), a[:2]), nontrivial=(a[0] == "ok" or a[1] != "notag"))
            if a != b:
                R.disagree("parse_tag_request", {"rw": rw, "request": repr(s)}, b, a)


# ------------------------------------------------------------------ (b) result assembly
class ValTab:
    """values the model does not look into are passed as opaque handles"""

    def __init__(self):
        self.objs = []

    def handle(self, v):
        r = repr(v)
        if r not in self.objs:
            self.objs.append(r)
        return self.objs.index(r)

    def tok(self, v):
        if v is None:
            return "n"
        if isinstance(v, bool):
            return f"b {1 if v else 0}"
        if isinstance(v, int):
            return f"i {v}"
        if isinstance(v, list):
            return f"l {len(v)}" + "".join(" " + self.tok(e) for e in v)
        return f"o {self.handle(v)}"

    def norm(self, v):
        if v is None or isinstance(v, (bool, int)):
            return v
        if isinstance(v, list):
            return [self.norm(e) for e in v]
        return ("o", self.handle(v))


class Recorder:
    """records what LogixDriver.send(request) returned, per packet (installed on the instance)"""

    KIND = {"ReadTagRequestPacket": "S", "WriteTagRequestPacket": "S", "ReadTagFragmentedRequestPacket": "F",
            "WriteTagFragmentedRequestPacket": "F", "ReadModifyWriteRequestPacket": "R"}

    def __init__(self, drv):
        self.drv, self.packets = drv, []
        self.orig = drv.send
        drv.send = self.send

    def send(self, request):
        resp = self.orig(request)
        if request.type_ == "multi":
            ids = [r.request_id for r in request.requests]
            subs = [(bool(r), getattr(r, "value", None), getattr(r, "data_type", None), r.error) for r in resp.responses]
            self.packets.append(("multi", ids, subs, resp.error))
        else:
            self.packets.append(("one", request.request_id,
                                 (bool(resp), getattr(resp, "value", None), getattr(resp, "data_type", None), resp.error),
                                 type(request).__name__))
        return resp

    def close(self):
        del self.drv.send

    def groups(self, vt, write=False):
        def rep(r):
            ok, v, ty, er = r
            return f"{1 if ok else 0} {vt.tok(None if write else v)} {tx(ty) if isinstance(ty, str) else 'none'} {tx(er or '')}"
        out = []
        for p in self.packets:
            if p[0] == "multi":
                out.append(f"multi {len(p[1])} " + " ".join(map(str, p[1])) + f" {len(p[2])} " + " ".join(rep(r) for r in p[2])
                           + (f" {tx(p[3])}" if isinstance(p[3], str) else " none"))
            else:
                out.append(f"one {p[1]} {rep(p[2])}")
        return out

    def plan(self):
        return [("M", p[1]) if p[0] == "multi" else (self.KIND.get(p[3], "?"), p[1]) for p in self.packets]


def parse_model_result(a):
    k = str(a[0])
    if k == "exc":
        return ("exc", a[1])
    pos = [1 if k == "one" else 2]

    def val():
        c = str(a[pos[0]])
        pos[0] += 1
        if c == "n":
            return None
        if c in ("i", "b", "o"):
            pos[0] += 1
            x = a[pos[0] - 1]
            return x if c == "i" else (bool(x) if c == "b" else ("o", x))
        if c == "v":
            pos[0] += 4
            return ("u", a[pos[0] - 4])
        if c == "l":
            n = a[pos[0]]
            pos[0] += 1
            return [val() for _ in range(n)]
        raise ValueError((c, a))

    def tag():
        name = _t(a[pos[0]])
        pos[0] += 1
        v = val()
        ty, er = a[pos[0]], a[pos[0] + 1]
        pos[0] += 2
        return (name, v, None if isinstance(ty, fw.Sym) else _t(ty), None if isinstance(er, fw.Sym) else _t(er))

    if k == "one":
        return ("one", tag())
    return ("list", [tag() for _ in range(a[1])])


def same_tag(m, t, vt, uvals=None):
    name, v, ty, er = m
    iname = t.tag if isinstance(t.tag, str) else (10 if isinstance(t.tag, (bytes, bytearray)) else 16)
    if name != iname:
        return False
    if isinstance(v, tuple) and v[0] == "u":
        if uvals is None or uvals[v[1]] is not t.value:
            return False
    elif v != vt.norm(t.value):
        return False
    if ty != t.type or (er is None) != (t.error is None):
        return False
    return er is None or t.error.startswith(er)


def same_result(m, impl, vt, uvals=None):
    if impl[0] == "exc":
        return m[0] == "exc" and m[1] == impl[1]
    if m[0] == "exc":
        return False
    res = impl[1]
    if m[0] == "one":
        return not isinstance(res, list) and same_tag(m[1], res, vt, uvals)
    return isinstance(res, list) and len(res) == len(m[1]) and all(same_tag(a, b, vt, uvals) for a, b in zip(m[1], res))


def enc_body(drv, req, v):
    """outcome of the type-directed part of encode_value for this (request, value): length or -1"""
    from pycomm3.logix_driver import encode_value
    from pycomm3.exceptions import RequestError
    try:
        p = dict(drv._parse_tag_request(req, "w"))
    except Exception:
        return -1
    p["value"] = v
    if p.get("bit"):
        p["bit"] = p["bit"] - p["bit"] % 32          # the alignment rule itself is the model's
    try:
        return len(encode_value(p))
    except RequestError:
        return -1


def call_impl(drv, op, args):
    """the real call, recorded; -> (("ok", result) | ("exc", code, repr, class name), recorder, reply parsing raised?)"""
    rec = Recorder(drv)
    try:
        def go():
            return drv.read(*args) if op == "read" else drv.write(*args)
        try:
            return ("ok", guarded(go)), rec
        except Hang:
            return ("hang",), rec
        except Exception as e:
            return ("exc", EXN.get(type(e).__name__, -1), repr(e), type(e).__name__), rec
    finally:
        rec.close()


def model_call(ctx, op, args, rec):
    drv, mp = ctx["drv"], ctx["mp"]
    vt = ValTab()
    head = f"{drv.connection_size} {1 if drv._micro800 else 0} {1 if drv._cfg['use_instance_ids'] else 0}"
    uvals = None
    if op == "read":
        line = f"read {head} | " + " ".join(req_tok(r) for r in args)
    else:
        line, uvals = f"write {head} |", []
        for k, (r, v) in enumerate(args):
            uvals.append(v)
            e = enc_body(drv, r, v) if isinstance(r, str) else -1
            line += f" {req_tok(r)} {k} {1 if v is None else 0} {1 if v else 0} {len(v) if isinstance(v, bytes) else -1} {e}"
    for g in rec.groups(vt, write=(op == "write")):
        line += " | " + g
    return parse_model_result(mp.ask(line)), vt, uvals


# ------------------------------------------------------------------ classes of the known defects
def strip_count(s):
    return s[: s.find("{")] if (s.endswith("}") and "{" in s) else s


def defect_classes(drv, rw, req, value=None):
    """input classes for which a defect of the unchanged tree is listed; computed from the request with
    the real parser (not the model): (class, exception the defect raises)"""
    from pycomm3.cip import DataTypes
    if not isinstance(req, str):
        return []
    try:
        p = drv._parse_tag_request(req, rw)
    except Exception:
        return []
    out = []
    for seg in p["plc_tag"].split("."):
        if "[" in seg:
            t = seg[: len(seg) - 1]
            for idx in t[t.find("[") + 1:].split(","):
                try:
                    v = int(idx)
                except ValueError:
                    out.append(("index-not-an-integer", "ValueError"))
                    break
                if not 0 <= v <= 0xFFFFFFFF:
                    out.append(("index-not-a-udint", "DataError"))
                    break
    el = p["elements"]
    if rw == "w" and p["tag_info"]["data_type_name"] == "DWORD":
        el = el - (p["bit"] or 0) // 32
    if not 0 <= el <= 65535:
        out.append(("count-not-a-uint", "DataError"))
    if rw == "w" and p["bit"] is not None and p["bool_elements"] is None:
        if DataTypes.get(p["tag_info"]["data_type_name"]) is None:
            out.append(("bit-write-to-non-elementary-type", "AttributeError"))
        else:
            b = p["bit"] % 32 if p["tag_info"]["data_type_name"] == "DWORD" else p["bit"]
            if b >= 64 and value:
                out.append(("bit-number-beyond-63", "DataError"))
    return out


def is_bit_write(drv, req):
    try:
        p = drv._parse_tag_request(req, "w")
        return p["bit"] is not None and p["bool_elements"] is None
    except Exception:
        return False


def classify_exception(drv, op, args, exc_name, injected):
    rw = "r" if op == "read" else "w"
    classes = []
    for a in args:
        req, val = (a, None) if op == "read" else a
        classes += defect_classes(drv, rw, req, val)
    if op == "write" and drv._micro800 and sum(1 for r, _ in args if isinstance(r, str) and is_bit_write(drv, r)) >= 2:
        classes.append(("micro800-several-bit-writes", "KeyError"))
    if injected and injected[1] == 0x0A:
        classes.append(("error-status-for-the-multi-service-packet", exc_name))
    for c, e in classes:
        if e == exc_name:
            return f"{op}:raises:{c}"
    return f"{op}:raises:unexplained:{exc_name}"


# ------------------------------------------------------------------ the oracle
def outcome(t):
    return (t.tag if isinstance(t.tag, str) else repr(t.tag), repr(t.value), t.type, bool(t))


def as_list(res, n):
    if n == 1:
        return None if isinstance(res, list) else [res]
    return res if isinstance(res, list) else None


def restore_memory(ctx):
    ctx["tp"].lines([f"mem {inst} x{img.hex()}" for inst, img in ctx["sc"].mem.items()])


def check_call(R, ctx, op, args, invalid, injected=None, where=""):
    """one real call + its oracle + correspondence.  invalid: indexes of args that cannot succeed."""
    drv, tp = ctx["drv"], ctx["tp"]
    n = len(args)
    case = {"scenario": ctx["id"], "op": op, "args": [encode_arg(a) for a in args], "micro800": bool(drv._micro800),
            "conn": drv.connection_size, "inject": list(injected) if injected else None}
    if op == "write":
        restore_memory(ctx)
    if injected:
        tp.inject(*injected)
    impl, rec = call_impl(drv, op, args)
    R.count("calls", f"{op}:n={'0' if n == 0 else '1' if n == 1 else '2-5' if n <= 5 else '6-20' if n <= 20 else '21+'}")
    R.count("packets_per_call", min(len(rec.packets), 6))
    for k, _ in rec.plan():
        R.count("packet_kinds", k)
    R.case((op, [repr(a) for a in args], bool(drv._micro800), drv.connection_size, injected), nontrivial=n > 0)

    # ---- correspondence: model on the recorded replies (not when reply PARSING raised: C13's model)
    if impl[0] != "hang" and not (impl[0] == "exc" and impl[3] in ("BufferEmptyError", "StopIteration", "error")):
        try:
            m, vt, uvals = model_call(ctx, op, args, rec)
            R.corr_checked += 1
            if not same_result(m, impl, vt, uvals):
                R.disagree(f"run_{op}", case, m, impl[:3] if impl[0] == "exc" else [repr(t) for t in (as_list(impl[1], n) or [impl[1]])])
        except Exception as e:        # the co-process answered something unparsable
            R.disagree(f"run_{op}:model-answer", case, repr(e), None)

    # ---- oracle
    if impl[0] == "hang":
        fail(R, "call does not return", case, "no return within 20 s", "a result", f"{op}:hang")
        return None
    if impl[0] == "exc":
        cls = classify_exception(drv, op, args, impl[3], injected)
        R.count("exceptions", cls)
        fail(R, "exception escapes " + op + "()", case, impl[2], "a falsy Tag with an error for the request that cannot succeed", cls)
        return None
    res = as_list(impl[1], n)
    if res is None or len(res) != n:
        fail(R, "result shape", case, repr(impl[1])[:300], f"{'a single Tag' if n == 1 else f'a list of {n} Tags'}", f"{op}:shape")
        return None
    for k, (a, t) in enumerate(zip(args, res)):
        req = a if op == "read" else a[0]
        if bool(t) != (t.value is not None and t.error is None):
            fail(R, "Tag truthiness", case, repr(t), "truthy iff value is not None and error is None", f"{op}:truthy")
        names_ok = [req] + ([strip_count(req)] if isinstance(req, str) else [])
        if t.tag not in names_ok or (bool(t) and t.tag != names_ok[-1]):
            fail(R, "result name", {**case, "k": k}, repr(t), f"tag name {names_ok!r} (without {{n}} when truthy)", f"{op}:name")
        if k in invalid:
            R.count("invalid_classes", invalid[k])
            if bool(t) or not isinstance(t.error, str) or t.error == "":
                fail(R, "invalid request not reported", {**case, "k": k, "class": invalid[k]}, repr(t),
                       "a falsy Tag with a non-empty error", f"{op}:invalid:{invalid[k]}")
    return res


def check_isolation(R, ctx, op, args, res, injected_hit=()):
    """each request's outcome in the mixed call = its outcome alone on the same memory"""
    drv = ctx["drv"]
    for k, (a, t) in enumerate(zip(args, res)):
        key = repr(a)
        if op == "read" and key in ctx["alone"]:
            alone = ctx["alone"][key]
        else:
            if op == "write":
                restore_memory(ctx)
            r1, _ = call_impl(drv, op, [a])
            if r1[0] != "ok" or isinstance(r1[1], list):
                alone = ("raised-or-list", repr(r1[1:3])[:200])
            else:
                alone = outcome(r1[1])
            if op == "read":
                ctx["alone"][key] = alone
        if outcome(t) != alone:
            if k in injected_hit and not bool(t) and t.error:
                continue
            if alone[0] == "raised-or-list":
                continue                                  # the request alone raises: reported by its own call
            fail(R, "isolation", {"scenario": ctx["id"], "op": op, "args": [encode_arg(x) for x in args], "k": k,
                                 "micro800": bool(drv._micro800), "conn": drv.connection_size},
                   outcome(t), alone, f"{op}:isolation")


# ------------------------------------------------------------------ arguments <-> JSON
def encode_arg(a):
    def ev(v):
        if isinstance(v, (bytes, bytearray)):
            return {"b": bytes(v).hex()}
        if isinstance(v, float):
            return {"f": v.hex()}
        if isinstance(v, list):
            return [ev(e) for e in v]
        if isinstance(v, tuple):
            return {"t": [ev(e) for e in v]}
        if isinstance(v, dict):
            return {"d": [[k, ev(x)] for k, x in v.items()]}
        return v
    return ev(a)


def decode_arg(a):
    if isinstance(a, dict):
        if "b" in a:
            return bytes.fromhex(a["b"])
        if "f" in a:
            return float.fromhex(a["f"])
        if "t" in a:
            return tuple(decode_arg(e) for e in a["t"])
        if "d" in a:
            return {k: decode_arg(x) for k, x in a["d"]}
    if isinstance(a, list):
        return [decode_arg(e) for e in a]
    return a


# ------------------------------------------------------------------ scenarios
def fixed_scenario(S, micro800=False):
    """a small hand-made project (corpus / replays do not depend on the random generator)"""
    sc = S.Scenario()
    sc.templates.append(S.string_template(0xF20, "ASCIISTRING82", 82, 0x1111, None))
    sc.templates.append({"id": 0x200, "name": "udtPair", "tail": "n1F2E", "handle": 0x2222, "size": 8, "defsize": 0,
                         "members": [{"name": "x", "kind": "a", "code": S.DINT, "arr": 0, "off": 0, "bit": 0, "hidden": False},
                                     {"name": "y", "kind": "a", "code": S.INT, "arr": 2, "off": 4, "bit": 0, "hidden": False}]})
    inst = [10]

    def mk(name, kind, code, dims=()):
        inst[0] += 7
        return {"name": name, "inst": inst[0], "prog": None, "kind": kind, "code": code, "dims": list(dims), "bitpos": 0,
                "system": False, "access": 0, "attr3": 1, "attr5": 2, "attr6": S.BASE_TAG_BIT}
    sc.tags += [mk("a", "a", S.DINT), mk("b", "a", S.DINT), mk("arr", "a", S.DINT, [10]), mk("s", "s", 0x200),
                mk("bits", "a", S.DWORD, [2]), mk("r", "a", S.REAL), mk("str", "s", 0xF20), mk("big", "a", S.SINT, [3000])]
    for g in sc.tags:
        sc.mem[g["inst"]] = bytes((7 * i + g["inst"]) % 256 for i in range(sc.tag_size(g)))
    sc.cfg["rev_major"] = 32
    sc.cfg["accept_large_fo"] = 1
    if micro800:
        sc.cfg["product_name"] = b"2080-LC50-48QWB"
    return sc


def open_ctx(sc, ident):
    import target as T
    import scenarios as S
    import refview as RV
    from pycomm3 import LogixDriver
    tp = T.TargetProc("target")
    tp.reset()
    tp.lines(sc.cfg_lines())
    tp.lines(sc.lines())
    drv = guarded(lambda: T.open_driver(LogixDriver, "10.0.0.1", tp), 60)
    mp = fw.ModelProc("C03")
    for ln in db_lines(drv._tags):
        a = mp.ask_raw(ln)
        if not a.startswith("ok"):
            raise RuntimeError(f"modelrun_c03 refused {ln[:80]!r}: {a}")
    names = [sc.full_name(g) for g in sc.data_tags() if not S._hidden_tag(g)]
    return {"sc": sc, "tp": tp, "drv": drv, "mp": mp, "S": S, "RV": RV, "T": T, "id": ident, "alone": {}, "names": names}


def close_ctx(ctx):
    for k in ("mp", "tp"):
        try:
            ctx[k].close()
        except Exception:
            pass


# ------------------------------------------------------------------ request lists
def gen_read_list(rng, ctx, n, with_defects):
    """-> (requests, {index: invalidity class})"""
    S, RV, sc, tp = ctx["S"], ctx["RV"], ctx["sc"], ctx["tp"]
    pool = [("valid", r) for r in S.gen_read_requests(rng, sc, n + 2)]
    pool += list(S.gen_invalid_requests(rng, sc, max(2, n // 2)))
    nm = ctx["names"]
    pool += [("unknown-tag", "NoSuch_" + rng.choice(nm)[:8]), ("malformed", rng.choice(nm) + "{x}"),
             ("malformed", rng.choice(nm) + "..q"), ("malformed", ""), ("malformed", rng.choice(nm) + "{1}{2}"),
             ("non-string", rng.choice([5, None, b"ab", 1.5]))]
    if with_defects:
        pool += [("malformed-index-or-count", rng.choice(nm) + rng.choice(["[", "[x]", "[]", "[1", "{-1}", "{70000}", "[-1]", "[4294967296]"]))]
    picks = [rng.choice(pool) for _ in range(n)]
    if n >= 2 and rng.random() < 0.4:
        picks[rng.randrange(n)] = picks[rng.randrange(n)]            # a duplicate
    reqs = [r for _, r in picks]
    invalid = {}
    for k, (cls, r) in enumerate(picks):
        if cls == "valid":
            continue
        if not isinstance(r, str) or cls in ("malformed", "non-string") or RV.refread(tp, r) is None:
            invalid[k] = cls
    return reqs, invalid


BAD_VALUES = ["abc", None, 2 ** 70, 1.5e300, {}, [1], object]


def gen_write_list(rng, ctx, n, with_defects):
    S, RV, sc, tp, drv = ctx["S"], ctx["RV"], ctx["sc"], ctx["tp"], ctx["drv"]
    nm = ctx["names"]
    picks = []
    for _ in range(n):
        r = rng.random()
        if r < 0.55:
            req, val = S.gen_write_requests(rng, sc, 1)[0]
            picks.append(("valid", req, RV.to_python(val)))
        elif r < 0.65:
            cls, req = S.gen_invalid_requests(rng, sc, 1)[0]
            picks.append((cls, req, rng.choice([0, 1, [1, 2, 3], "x"])))
        elif r < 0.75:                                              # a value that cannot be encoded
            req, val = S.gen_write_requests(rng, sc, 1)[0]
            kind = val[0]
            pv = RV.to_python(val)
            if is_bit_write(drv, req) or kind == "b":               # BOOLs take the truthiness of any object
                picks.append(("valid", req, pv))
            else:
                if kind == "i":
                    bad = rng.choice(["abc", None, 2 ** 70, {}, 1.5])
                elif kind in ("r", "l"):
                    bad = rng.choice(["abc", None, {}])
                elif kind == "s":
                    bad = rng.choice([5, None, {}])
                elif kind == "S":
                    bad = rng.choice([5, None, "abc"])
                elif kind == "L" and len(pv) > 1:
                    bad = rng.choice([pv[:-1], 5, None])            # too short / not a sequence
                else:
                    bad = None
                picks.append(("unencodable-value", req, bad))
        elif r < 0.83:                                              # bit writes (merged when they share a tag)
            ints = [t for t in sc.data_tags() if not S._hidden_tag(t) and t["kind"] == "a" and t["code"] in S.INTEGER]
            g = rng.choice(ints or [t for t in sc.data_tags() if not S._hidden_tag(t)])
            base = sc.full_name(g) + ("[" + ",".join("0" for _ in g["dims"]) + "]" if g["dims"] else "")
            picks.append(("bit", base + "." + str(rng.randrange(0, 8)), rng.choice([0, 1, True, False])))
        elif r < 0.90:                                              # BOOL-array writes, aligned or not
            ds = [t for t in sc.data_tags() if t["kind"] == "a" and t["code"] == S.DWORD and not S._hidden_tag(t)]
            if ds:
                g = rng.choice(ds)
                i = rng.randrange(32 * g["dims"][0])
                if rng.random() < 0.5:
                    i -= i % 32
                cnt = 32
                cls = "misaligned-bool-array-write" if i % 32 else "valid"
                if i + cnt > 32 * g["dims"][0]:
                    cls = cls if cls != "valid" else "count-beyond"
                picks.append((cls, f"{sc.full_name(g)}[{i}]{{{cnt}}}", [bool(rng.getrandbits(1)) for _ in range(cnt)]))
            else:
                picks.append(("unknown-tag", "NoSuchBools[3]{32}", [True] * 32))
        elif r < 0.95:
            picks.append((rng.choice([("unknown-tag", "NoSuch_" + rng.choice(nm)[:8], 1), ("malformed", rng.choice(nm) + "{x}", 1),
                                      ("non-string", rng.choice([5, None]), 1)])))
        elif with_defects:
            sfx = rng.choice(["[x]", "[", "{-1}", ".99", ".64", ".3"])
            picks.append(("valid" if sfx == ".3" else "malformed-index-count-or-bit", rng.choice(nm) + sfx, rng.choice([1, [1], True])))
        else:
            picks.append(("unknown-tag", "Nope", 0))
    if n >= 2 and rng.random() < 0.3:
        picks[rng.randrange(n)] = picks[rng.randrange(n)]
    args = [(req, val) for _, req, val in picks]
    invalid = {}
    for k, (cls, req, val) in enumerate(picks):
        if cls in ("unencodable-value", "misaligned-bool-array-write", "malformed", "non-string", "malformed-index-count-or-bit"):
            invalid[k] = cls
        elif cls in ("unknown-tag", "unknown-member", "index-beyond", "count-beyond"):
            if not isinstance(req, str) or RV.refread(tp, req) is None:
                invalid[k] = cls
    return args, invalid


SERVICE_OF = {"read": {"S": 0x4C, "M": 0x4C, "F": 0x52}, "write": {"S": 0x4D, "M": 0x4D, "F": 0x53, "R": 0x4E}}


def pick_injection(rng, ctx, op, args):
    """dry-run the call to learn which services it sends, then choose (nth, service, status, ext) that will fire"""
    if op == "write":
        restore_memory(ctx)
    impl, rec = call_impl(ctx["drv"], op, args)
    if impl[0] != "ok":
        return None
    counts = collections.Counter()
    for kind, ids in rec.plan():
        counts[SERVICE_OF[op].get(kind)] += len(ids) if kind == "M" else 1
    counts.pop(None, None)
    if not counts:
        return None
    svc = rng.choice(sorted(counts))
    return (rng.randrange(counts[svc]), svc, rng.choice([0x04, 0x05, 0x08, 0x1E, 0xFF]), 0x2105)


def injected_calls(R, rng, ctx, op, n_calls, gen):
    tp = ctx["tp"]
    for _ in range(n_calls):
        n = rng.choice([1, 2, 4, 9])
        args, invalid = gen(rng, ctx, n, False)
        inj = pick_injection(rng, ctx, op, args)
        if inj is None:
            continue
        res = check_call(R, ctx, op, args, invalid, injected=inj)
        fired = not tp.injections()
        R.count("injected", f"{op}:svc=0x{inj[1]:02x}:status=0x{inj[2]:02x}:{'fired' if fired else 'pending'}")
        if not fired:                                              # cannot happen after the dry run; do not go on with a loaded target
            R.notes.append(f"injection {inj} did not fire on {args!r}")
            return False
        if res is not None:
            check_isolation(R, ctx, op, args, res, injected_hit=set(range(n)))
            if not any(not t for t in res):
                fail(R, "injected error status not reported", {"scenario": ctx["id"], "op": op, "args": [encode_arg(a) for a in args], "inject": list(inj)},
                       [repr(t) for t in res], "at least one falsy Tag", f"{op}:inject")
    return True


def scenario_run(R, rng, ctx, n_calls, parse_n, with_defects):
    drv = ctx["drv"]
    R.count("scenario", f"micro800={bool(drv._micro800)} conn={drv.connection_size} ids={bool(drv._cfg['use_instance_ids'])}")
    parse_correspondence(R, rng, ctx, parse_n)
    sizes = [0, 1, 1, 2, 3, 5, 9, 20, 45]
    for _ in range(n_calls):
        n = rng.choice(sizes)
        reqs, invalid = gen_read_list(rng, ctx, n, with_defects and rng.random() < 0.3)
        res = check_call(R, ctx, "read", reqs, invalid)
        if res is not None and n:
            check_isolation(R, ctx, "read", reqs, res)
    ok = injected_calls(R, rng, ctx, "read", max(1, n_calls // 3), gen_read_list)
    ctx["alone"] = {}
    wsizes = [0, 1, 1, 2, 3, 5, 9, 16]
    for _ in range(n_calls if ok else 0):
        n = rng.choice(wsizes)
        args, invalid = gen_write_list(rng, ctx, n, with_defects and rng.random() < 0.3)
        res = check_call(R, ctx, "write", args, invalid)
        if res is not None and n:
            check_isolation(R, ctx, "write", args, res)
    if ok:
        injected_calls(R, rng, ctx, "write", max(1, n_calls // 3), gen_write_list)
    restore_memory(ctx)


# ------------------------------------------------------------------ corpus / replay
def run_case(R, case):
    """a stored case: {"scenario": "fixed" | "fixed-micro800" | ["seed", n], "op", "args", "inject"}"""
    import scenarios as S
    scn = case.get("scenario", "fixed")
    if isinstance(scn, list):
        sc = S.gen_scenario(random.Random(scn[1]))
        if case.get("micro800"):
            sc.cfg["product_name"] = b"2080-LC50-48QWB"
    else:
        sc = fixed_scenario(S, micro800=(scn == "fixed-micro800"))
    ctx = open_ctx(sc, scn)
    try:
        args = [decode_arg(a) for a in case["args"]]
        if case["op"] == "write":
            args = [tuple(a) if isinstance(a, (list, tuple)) else a for a in args]
        inj = tuple(case["inject"]) if case.get("inject") else None
        res = check_call(R, ctx, case["op"], args, {int(k): v for k, v in case.get("invalid", {}).items()}, injected=inj)
        if res is not None and args and not inj:
            check_isolation(R, ctx, case["op"], args, res)
    finally:
        close_ctx(ctx)


def run_corpus(R):
    d = os.path.join(fw.VERIF, "corpus", "C03")
    if not os.path.isdir(d):
        return
    for fn in sorted(os.listdir(d)):
        if fn.endswith(".json"):
            for case in json.load(open(os.path.join(d, fn))):
                R.count("corpus", fn)
                run_case(R, case)


def run(R, escalate=False):
    import scenarios as S
    import logging
    logging.disable(logging.CRITICAL)
    R.rule = ("read()/write() of the real LogixDriver against the live reference target: no exception, one Tag per request in order "
              "with its name, falsy + non-empty error for requests that cannot succeed, outcome equal to the request issued alone; "
              "model parse_tag_request == _parse_tag_request and model run_read/run_write == read/write on the recorded replies")
    run_corpus(R)
    n_scen, n_calls, parse_n = (400, 12, 60) if R.tier == "thorough" else ((120, 8, 40) if escalate else (40, 7, 40))
    try:
        changed = sorted(k for k, v in source_hashes().items() if SOURCE_PINS.get(k) != v)
    except Exception as e:                                         # a modelled function is gone: search harder
        changed = [f"unreadable: {e!r}"]
    if changed:
        R.notes.append("modelled functions changed since the models were reviewed (search enlarged): " + ", ".join(changed))
        R.count("source_changed", len(changed))
        if not escalate and R.tier != "thorough":
            n_scen *= 3
    for k in range(n_scen):
        rng = random.Random(R.rng.randrange(1 << 30))
        seed = rng.randrange(1 << 30)
        sc = S.gen_scenario(random.Random(seed))
        micro = rng.random() < 0.25
        if micro:
            sc.cfg["product_name"] = b"2080-LC50-48QWB"
        try:
            ctx = open_ctx(sc, ["seed", seed])
        except Exception as e:                                     # the upload is C05's subject
            R.notes.append(f"scenario {seed}: open() failed: {e!r}")
            R.count("scenario", "open-failed")
            continue
        try:
            scenario_run(R, rng, ctx, n_calls, parse_n, with_defects=True)
        finally:
            close_ctx(ctx)
    R.notes.append("values of Tags are compared through repr(); float NaNs compare equal by text")


def replay(R, rp):
    f = rp.get("failure", {})
    case = f.get("case", {})
    if "op" in case and "args" in case:
        run_case(R, case)
    else:
        run(R, escalate=True)
