"""C19 — code tables are total, bidirectional, case-insensitive lookups.
Correspondence: Model/EnumMap.v (extracted) vs pycomm3.map.MapMeta on every table, every key of the
merged map, every casing class, absent keys, defaults.  Oracle: the statement itself evaluated on
the implementation's tables (no model involved)."""
import importlib
import pkgutil

import framework as fw

ASSUMPTIONS = [
    "ASCII member names (str.lower/upper modelled for A-Z/a-z only)",
    "objects other than str/bytes/int used as member values are compared by identity",
]


def tables():
    import pycomm3
    from pycomm3.map import EnumMap
    seen = {}
    for m in pkgutil.walk_packages(pycomm3.__path__, "pycomm3."):
        mod = importlib.import_module(m.name)
        for n, o in vars(mod).items():
            if isinstance(o, type) and issubclass(o, EnumMap) and o is not EnumMap:
                seen.setdefault(o.__name__, o)
    return dict(sorted(seen.items()))


def members_of(cls):
    return [(k, v) for k, v in cls.__dict__.items()
            if not k.startswith("_") and not isinstance(v, (classmethod, staticmethod))]


def casings(name, rng, k):
    out = [name, name.lower(), name.upper(), name.title(), name.swapcase()]
    for _ in range(k):
        out.append("".join(c.upper() if rng.random() < 0.5 else c.lower() for c in name))
    return list(dict.fromkeys(out))


class Wire:
    """Python key/value <-> wire tokens, per table (identity objects are named Table.member)."""

    def __init__(self, tname, cls):
        self.tname = tname
        self.ids = {}
        for n, v in members_of(cls):
            if not isinstance(v, (str, bytes, int, type)):
                self.ids[id(v)] = f"{tname}.{n}"

    def enc(self, k):
        if isinstance(k, bool):
            raise ValueError("bool key")
        if isinstance(k, str):
            return ["s", fw.t_text(k)]
        if isinstance(k, bytes):
            return ["b", fw.t_bytes(k)]
        if isinstance(k, int):
            return ["i", fw.t_int(k)]
        if isinstance(k, type):
            return ["o", fw.t_text(k.__name__)]
        if id(k) in self.ids:
            return ["o", fw.t_text(self.ids[id(k)])]
        raise ValueError("unencodable key")

    def canon(self, v):
        """canonical form of an implementation result, comparable with parsed model output"""
        if v is None:
            return ["none"]
        e = self.enc(v)
        return [e[0], fw.parse_tok(e[1])]


def vkey_indep(tname, v):
    """the documented reverse key: the type's CIP code for DataTypes, the value itself otherwise"""
    if tname == "DataTypes":
        return v.code
    return v


def run(R, escalate=False):
    thorough = R.tier == "thorough" or escalate
    rng = R.rng
    T = tables()
    R.rule = ("every exported EnumMap table x (every key of the runtime merged map, every member name in lower/upper/title/"
              "swap/random casings, every reverse key, absent keys of each kind, get defaults) + status bytes 0..255(+); "
              "non-trivial = distinct (table, operation, key) whose lookup succeeds or exercises a default/KeyError path")
    R.exhaustive = True
    mp = fw.ModelProc("C19")
    try:
        for tname, cls in T.items():
            w = Wire(tname, cls)
            mem = members_of(cls)
            R.count("tables", tname, len(mem))
            keys = []
            for n, v in mem:
                keys += casings(n, rng, 20 if thorough else 3)
                try:
                    keys.append(vkey_indep(tname, v))
                except Exception:
                    pass
                keys.append(v)
            keys += list(cls._members_.keys())
            keys += ["", "no_such_member", "NO_SUCH", b"", b"\xee", b"\x00\x00\x00", -1, 0, 1, 0xC1, 0x1FF, 65536]
            # dedupe keeping kinds apart (1 == True is not an issue: no bools)
            seen, ukeys = set(), []
            for k in keys:
                try:
                    tag = (type(k).__name__, k if isinstance(k, (str, bytes, int)) else id(k))
                    w.enc(k)
                except (ValueError, TypeError):
                    continue
                if tag not in seen:
                    seen.add(tag)
                    ukeys.append(k)
            lines, expect = [], []
            for k in ukeys:
                kt = w.enc(k)
                # implementation
                try:
                    gi = w.canon(cls[k])
                except KeyError:
                    gi = ["none"]
                except Exception as e:  # anything else is itself a property failure
                    gi = ["EXC", type(e).__name__]
                    R.fail("getitem raised a foreign exception", [tname, repr(k)], type(e).__name__, "value or KeyError", f"{tname}:foreign")
                g = w.canon(cls.get(k))
                dflt = "zz_default"
                gd = w.canon(cls.get(k, dflt))
                c = [1 if k in cls else 0]
                for op, exp, extra in (("getitem", gi, []), ("get", g, []), ("getd", gd, ["s", fw.t_text(dflt)]), ("contains", c, [])):
                    lines.append(" ".join([op, fw.t_text(tname)] + kt + extra))
                    expect.append((op, k, exp))
            outs = mp.batch(lines)
            for (op, k, exp), o in zip(expect, outs):
                got = [str(x) if isinstance(x, fw.Sym) else x for x in fw.parse_line(o)]
                R.corr_checked += 1
                R.case([tname, op, repr(k)], nontrivial=True)
                R.count("ops", op)
                R.count("key_kinds", type(k).__name__)
                if got != exp:
                    R.disagree(f"EnumMap.{op}", [tname, op, repr(k)], got, exp)

            # ---------------- oracle on the implementation: the statement itself
            bidir = cls.__dict__.get("_bidirectional_", True)
            capsonly = bool(cls.__dict__.get("_return_caps_only_"))
            for n, v in mem:
                for s in casings(n, rng, 20 if thorough else 3):
                    R.evaluations += 1
                    try:
                        ok = (cls[s] is v or cls[s] == v) and (cls.get(s) is v or cls.get(s) == v) and (s in cls)
                    except Exception as e:
                        ok = False
                    if not ok:
                        R.fail("member name does not resolve to its value in some letter case", [tname, n, s], "lookup failed/mismatch", repr(v), f"{tname}:by_name")
                if bidir:
                    vk = vkey_indep(tname, v)
                    R.evaluations += 1
                    try:
                        back = cls[vk]
                        ok = isinstance(back, str) and vkey_indep(tname, cls[back]) == vk and (vk in cls) and cls.get(vk) == back
                        if capsonly:
                            ok = ok and back == back.upper()
                        ok = ok and back.lower() in [m.lower() for m, _ in mem]
                    except Exception as e:
                        ok, back = False, repr(e)
                    if not ok:
                        R.fail("code does not resolve back to a member name carrying that code", [tname, n, repr(vk)], repr(back), "a member name with that code", f"{tname}:by_code")
            for k in ukeys:
                R.evaluations += 1
                try:
                    present = k in cls
                    try:
                        cls[k]
                        gi_ok = True
                    except KeyError:
                        gi_ok = False
                    g_ok = cls.get(k, None) is not None
                    if not (present == gi_ok == g_ok):
                        R.fail("membership / item access / get disagree", [tname, repr(k)], [present, gi_ok, g_ok], "all equal", f"{tname}:consistency")
                except Exception as e:
                    R.fail("lookup raised a foreign exception", [tname, repr(k)], type(e).__name__, "no exception but KeyError", f"{tname}:foreign")

        # DataTypes.get_type and status texts
        from pycomm3.cip import DataTypes
        from pycomm3.packets.util import get_service_status
        from pycomm3.cip import SERVICE_STATUS
        codes = sorted({v.code for _, v in members_of(DataTypes)} | set(range(0xC0, 0xE0)) | {0, 1, 255, 256})
        for c in codes:
            impl = DataTypes.get_type(c)
            got = mp.ask("gettype", fw.t_int(c))
            exp = ["none"] if impl is None else ["o", impl.__name__]
            got = [str(x) if isinstance(x, fw.Sym) else x for x in got]
            R.corr_checked += 1
            R.case(["gettype", c])
            if got != exp:
                R.disagree("DataTypes.get_type", ["gettype", c], got, exp)
        for _, v in members_of(DataTypes):
            t = DataTypes.get_type(v.code)
            R.evaluations += 1
            if t is None or t.code != v.code:
                R.fail("type code does not resolve to a type carrying that code", ["DataTypes.get_type", v.__name__, v.code], repr(t), f"type with code {v.code}", "DataTypes:get_type")
        rng_status = list(range(256)) + ([256, 257, 4095, 65535, 1 << 20] if thorough else [256, 4095])
        for s in rng_status:
            impl = get_service_status(s)
            got = mp.ask("status", fw.t_int(s))
            R.corr_checked += 1
            R.case(["status", s])
            R.count("status_known", s in SERVICE_STATUS)
            if got != [impl]:
                R.disagree("get_service_status", ["status", s], got, impl)
            if s < 256:
                ok = isinstance(impl, str) and impl != "" and (s in SERVICE_STATUS or ("%02x" % s) in impl.lower())
                if not ok:
                    R.fail("status byte without text / fallback without the hex code", ["status", s], impl, "non-empty text containing %02x" % s, "status_text")
    finally:
        mp.close()


def replay(R, rp):
    run(R, escalate=True)
