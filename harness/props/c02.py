"""C02 — tag writes change exactly the addressed data, exactly once.

Tie (model <-> code), all through bin/modelrun_c02 (Model/LogixWrite.v extracted):
  * `enc`     type_class.encode(value) of the type classes the REAL upload built (elementary, Array,
              BOOL arrays as DWORDs, StructTag with offsets / bit members / private hosts,
              FixedSizeString with capacity) and of synthetic ones, on valid and malformed values;
  * `encval`  logix_driver.encode_value on real parsed requests (alignment rule, element arithmetic,
              truncation, too-short lists, scalars, bytes passthrough);
  * `rmw`     ReadModifyWriteRequestPacket.set_bit sequences -> OR / AND masks;
  * `write`   whole `LogixDriver.write` calls against the live reference target: every connected data
              item the real driver put on the wire vs the model's, byte for byte (sequence counts
              included), and the truthiness of every returned Tag vs the model's outcome.

Oracle on the IMPLEMENTATION (Spec side only: Spec/Expect.v through `refwrite` / `refread` of
bin/modelrun_target, the target's memory and its log): for every request reported successful the
addressed bits hold the reference encoding; no bit outside the union of the addressed bits of the
successful requests changed (every other instance byte for byte); the executed write services are
exactly one transfer per successful request (fragments tile their value; bit writes: one
Read-Modify-Write per word naming only requested bits); a following read returns the written value;
a request reported failed changed nothing; the target saw no malformed / oversize request."""
import copy
import os
import re
import signal
import struct
import sys

import framework as fw

sys.path.insert(0, os.path.dirname(os.path.dirname(os.path.abspath(__file__))))
import target as T          # noqa: E402
import scenarios as S       # noqa: E402
import refview as RV        # noqa: E402

EXTRA_MODELS = ["Target"]

ASSUMPTIONS = [
    "the reference target (Spec/TargetLogix.v) and the reference interpretation (Spec/Expect.v) are the specification of the controller",
    "requests of one call that address overlapping data may be applied in any order (the final bits must be those of one of them)",
    "a fragmented transfer is one application of its request when its fragments tile the value exactly once",
    "REAL values are written as Python floats that are exactly representable in binary32; NaNs are not generated",
    "the request path denotes the addressed tag (property C09) and the request string is parsed as documented (C01/C03)",
]


class Timeout(Exception):
    pass


def _alarm(sig, frm):
    raise Timeout()


# ------------------------------------------------------------------ tokens for the model
def xname(s):
    return "x" + s.encode("latin-1").hex()


def ty_tokens(tc):
    """a pycomm3 type class / member instance -> the model's type tokens"""
    from pycomm3.cip import ArrayType, DataType
    cls = tc if isinstance(tc, type) else type(tc)
    if issubclass(cls, ArrayType):
        n = cls.length
        if not isinstance(n, int):
            raise ValueError("array length is not an int")
        return f"a {n} " + ty_tokens(cls.element_type)
    if cls.__name__ == "FixedSizeString":
        return f"f {cls.size} {getattr(cls, 'capacity', cls.size)}"
    if cls.__name__ == "StructTag":
        ms = [m for m in cls.members]
        out = f"s {cls.size} {len(ms)}"
        for m in ms:
            out += f" {xname(m.name)} {cls._offsets[m]} " + ty_tokens(m)
        out += f" {len(cls.bits)}"
        for n, (off, bit) in cls.bits.items():
            out += f" {xname(n)} {off} {bit}"
        out += f" {len(cls.private)}"
        for n in sorted(cls.private):
            out += f" {xname(n)}"
        return out
    return "e " + xname(cls.__name__)


def val_tokens(v):
    if v is None:
        return "N"
    if isinstance(v, bool):
        return f"B {1 if v else 0}"
    if isinstance(v, int):
        return f"I {v}"
    if isinstance(v, float):
        return "F %d" % struct.unpack("<Q", struct.pack("<d", v))[0]
    if isinstance(v, str):
        return "S " + (xname(v) if all(ord(c) < 256 for c in v) else fw.t_text(v))
    if isinstance(v, (bytes, bytearray)):
        return "Y " + fw.t_bytes(v)
    if isinstance(v, (list, tuple)):
        return f"L {len(v)}" + "".join(" " + val_tokens(e) for e in v)
    if isinstance(v, dict):
        return f"D {len(v)}" + "".join(f" {xname(k)} {val_tokens(e)}" for k, e in v.items())
    raise ValueError(f"cannot send {v!r}")


def req_tokens(i, p, value):
    """a parsed request (dict of _parse_tag_request) + its value -> Q tokens"""
    if p.get("error"):
        return f"q 1 {i}"
    info = p["tag_info"]
    st = info["tag_type"] == "struct"
    handle = info["data_type"]["template"]["structure_handle"] if st else 0
    inst = info.get("instance_id")
    return (f"q 0 {i} {xname(p['plc_tag'])} {-1 if p['bit'] is None else p['bit']} {p['elements']} "
            f"{-1 if p['bool_elements'] is None else p['bool_elements']} {1 if st else 0} {xname(info['data_type_name'])} "
            f"{handle} {-1 if not inst else inst} {ty_tokens(info['type_class'])} {val_tokens(value)}")


EXN_CODE = {"DataError": 1, "BufferEmptyError": 2, "CommError": 3, "RequestError": 4, "ResponseError": 5, "TypeError": 10,
            "ValueError": 11, "KeyError": 12, "IndexError": 13, "error": 14, "OverflowError": 15, "AttributeError": 16,
            "StopIteration": 17, "UnicodeEncodeError": 18, "UnicodeError": 18, "ZeroDivisionError": 19, "NotImplementedError": 20}


def canon_model(ans):
    k = str(ans[0])
    if k == "ok":
        return ("ok",) + tuple(ans[1:])
    if k == "err":
        return ("err", ans[1])
    return ("PROTO",) + tuple(str(a) for a in ans)


def canon_impl(fn):
    try:
        r = fn()
    except Exception as e:            # noqa: BLE001
        return ("err", EXN_CODE.get(type(e).__name__, -1))
    return ("ok",) + (tuple(r) if isinstance(r, tuple) else (r,))


# ------------------------------------------------------------------ random python values for a type class
def rand_py(rng, tc, wrong=0.0):
    """a Python value for type_class.encode(); `wrong`: probability of a malformed value at each level"""
    from pycomm3.cip import ArrayType
    cls = tc if isinstance(tc, type) else type(tc)
    if rng.random() < wrong:
        return rng.choice([None, "text", 3.5, [], {}, -1, 1 << 70, b"\x01\x02", [1, 2, 3], {"x": 1}, True])
    if issubclass(cls, ArrayType):
        n = cls.length
        et = cls.element_type
        ecls = et if isinstance(et, type) else type(et)
        if getattr(ecls, "host_type", None) is not None:
            k = n * ecls.size * 8
            if rng.random() < wrong:
                k = max(0, k + rng.choice([-1, 1, -8, 8, -k]))
            return [rng.random() < 0.5 for _ in range(k)]
        k = n
        if rng.random() < wrong:
            k = max(0, k + rng.choice([-1, 1, 2, -k]))
        return [rand_py(rng, et, wrong) for _ in range(k)]
    if cls.__name__ == "FixedSizeString":
        cap = getattr(cls, "capacity", cls.size)
        k = rng.choice([0, 1, cap, max(0, cap - 1), cap + 1, cls.size, cls.size + 3, rng.randint(0, cls.size + 6)])
        s = "".join(chr(rng.randint(32, 126)) for _ in range(k))
        if rng.random() < wrong and s:
            s = s[:-1] + rng.choice(["Ā", "\xe9", "€"])
        return s
    if cls.__name__ == "StructTag":
        d = {}
        for m in cls.members:
            if m.name in cls.private and rng.random() < 0.8:
                continue
            d[m.name] = rand_py(rng, m, wrong)
        for n in cls.bits:
            d[n] = rng.choice([True, False, 1, 0])
        if rng.random() < wrong and d:
            d.pop(rng.choice(list(d)))
        if rng.random() < 0.1:
            d["extra_key"] = 5
        return d
    name = cls.__name__
    if name == "BOOL":
        return rng.choice([True, False, 0, 1, 7])
    if getattr(cls, "host_type", None) is not None:
        return [rng.random() < 0.5 for _ in range(cls.size * 8)]
    fmt = getattr(cls, "_format", "")
    if fmt in ("<f", "<d"):
        if fmt == "<f":
            while True:
                bits = rng.choice([0, 0x3FC00000, 0xC0100000, 0x7F7FFFFF, 1, rng.randrange(1 << 32)])
                if (bits >> 23) & 0xFF != 0xFF:
                    break
            v = RV.f32(bits)
            if rng.random() < 0.15:
                v = rng.choice([1e39, -1e39, 1.0000001, 0.1, 3.4028235677973366e+38, float(rng.randint(-10**6, 10**6)), rng.uniform(-1e3, 1e3)])
        else:
            while True:
                bits = rng.choice([0, 0x3FF8000000000000, rng.randrange(1 << 64)])
                if (bits >> 52) & 0x7FF != 0x7FF:
                    break
            v = RV.f64(bits)
        if rng.random() < 0.1:
            return rng.choice([0, 1, -7, 16777217, 1 << 62, True])
        return v
    if fmt:
        w = cls.size * 8
        signed = fmt[1].islower()
        lo, hi = (-(1 << (w - 1)), (1 << (w - 1)) - 1) if signed else (0, (1 << w) - 1)
        v = rng.choice([0, 1, lo, hi, rng.randint(lo, hi)])
        if rng.random() < max(wrong, 0.03):
            v = rng.choice([lo - 1, hi + 1, -(1 << 70), 1 << 70])
        return v
    return rng.choice([0, "x", None])


# ------------------------------------------------------------------ scenario helpers
def load(tp, sc):
    tp.reset()
    tp.lines(sc.cfg_lines())
    tp.lines(sc.lines())
    wf = tp.ask("wf")
    if wf[1:3] != [1, 1]:
        raise RuntimeError(f"generated scenario is not well-formed: {wf}")


def fixed_scenario():
    """a small hand-made project (corpus cases refer to it; independent of the random generator)"""
    sc = S.Scenario()
    sc.templates.append(dict(S.string_template(0xFCE, "ASCIISTRING82", 82, 0x0FCE, None), depth=1))
    sc.templates.append(dict(S.string_template(0x201, "STR5", 5, 0x1234, "n1A2B"), depth=1))
    sc.templates.append(dict(S.timer_template(0xF83, 0x0F83), depth=1))
    udt = {"id": 0x2A0, "name": "udtMix", "tail": "nBEEF", "handle": 0x4321, "size": 24, "defsize": 0, "depth": 2, "members": [
        {"name": "ZZZZZZZZZZudtMix0", "kind": "a", "code": S.SINT, "arr": 0, "off": 0, "bit": 0, "hidden": True},
        {"name": "bRun", "kind": "a", "code": S.BOOL, "arr": 0, "off": 0, "bit": 0, "hidden": False},
        {"name": "bFault", "kind": "a", "code": S.BOOL, "arr": 0, "off": 0, "bit": 5, "hidden": False},
        {"name": "Count", "kind": "a", "code": S.INT, "arr": 0, "off": 2, "bit": 0, "hidden": False},
        {"name": "Vals", "kind": "a", "code": S.DINT, "arr": 2, "off": 4, "bit": 0, "hidden": False},
        {"name": "Name", "kind": "s", "code": 0x201, "arr": 0, "off": 12, "bit": 0, "hidden": False}]}
    sc.templates.append(udt)
    inst = [10]

    def mk(name, kind, code, dims=(), bitpos=0):
        inst[0] += 7
        return {"name": name, "inst": inst[0], "prog": None, "kind": kind, "code": code, "dims": list(dims), "bitpos": bitpos,
                "system": False, "access": 0, "attr3": 0, "attr5": 0, "attr6": S.BASE_TAG_BIT}
    for n, (c, _) in S.ATOMS.items():
        if n not in ("BOOL", "DWORD"):
            sc.tags.append(mk("t" + n, "a", c))
    sc.tags.append(mk("tBOOL", "a", S.BOOL, bitpos=3))
    sc.tags.append(mk("aDINT", "a", S.DINT, [10]))
    sc.tags.append(mk("aINT2", "a", S.INT, [3, 4]))
    sc.tags.append(mk("aSINTbig", "a", S.SINT, [9000]))
    sc.tags.append(mk("aDINTbig", "a", S.DINT, [2200]))
    sc.tags.append(mk("bools", "a", S.DWORD, [3]))
    sc.tags.append(mk("str1", "s", 0xFCE))
    sc.tags.append(mk("str5", "s", 0x201))
    sc.tags.append(mk("tmr", "s", 0xF83))
    sc.tags.append(mk("mix", "s", 0x2A0))
    sc.tags.append(mk("mixes", "s", 0x2A0, [3]))
    # a structure whose BOOL member is listed BEFORE the visible member it overlays (outside Proofs/WriteStruct.ty_guard;
    # Props/C02.C02_full_refuted): code and reference agree on every dict that does not contradict itself
    sc.templates.append({"id": 0x2B0, "name": "modT", "tail": "nA1B2", "handle": 0x1235, "size": 4, "defsize": 0, "depth": 1, "members": [
        {"name": "Pt00", "kind": "a", "code": S.BOOL, "arr": 0, "off": 0, "bit": 0, "hidden": False},
        {"name": "Data", "kind": "a", "code": S.INT, "arr": 0, "off": 0, "bit": 0, "hidden": False},
        {"name": "Pad", "kind": "a", "code": S.INT, "arr": 0, "off": 2, "bit": 0, "hidden": False}]})
    sc.tags.append(mk("modv", "s", 0x2B0))
    for g in sc.data_tags():
        sc.mem[g["inst"]] = bytes((g["inst"] * 31 + k * 7) & 0xFF for k in range(sc.tag_size(g)))
    sc.cfg["rev_major"] = 32
    sc.cfg["accept_large_fo"] = 1
    return sc


def all_mem(tp):
    out = {}
    for g in RV._groups(tp.ask("dump mem")):
        out[g[0]] = bytes(g[1])
    return out


def counting(gen, box):
    for v in gen:
        box[0] = v
        yield v


def open_scenario(sc, micro=False):
    from pycomm3 import LogixDriver
    if micro:
        sc.cfg["product_name"] = b"2080-LC50-24QWB"
        sc.cfg["multi_service"] = 0
    tp = T.TargetProc("target")
    load(tp, sc)
    ref = T.TargetProc("target")          # scratch copy of the project: reference computations only
    ref.lines(sc.lines())
    drv = T.open_driver(LogixDriver, "10.0.0.1", tp, init_program_tags=not micro)
    box = [0]
    # count what the driver's generator yields without touching /repo (a generator wrapping it)
    first = next(drv._sequence)
    box[0] = first
    drv._sequence = counting(drv._sequence, box)
    return tp, ref, drv, box


# ------------------------------------------------------------------ Spec-side address of a request
def addressed(ref, sc, req, val, cache):
    """-> None (no reference) or (inst, A, V, nbytes): A = mask of the addressed bits of the instance
    image (bit 8*k+j = bit j of byte k), V = the bits the reference stores there"""
    key = (req, RV.to_tokens(val))
    if key in cache:
        return cache[key]
    r0 = None
    a = RV.refwrite(ref, req, val)
    if a is not None:
        inst, _ = a
        n = len(sc.mem[inst])
        ref.ask(f"mem {inst} {fw.t_bytes(bytes(n))}")
        i0 = RV.refwrite(ref, req, val)[1]
        ref.ask(f"mem {inst} {fw.t_bytes(bytes([255]) * n)}")
        i1 = RV.refwrite(ref, req, val)[1]
        z0, z1 = int.from_bytes(i0, "little"), int.from_bytes(i1, "little")
        A = ~(z0 ^ z1) & ((1 << (8 * n)) - 1)
        r0 = (inst, A, z0 & A, n)
    cache[key] = r0
    return r0


def byte_span(A, n):
    """(first byte, length) of the bytes that hold an addressed bit"""
    bs = A.to_bytes(n, "little")
    idx = [k for k, b in enumerate(bs) if b]
    return (idx[0], idx[-1] - idx[0] + 1) if idx else (0, 0)


def is_bit_request(req):
    """a bit of an integer (`.n`) or one element of a BOOL array: served by Read-Modify-Write"""
    return bool(re.search(r"\.\d+$", req))


# ------------------------------------------------------------------ wire helpers
def payload(frame):
    """the connected data item of a SendUnitData frame (sequence count + message-router request)"""
    assert frame[0:2] == b"\x70\x00" and len(frame) >= 46, frame[:4]
    return frame[44:]


def reply_statuses(frame):
    """general statuses of the service replies in a SendUnitData reply (embedded ones of a 0x8A)"""
    if frame is None or len(frame) < 50:
        return []
    mr = frame[46:]
    svc, st, ext = mr[0], mr[2], mr[3]
    if svc != 0x8A:
        return [st]
    d = mr[4 + 2 * ext:]
    if len(d) < 2:
        return []
    n = struct.unpack_from("<H", d, 0)[0]
    offs = [struct.unpack_from("<H", d, 2 + 2 * k)[0] for k in range(n) if 2 + 2 * k + 2 <= len(d)]
    return [d[o + 2] for o in offs if o + 2 < len(d)]


def parse_model_write(ans):
    """tokens of the model's `write` answer -> ('err', code) | ('ok', packets, failed ids)"""
    if str(ans[0]) == "err":
        return ("err", ans[1])
    if str(ans[0]) != "ok":
        return ("PROTO", [str(a) for a in ans[:6]])
    n, i, pk = ans[1], 2, []
    for _ in range(n):
        k = str(ans[i])
        if k == "M":
            cnt = ans[i + 2]
            pk.append(("M", ans[i + 1], list(ans[i + 3:i + 3 + cnt]), [ans[i + 3 + cnt]]))
            i += 4 + cnt
        elif k == "S":
            pk.append(("S", None, [ans[i + 1]], [ans[i + 2]]))
            i += 3
        elif k == "F":
            cnt = ans[i + 2]
            pk.append(("F", None, [ans[i + 1]], list(ans[i + 3:i + 3 + cnt])))
            i += 3 + cnt
        elif k == "R":
            cnt = ans[i + 2]
            pk.append(("R", ans[i + 1], list(ans[i + 3:i + 3 + cnt]), [ans[i + 3 + cnt]]))
            i += 4 + cnt
        else:
            return ("PROTO", [str(a) for a in ans[i:i + 4]])
    assert str(ans[i]) == "E", ans[i]
    return ("ok", pk, list(ans[i + 1:]))


# ------------------------------------------------------------------ one write call: correspondence + oracle
def check_call(R, mp, ctx, pairs, refs, label, inject=None, check_read=True):
    """pairs: [(request string, python value)] as given to write(); refs: parallel list of the tagged
    reference value (None: no reference = the request is invalid / not comparable)."""
    tp, ref, drv, box, sc, cache = ctx["tp"], ctx["ref"], ctx["drv"], ctx["box"], ctx["sc"], ctx["cache"]
    fs = drv.fakesock
    conn, micro = drv.connection_size, drv._micro800
    case = {"call": label, "conn": conn, "micro800": micro, "instance_ids": drv._cfg["use_instance_ids"],
            "scenario": ctx["sid"], "requests": [(t, _short(v)) for t, v in pairs[:10]], "n": len(pairs)}
    if ctx.get("history"):
        case["history_before_this_call"] = list(ctx["history"])[-6:]
    before = all_mem(tp)
    # ---- the Spec side: address and reference bits of every request, on the memory before the call
    for inst, img in before.items():
        ref.ask(f"mem {inst} {fw.t_bytes(img)}")
    adr = [addressed(ref, sc, t, rv, cache) if rv is not None else None for (t, _), rv in zip(pairs, refs)]
    tags = [t for t, _ in pairs]
    parsed = drv._parse_requested_tags(tags, "w")
    qtoks = [req_tokens(i, parsed[i], pairs[i][1]) for i in range(len(pairs))]
    v0 = box[0] + 1
    if inject:
        tp.inject(*inject)
    m0, s0 = tp.log_size(), len(fs.sent)
    signal.alarm(60)
    try:
        try:
            res = drv.write(*pairs)
            raised = None
        except Timeout:
            raise
        except Exception as e:        # noqa: BLE001
            res, raised = None, e
    finally:
        signal.alarm(0)
    if inject:
        for _ in tp.injections():     # drop an injection that did not fire
            tp.ask("inject clear") if False else None
    evs = tp.log(m0)
    frames, replies = fs.sent[s0:], fs.replies[s0:]
    after = all_mem(tp)
    results = None if raised else (res if isinstance(res, list) else [res])
    R.case(("w", ctx["sid"], conn, micro, tuple(tags), tuple(val_tokens(v)[:60] for _, v in pairs)), nontrivial=bool(frames))
    R.count("requests_per_call", min(len(pairs), 12))

    # ---- correspondence: frames and outcomes
    mw = parse_model_write(mp.ask("write", str(conn), "1" if micro else "0", "1" if drv._cfg["use_instance_ids"] else "0", str(v0), *qtoks))
    R.corr_checked += 1
    rcode = None if raised is None else EXN_CODE.get(type(raised).__name__, -1)
    if mw[0] == "PROTO":
        R.disagree("write: model protocol", case, mw, None)
    elif mw[0] == "err":
        R.count("call_outcome", "raises while building / sending")
        if rcode != mw[1]:
            R.disagree("write: exception", case, mw, repr(raised))
    else:
        model_msgs = [m for p in mw[1] for m in p[3]]
        real_msgs = [payload(f) for f in frames]
        for p in mw[1]:
            R.count("packet_kind", p[0] + ("-micro" if micro else ""))
            if p[0] == "F":
                R.count("fragments_per_transfer", min(len(p[3]), 12))
            if p[0] == "R":
                R.count("bits_per_rmw", min(len(p[2]), 8))
        if model_msgs != real_msgs:
            k = next((i for i, (a, b) in enumerate(zip(model_msgs, real_msgs)) if a != b), min(len(model_msgs), len(real_msgs)))
            R.disagree("write: frames", {**case, "first_difference_at_frame": k},
                       [len(model_msgs)] + [m.hex()[:160] for m in model_msgs[k:k + 2]],
                       [len(real_msgs)] + [m.hex()[:160] for m in real_msgs[k:k + 2]])
        else:
            # statuses per packet -> the model's outcome of every request
            toks, pos = [], 0
            for p in mw[1]:
                sts = []
                for _ in p[3]:
                    sts += reply_statuses(replies[pos]) if pos < len(replies) else []
                    pos += 1
                toks += [str(len(sts))] + [str(s) for s in sts]
            mres = mp.ask("results", *toks)
            if str(mres[0]) == "err":
                R.count("call_outcome", "raises after sending")
                if rcode != mres[1]:
                    R.disagree("write: exception after sending", case, list(mres), repr(raised))
            elif raised is not None:
                R.disagree("write: exception", case, "no exception", repr(raised))
            else:
                R.count("call_outcome", "returns")
                mok = {mres[i]: bool(mres[i + 1]) for i in range(1, len(mres), 2)}
                iok = {i: bool(r) for i, r in enumerate(results)}
                if mok != iok:
                    R.disagree("write: outcomes", case, mok, iok)
    if raised is not None:
        R.notes.append(f"write raised {raised!r} on {case['requests'][:3]} (micro800={micro})") if len(R.notes) < 6 else None
        # every requested write must be reported: a call whose requests are all valid writes (each has a
        # reference effect) must return its Tags, not raise (the writes may already have been applied)
        if refs and all(a is not None for a in adr):
            R.fail("write() raised instead of reporting the outcome of valid writes", case, repr(raised), "one Tag per request",
                   f"write:raised:{type(raised).__name__}:" + ("micro800" if micro else "logix"))
        return None

    # ---- oracle
    oracle_call(R, ctx, case, pairs, refs, adr, results, before, after, evs, frames)
    if check_read:
        oracle_read_back(R, ctx, case, pairs, refs, adr, results)
    return results


def _short(v):
    if isinstance(v, (list, tuple)) and len(v) > 6:
        return f"<{len(v)} items: {list(v[:3])!r}...>"
    if isinstance(v, (bytes, bytearray)) and len(v) > 12:
        return f"<{len(v)} bytes>"
    if isinstance(v, str) and len(v) > 24:
        return f"<str of {len(v)}: {v[:10]!r}...>"
    if isinstance(v, dict):
        return "{" + ", ".join(f"{k}: {_short(x)}" for k, x in list(v.items())[:4]) + (", ..." if len(v) > 4 else "") + "}"
    return v


def req_class(req, rv, adr):
    if adr is None:
        return "invalid"
    if re.search(r"\]\{1\}$", req) and rv[0] == "L" and len(rv[1]) == 1 and rv[1][0][0] == "b":
        return "boolarray-one-item-list"
    if is_bit_request(req):
        return "bit"
    if re.search(r"\]$", req) and adr[1] and bin(adr[1]).count("1") == 1:
        return "boolarray-element"
    k = rv[0]
    if k == "L":
        ek = rv[1][0][0] if rv[1] else "?"
        return "bools" if ek == "b" else ("struct-array" if ek in ("S", "s") else "array")
    return {"i": "int", "b": "bool", "r": "real", "l": "lreal", "s": "string", "S": "struct"}.get(k, k)


def write_shape(req, rv):
    """how the request addresses its data (the cases of Props/C02: C02_value/_struct/_string = whole tag or scalar member;
    C02_write_correct_element = one element through an array class; C02_write_correct_slice1 = `{1}`; C02_array/_slice = `{n}`)
    x what is written there"""
    m = re.search(r"\{(\d+)\}$", req)
    base = req[:m.start()] if m else req
    b2 = base.split(".", 1)[1] if base.startswith("Program:") and "." in base else base
    where = "member" if "." in b2 else "tag"
    if is_bit_request(req):
        return where + ".bit"
    if m:
        n = int(m.group(1))
        extra = "+longer-list" if rv[0] == "L" and len(rv[1]) > n else ""
        idx = "[i]" if base.endswith("]") else ""
        addr = f"{where}{idx}{{1}}" if n == 1 else f"{where}{idx}{{n}}"
        ek = rv[1][0][0] if rv[0] == "L" and rv[1] else rv[0]
    else:
        extra = ""
        addr = where + ("[i]" if base.endswith("]") else "")
        ek = rv[0]
    what = {"i": "int", "r": "real", "l": "lreal", "b": "bool", "s": "string", "S": "struct-dict"}.get(ek, ek)
    if ek == "S":
        def has_bool_array(v):
            return any((e[0] == "L" and e[1] and e[1][0][0] == "b") or (e[0] == "S" and has_bool_array(e)) or
                       (e[0] == "L" and e[1] and e[1][0][0] == "S" and any(has_bool_array(x) for x in e[1])) for _, e in v[1])
        sv = rv[1][0] if rv[0] == "L" else rv
        if has_bool_array(sv):
            what += "+bool-array-member"
    return f"{addr}:{what}{extra}"


def transfers_of(evs):
    """the write services the target EXECUTED, from its log: [(service, inst, at, stored bytes, request data)],
    fragments of one transfer (offsets continuing) merged: -> (plain transfers, rmw events, problems)"""
    plain, rmw, problems = [], [], []
    last_req = None
    open_frag = {}                    # inst -> transfer under construction
    for e in evs:
        if e["ev"] == "request":
            last_req = e
        elif e["ev"] == "app" and e["tag"] == 1:
            inst, at, svc = e["args"][:3]
            data = bytes(e["data"])
            if svc == 0x4E:
                d = last_req["data"]
                size = struct.unpack_from("<H", d, 0)[0]
                orm = int.from_bytes(d[2:2 + size], "little")
                andm = int.from_bytes(d[2 + size:2 + 2 * size], "little")
                rmw.append({"inst": inst, "at": at, "size": size, "or": orm, "and": andm, "data": data})
            elif svc == 0x53:
                d = last_req["data"]
                tl = 4 if d[:2] == b"\xa0\x02" else 2
                off = struct.unpack_from("<I", d, tl + 2)[0]
                if off == 0:
                    t = {"svc": svc, "inst": inst, "at": at, "data": data, "frags": 1}
                    plain.append(t)
                    open_frag[inst] = t
                else:
                    t = open_frag.get(inst)
                    if t is None or t["at"] + len(t["data"]) != at or off != len(t["data"]):
                        problems.append(f"fragment at offset {off} (byte {at}) of instance {inst} does not continue the transfer")
                        plain.append({"svc": svc, "inst": inst, "at": at, "data": data, "frags": 1})
                    else:
                        t["data"] += data
                        t["frags"] += 1
            else:
                plain.append({"svc": svc, "inst": inst, "at": at, "data": data, "frags": 1})
    return plain, rmw, problems


def oracle_call(R, ctx, case, pairs, refs, adr, results, before, after, evs, frames):
    sc = ctx["sc"]
    if len(results) != len(pairs):
        return                        # C03's statement; nothing to attribute here
    ok = [bool(r) for r in results]
    for (t, _), rv, a, o in zip(pairs, refs, adr, ok):
        cls = req_class(t, rv, a) if rv is not None else "invalid"
        R.count("request_class", cls + (":ok" if o else ":failed"))
        if rv is not None and a is not None:
            R.count("write_shape", write_shape(t, rv) + (":ok" if o else ":failed"))
    # a valid request must not be refused by the controller for being malformed / oversize
    bad = T.bad_events(evs)
    valid_only = all(a is not None for a in adr)
    for e in bad:
        if valid_only and not ctx.get("injecting"):
            R.fail("the target rejected a request of a call with only valid writes as malformed / oversize", {**case, "event": e},
                   e, "no bad event", f"write:bad-event:{e['ev']}:{e.get('why')}")
            break
    # each requested (valid) write is applied: without an injected controller error a request that has a
    # reference effect must be reported successful by a driver talking to the reference target
    if not ctx.get("injecting"):
        for i, ((t, v), rv, a, o) in enumerate(zip(pairs, refs, adr, ok)):
            if a is not None and not o and not ctx.get("expect_refusal", {}).get(i):
                R.fail("a valid write was not applied (reported failed)", {**case, "request": t, "value": _short(v)},
                       str(getattr(results[i], "error", None))[:200], "success", "write:valid-failed:" + req_class(t, rv, a))
    # ---- memory: union of the addressed bits of the successful requests
    succ = [(i, a) for i, (a, o) in enumerate(zip(adr, ok)) if o and a is not None]
    for i, (a, o) in enumerate(zip(adr, ok)):
        if o and a is None:
            # success reported for a request that addresses nothing: C03 decides; here: nothing may change
            pass
    union, okbits = {}, {}
    for i, (inst, A, V, n) in succ:
        z = int.from_bytes(after[inst], "little")
        union[inst] = union.get(inst, 0) | A
        okbits[inst] = okbits.get(inst, 0) | (A & ~(z ^ V))
    for inst, img in before.items():
        z0, z1 = int.from_bytes(img, "little"), int.from_bytes(after.get(inst, b""), "little")
        if len(after.get(inst, b"")) != len(img):
            R.fail("a tag image changed its size", {**case, "instance": inst}, len(after.get(inst, b"")), len(img), "write:image-size")
            continue
        changed_outside = (z0 ^ z1) & ~union.get(inst, 0)
        if changed_outside:
            k = (changed_outside & -changed_outside).bit_length() - 1
            failed_here = [pairs[i][0] for i, (a, o) in enumerate(zip(adr, ok)) if not o and a is not None and a[0] == inst]
            cls = "write:failed-request-changed-memory" if failed_here and not union.get(inst) else "write:changed-outside-addressed"
            R.fail("memory outside the addressed data of the successful requests changed", {**case, "instance": inst, "byte": k // 8, "bit": k % 8,
                                                                                             "failed_requests_on_it": failed_here[:4]},
                   after[inst][max(0, k // 8 - 4):k // 8 + 8].hex(), img[max(0, k // 8 - 4):k // 8 + 8].hex(), cls)
        wrong = union.get(inst, 0) & ~okbits.get(inst, 0)
        if wrong:
            k = (wrong & -wrong).bit_length() - 1
            who = [pairs[i][0] for i, a in succ if a[0] == inst and (a[1] >> k) & 1]
            clss = sorted(set(req_class(pairs[i][0], refs[i], adr[i]) for i, a in succ if a[0] == inst and (a[1] >> k) & 1))
            R.fail("a write reported successful did not store the reference encoding of its value",
                   {**case, "instance": inst, "byte": k // 8, "bit": k % 8, "request": who[:3]},
                   after[inst][max(0, k // 8 - 4):k // 8 + 8].hex(),
                   "reference bits " + hex((succ and [a[2] for i, a in succ if a[0] == inst and (a[1] >> k) & 1][0] >> (8 * (k // 8))) & 0xFFFFFFFF),
                   "write:wrong-data:" + "+".join(clss))
    # ---- applied exactly once: the executed services
    plain, rmw, problems = transfers_of(evs)
    for p in problems:
        R.fail("fragments of a write do not tile its value", {**case, "problem": p}, p, "offsets 0, |s1|, |s1|+|s2|, ...", "write:fragment-tiling")
    want_plain = {}
    bit_reqs = []
    for i, (inst, A, V, n) in succ:
        if is_bit_request(pairs[i][0]) or (bin(A).count("1") == 1 and re.search(r"\](\{1\})?$", pairs[i][0])):
            bit_reqs.append((i, inst, A))
        else:
            key = (inst,) + byte_span(A, n)
            want_plain[key] = want_plain.get(key, 0) + 1
    got_plain = {}
    for t in plain:
        key = (t["inst"], t["at"], len(t["data"]))
        got_plain[key] = got_plain.get(key, 0) + 1
        if t["frags"] > 1:
            R.count("oracle_fragmented_transfers", min(t["frags"], 12))
    if got_plain != want_plain:
        extra = {k: v for k, v in got_plain.items() if want_plain.get(k, 0) != v}
        miss = {k: v for k, v in want_plain.items() if got_plain.get(k, 0) != v}
        over = any(v > want_plain.get(k, 0) for k, v in got_plain.items())
        R.fail("the executed write services are not exactly one per successful request",
               {**case, "executed (instance, byte, length): count": {str(k): v for k, v in list(extra.items())[:6]},
                "expected": {str(k): v for k, v in list(miss.items())[:6]}},
               {str(k): v for k, v in list(got_plain.items())[:8]}, {str(k): v for k, v in list(want_plain.items())[:8]},
               "write:applied-" + ("more-than-once-or-unrequested" if over else "less-than-once"))
    # bit writes: every RMW names only requested bits; every requested bit is named at least once and
    # at most as often as it was requested
    named_total = {}
    for e in rmw:
        width = 8 * e["size"]
        names = (e["or"] | (~e["and"] & ((1 << width) - 1))) << (8 * e["at"])
        allowed = 0
        for i, inst, A in bit_reqs:
            if inst == e["inst"]:
                allowed |= A
        if names & ~allowed:
            R.fail("a Read-Modify-Write names a bit no successful request addressed", {**case, "instance": e["inst"], "byte": e["at"],
                                                                                      "or": hex(e["or"]), "and": hex(e["and"])},
                   hex(names), hex(allowed), "write:rmw-stray-bit")
        named_total[e["inst"]] = named_total.get(e["inst"], []) + [names]
    for i, inst, A in bit_reqs:
        cnt = sum(1 for nm in named_total.get(inst, []) if nm & A)
        same = sum(1 for j, inst2, A2 in bit_reqs if inst2 == inst and A2 == A)
        if not (1 <= cnt <= same):
            R.fail("a bit write reported successful was not applied exactly once", {**case, "request": pairs[i][0]}, cnt, f"1..{same}",
                   "write:bit-applied-" + ("never" if cnt == 0 else "too-often"))
    if rmw:
        R.count("oracle_rmw_events", min(len(rmw), 8))


def oracle_read_back(R, ctx, case, pairs, refs, adr, results):
    """reading the same address afterwards returns the written value (requests not overlapped by another one)"""
    tp, ref, drv, sc = ctx["tp"], ctx["ref"], ctx["drv"], ctx["sc"]
    ok = [bool(r) for r in results]
    todo = []
    for i, (a, o) in enumerate(zip(adr, ok)):
        if not o or a is None:
            continue
        if any(j != i and b is not None and ok[j] and b[0] == a[0] and (b[1] & a[1]) and not (pairs[j][0] == pairs[i][0] and j < i) for j, b in enumerate(adr)):
            if any(j > i and b is not None and ok[j] and b[0] == a[0] and (b[1] & a[1]) for j, b in enumerate(adr)):
                continue
        todo.append(i)
    todo = todo[:6]
    if not todo:
        return
    # expected value = reference reading of the reference image
    exp = {}
    for i in todo:
        inst, A, V, n = adr[i]
        img = RV.refwrite(ref, pairs[i][0], refs[i])
        if img is None:
            continue
        ref.ask(f"mem {inst} {fw.t_bytes(img[1])}")
        exp[i] = RV.refread(ref, pairs[i][0])
        ref.ask(f"mem {inst} {fw.t_bytes(sc_mem(ctx, inst))}")
    reqs = [pairs[i][0] for i in todo if exp.get(i) is not None]
    idx = [i for i in todo if exp.get(i) is not None]
    if not reqs:
        return
    signal.alarm(60)
    try:
        rb = drv.read(*reqs)
    except Timeout:
        raise
    except Exception as e:            # noqa: BLE001
        R.notes.append(f"read after write raised {e!r}") if len(R.notes) < 20 else None
        return
    finally:
        signal.alarm(0)
    rb = rb if isinstance(rb, list) else [rb]
    for i, r in zip(idx, rb):
        R.count("read_back", "checked")
        if not r or not RV.same_value(exp[i]["value"], r.value):
            # reads have their own property (C01): a failing read inside C01's known windows is not C02's
            cls = "read-after-write:" + req_class(pairs[i][0], refs[i], adr[i])
            R.fail("reading the address after a successful write does not return the written value",
                   {**case, "request": pairs[i][0]}, _short(getattr(r, "value", None)) if r else f"falsy: {getattr(r, 'error', None)}",
                   _short(RV.to_python(exp[i]["value"])), cls)


def sc_mem(ctx, inst):
    return all_mem(ctx["tp"]).get(inst, b"")


# ------------------------------------------------------------------ generators of calls
def visible_tags(sc):
    return [g for g in sc.data_tags() if not S._hidden_tag(g)]


def struct_bytes_value(ctx, req, rv):
    """the bytes form of a structure value: the reference encoding"""
    a = addressed(ctx["ref"], ctx["sc"], req, rv, ctx["cache"])
    if a is None:
        return None
    inst, A, V, n = a
    at, ln = byte_span(A, n)
    return V.to_bytes(n, "little")[at:at + ln]


def gen_pair(rng, ctx, g, used_bits=None):
    """a valid (request, python value, tagged reference value) on tag g"""
    sc = ctx["sc"]
    req, kind, code, count = S.gen_request(rng, sc, g, for_write=True)
    rv = S.rand_value(rng, sc, kind, code, count)
    py = RV.to_python(rv)
    r = rng.random()
    if kind == "s" and not count and rv[0] == "S" and r < 0.3:
        b = struct_bytes_value(ctx, req, rv)
        if b is not None:
            py = b
    elif rv[0] == "s":
        t = sc.template(code)
        cap = t["members"][1]["arr"]
        if r < 0.35:                                        # longer than the capacity: truncated
            n = cap + rng.choice([1, 2, rng.randint(1, 12), t["size"] - 4 - cap + 1])
            text = "".join(chr(rng.randint(33, 126)) for _ in range(max(n, cap + 1)))
            rv, py = ("s", text), text
        elif r < 0.5:
            text = "".join(chr(rng.randint(33, 126)) for _ in range(cap))
            rv, py = ("s", text), text
    elif rv[0] == "L" and count and r < 0.2 and kind != "bools":  # longer list than requested: truncated
        extra = [S.rand_value(rng, sc, kind, code) for _ in range(rng.randint(1, 3))]
        rv = ("L", rv[1] + extra)
        py = RV.to_python(rv)
    elif rv[0] == "L" and count and kind == "bools" and r < 0.2:
        rv = ("L", rv[1] + [("b", True)] * rng.randint(1, 40))
        py = RV.to_python(rv)
    return req, py, rv


def gen_call(rng, ctx, n, dup=0.1):
    """n valid requests on distinct tags (bits: several of one tag), some exact duplicates"""
    sc = ctx["sc"]
    tags = visible_tags(sc)
    rng.shuffle(tags)
    out = []
    for g in tags:
        if len(out) >= n:
            break
        req, py, rv = gen_pair(rng, ctx, g)
        if g["kind"] == "a" and g["code"] == S.DWORD and g["dims"] and rng.random() < ctx.get("slice1", 0.0):
            b = rng.random() < 0.5                           # `arr[i]{1}` written with a one-item list
            req, py, rv = f"{sc.full_name(g)}[{rng.randrange(32 * g['dims'][0])}]{{1}}", [b], ("L", [("b", b)])
        out.append((req, py, rv))
        if is_bit_request(req) and rng.random() < 0.7:       # more bits of the same word, maybe the same bit again
            base = req.rsplit(".", 1)[0]
            width = 8
            a = addressed(ctx["ref"], sc, req, rv, ctx["cache"])
            for _ in range(rng.randint(1, 4)):
                b = rng.randrange(width)
                v = rng.random() < 0.5
                out.append((f"{base}.{b}", v, ("b", v)))
        elif rng.random() < dup:
            req2, py2, rv2 = gen_pair(rng, ctx, g)
            if req2 == req:
                out.append((req2, py2, rv2))
    rng.shuffle(out) if rng.random() < 0.5 else None
    return out


def bad_value_pairs(rng, ctx, k):
    """requests whose value cannot be encoded / is too short / misaligned: must fail and change nothing"""
    sc = ctx["sc"]
    out = []
    tags = visible_tags(sc)
    for _ in range(k):
        g = rng.choice(tags)
        req, kind, code, count = S.gen_request(rng, sc, g, for_write=True)
        rv = S.rand_value(rng, sc, kind, code, count)
        py = RV.to_python(rv)
        c = rng.random()
        if kind == "bool" and re.search(r"\.\d+$", req) and c < 0.5:
            # a bit beyond the integer's width does not exist: refused, nothing changes
            a = addressed(ctx["ref"], sc, req, ("b", True), ctx["cache"])
            if a is not None:
                out.append((req.rsplit(".", 1)[0] + "." + str(rng.choice([8, 16, 32, 64, 70]) * 8), True, None))
                continue
        if kind == "bool":
            # any Python value is a BOOL through its truthiness: there is no unencodable value
            py = rng.choice(["text", 7, [0, 0], 0.5])
            out.append((req, py, ("b", True)))
            continue
        if isinstance(py, list) and len(py) > 1 and c < 0.4:
            py = py[:-1]                                     # too short
        elif isinstance(py, dict) and c < 0.5:
            py = dict(py)
            py.pop(rng.choice(list(py)))
        elif isinstance(py, int) and not isinstance(py, bool) and kind == "a":
            py = 1 << 70
        elif kind == "bools":
            m = re.match(r"(.*)\[(\d+)\]\{(\d+)\}$", req)
            if m and int(m.group(2)) + 1 + int(m.group(3)) <= 32 * 1000:
                req = f"{m.group(1)}[{int(m.group(2)) + 1}]{{{m.group(3)}}}"   # misaligned
        elif kind == "s" and sc.is_string(sc.template(code)):
            py = 12 if not count else [12] * count               # a string element takes any str: only a non-str is unencodable
        else:
            py = "not a value" if not isinstance(py, str) else 12
        out.append((req, py, None))
    return out


# ------------------------------------------------------------------ pure-function correspondences
def type_classes_of(drv):
    """every type class the upload built: tags, data types, members (recursively)"""
    seen, out = set(), []

    def add(tc):
        cls = tc if isinstance(tc, type) else type(tc)
        if id(cls) in seen:
            return
        seen.add(id(cls))
        out.append(cls)
        if hasattr(cls, "element_type"):
            add(cls.element_type)
        if cls.__name__ == "StructTag":
            for m in cls.members:
                add(m)
    for t in drv.tags.values():
        if t.get("type_class") is not None:
            add(t["type_class"])
    for d in drv.data_types.values():
        if d.get("type_class") is not None:
            add(d["type_class"])
    return out


def synthetic_types(rng):
    """type classes built with pycomm3's own constructors, with parameters an upload never produces"""
    from pycomm3.cip import DataTypes, Array, DINT, INT, SINT, REAL, DWORD, BOOL, LINT, USINT, UDINT, LREAL, WORD, BYTE, LWORD, UINT, ULINT
    from pycomm3.custom_types import StructTag
    from pycomm3 import custom_types as _ct

    def FixedSizeString(size, capacity_=None):
        try:
            return _ct.FixedSizeString(size, capacity_=capacity_)
        except TypeError:             # a tree without the capacity parameter
            return _ct.FixedSizeString(size)
    out = [DINT, INT, SINT, REAL, LREAL, DWORD, BOOL, LINT, USINT, UINT, UDINT, ULINT, WORD, BYTE, LWORD,
           Array(3, DINT), Array(2, DWORD), Array(1, BYTE), Array(4, REAL), Array(0, INT),
           FixedSizeString(8), FixedSizeString(8, capacity_=5), FixedSizeString(4, capacity_=9), FixedSizeString(0), FixedSizeString(84, capacity_=82)]
    inner = StructTag((DINT("a"), 0), (Array(2, INT)("b"), 4), bit_members={"x": (8, 1), "y": (8, 7)}, private_members=set(), struct_size=12)
    out.append(inner)
    out.append(StructTag((SINT("ZZZZZZZZZZh"), 0), (inner("in"), 4), (FixedSizeString(8, capacity_=6)("s"), 16), (Array(2, inner)("arr"), 28),
                         bit_members={"b0": (0, 0), "b7": (0, 7)}, private_members={"ZZZZZZZZZZh"}, struct_size=52))
    # overlapping / out-of-range layouts: the slice assignment and the bit access clamp or raise
    out.append(StructTag((DINT("a"), 2), (INT("b"), 4), bit_members={"x": (9, 0)}, private_members=set(), struct_size=8))
    out.append(StructTag((DINT("a"), 6), bit_members={"x": (3, 9)}, private_members=set(), struct_size=8))
    out.append(StructTag((INT("a"), 20), bit_members={}, private_members=set(), struct_size=4))
    return out


def corr_enc(R, mp, rng, tcs, n, wrong):
    lines, cases = [], []
    for _ in range(n):
        tc = rng.choice(tcs)
        v = rand_py(rng, tc, wrong)
        try:
            lines.append(f"enc {ty_tokens(tc)} {val_tokens(v)}")
        except ValueError:
            continue
        cases.append((tc, v))
    outs = mp.batch(lines)
    for (tc, v), ln, o in zip(cases, lines, outs):
        m = canon_model(fw.parse_line(o))
        i = canon_impl(lambda: bytes(tc.encode(v)))
        kind = getattr(tc, "__name__", "?")
        R.case(("enc", ln), nontrivial=i[0] == "ok")
        R.corr_checked += 1
        R.count("enc_type", kind + (":ok" if i[0] == "ok" else ":error"))
        if m != i:
            R.disagree("type_class.encode", {"type": repr(tc)[:200], "value": _short(v), "line": ln[:300]}, m, i)


def corr_encval(R, mp, rng, ctx, n):
    """encode_value on real parsed requests, good and bad values"""
    from pycomm3.logix_driver import encode_value
    import copy
    drv, sc = ctx["drv"], ctx["sc"]
    tags = visible_tags(sc)
    lines, cases = [], []
    for _ in range(n):
        g = rng.choice(tags)
        c = rng.random()
        if c < 0.7:
            req, py, rv = gen_pair(rng, ctx, g)
        else:
            req, py, rv = bad_value_pairs(rng, ctx, 1)[0]
        if c > 0.9:
            py = rand_py(rng, drv._parse_requested_tags([req], "w")[0].get("tag_info", {}).get("type_class", int), 0.3) \
                if not drv._parse_requested_tags([req], "w")[0].get("error") else py
        p = drv._parse_requested_tags([req], "w")[0]
        if p.get("error") or (p["bit"] is not None and p["bool_elements"] is None):
            continue
        try:
            lines.append("encval " + req_tokens(0, p, py))
        except ValueError:
            continue
        cases.append((req, p, py))
    outs = mp.batch(lines)
    for (req, p, py), o in zip(cases, outs):
        q = copy.copy(p)
        q["value"] = py
        i = canon_impl(lambda: (bytes(encode_value(q)), q["elements"]))
        m = canon_model(fw.parse_line(o))
        R.case(("encval", req, val_tokens(py)[:80]), nontrivial=i[0] == "ok")
        R.corr_checked += 1
        R.count("encode_value", ("DWORD:" if p["tag_info"]["data_type_name"] == "DWORD" else "") + i[0])
        if m != i:
            R.disagree("encode_value", {"request": req, "value": _short(py), "elements": p["elements"], "bool_elements": p["bool_elements"], "bit": p["bit"]}, m, i)


def corr_rmw(R, mp, rng, n):
    """set_bit sequences on real packets vs the model's masks, and the reference bit arithmetic"""
    from pycomm3.packets import ReadModifyWriteRequestPacket
    from pycomm3.cip import DataTypes
    lines, cases = [], []
    for _ in range(n):
        tname = rng.choice(["SINT", "INT", "DINT", "LINT", "USINT", "UINT", "UDINT", "ULINT", "DWORD"])
        size = DataTypes[tname].size
        k = rng.choice([1, 1, 2, 3, 5, 9])
        top = 8 * size if tname != "DWORD" else 96
        bits = [(rng.randrange(top) if rng.random() < 0.95 else rng.randrange(64), rng.random() < 0.5) for _ in range(k)]
        old = rng.randrange(1 << (8 * size))
        cases.append((tname, size, bits, old))
        acc = [(b, v) for b, v in bits if 0 <= (b % 32 if tname == "DWORD" else b) < 8 * size]   # the others are refused (RequestError)
        lines.append(f"rmw {1 if tname == 'DWORD' else 0}" + "".join(f" {b} {1 if v else 0}" for b, v in acc))
        eff = [(b % 32 if tname == "DWORD" else b, v) for b, v in acc]
        lines.append(f"specbits {old}" + "".join(f" {b} {1 if v else 0}" for b, v in eff))
    outs = mp.batch(lines)
    for j, (tname, size, bits, old) in enumerate(cases):
        info = {"tag_type": "atomic", "data_type_name": tname, "data_type": tname, "instance_id": 5}
        pk = ReadModifyWriteRequestPacket(1, "x", info, -1, True)
        from pycomm3.exceptions import RequestError as _RE
        kept = []
        for i, (b, v) in enumerate(bits):
            e = b % 32 if tname == "DWORD" else b
            try:
                pk.set_bit(b, v, i)
                ok_ = True
            except _RE:
                ok_ = False
            if ok_ != (0 <= e < 8 * size):
                R.fail("set_bit accepts a bit outside the tag's width / refuses one inside", {"type": tname, "bit": b}, ok_, not ok_, "rmw:bit-range")
            if ok_:
                kept.append((b, v))
        bits = kept
        m = fw.parse_line(outs[2 * j])
        spec_new = fw.parse_line(outs[2 * j + 1])[0]
        R.case(("rmw", tname, tuple(bits)), nontrivial=True)
        R.corr_checked += 1
        R.count("rmw_type", tname)
        if (m[0], m[1]) != (pk._or_mask, pk._and_mask):
            R.disagree("set_bit masks", {"type": tname, "bits": bits}, (hex(m[0]), hex(m[1])), (hex(pk._or_mask), hex(pk._and_mask)))
        # oracle on the implementation's masks, Spec arithmetic only: (old | or) & and restricted to the
        # tag's width = the reference set_bit_byte folded over the requested bits (bits inside the width)
        width = 8 * size
        if all(b < width for b, _ in [(bb % 32 if tname == "DWORD" else bb, vv) for bb, vv in bits]):
            msg = pk.build_message()
            tail = msg[-2 * size:]
            orm, andm = int.from_bytes(tail[:size], "little"), int.from_bytes(tail[size:], "little")
            new = (old | orm) & andm
            if len(msg) < 2 * size or new != spec_new or msg[-2 * size - 2:-2 * size] != struct.pack("<H", size):
                R.fail("Read-Modify-Write masks do not set / clear exactly the requested bits at the tag's width",
                       {"type": tname, "bits": bits, "old": hex(old), "message": msg.hex()}, hex(new), hex(spec_new), "rmw:masks")


# ------------------------------------------------------------------ scenarios
def make_ctx(sc, sid, micro=False, slice1=0.0):
    tp, ref, drv, box = open_scenario(sc, micro)
    return {"tp": tp, "ref": ref, "drv": drv, "box": box, "sc": sc, "cache": {}, "sid": sid, "slice1": slice1}


def close_ctx(ctx):
    for k in ("drv",):
        try:
            ctx[k].close()
        except Exception:             # noqa: BLE001
            pass
    ctx["tp"].close()
    ctx["ref"].close()


def call3(out):
    return [(t, v) for t, v, _ in out], [rv for _, _, rv in out]


def run_scenario(R, mp, rng, sc, sid, micro, n_calls, thorough):
    ctx = make_ctx(sc, sid, micro, slice1=0.5 if thorough else 0.25)
    try:
        drv = ctx["drv"]
        R.count("config", f"conn={drv.connection_size},micro800={micro},instance_ids={drv._cfg['use_instance_ids']}")
        for c in range(n_calls):
            k = rng.choice([1, 1, 2, 3, 5, 8, 14] if not micro else [1, 2, 3, 5])
            out = gen_call(rng, ctx, k)
            if rng.random() < 0.3:
                bad = bad_value_pairs(rng, ctx, rng.randint(1, 2))
                out = out + bad
                rng.shuffle(out)
            if rng.random() < 0.1:
                out.insert(rng.randrange(len(out) + 1), ("NoSuchTag%d" % rng.randrange(9), 1, None))
            if not out:
                continue
            pairs, refs = call3(out)
            check_call(R, mp, ctx, pairs, refs, f"random#{c}")
        # error injection: a refused service must be reported failed and change nothing
        for svc in (0x4D, 0x4E):
            out = gen_call(rng, ctx, 3)
            if out:
                pairs, refs = call3(out)
                ctx["injecting"] = True
                check_call(R, mp, ctx, pairs, refs, f"inject{svc:#x}", inject=(0, svc, rng.choice([4, 5, 0x10, 0xFF]), *([0x2107] if rng.random() < 0.5 else [])))
                ctx["injecting"] = False
                for _ in range(len(ctx["tp"].injections())):
                    pass
        corr_encval(R, mp, rng, ctx, 60 if thorough else 25)
        return type_classes_of(drv)
    finally:
        close_ctx(ctx)


def failed_call(R, mp, ctx, pairs, refs, where, k):
    """a write() whose k-th send / receive of this call fails (transport error): it must raise CommError,
    what it put on the wire is a prefix of the model's frames, and whatever it changed lies inside the
    data its own requests address.  The driver is then re-opened, as the code requires."""
    import socket
    from pycomm3.exceptions import CommError
    tp, ref, drv, box, sc, cache = ctx["tp"], ctx["ref"], ctx["drv"], ctx["box"], ctx["sc"], ctx["cache"]
    fs = drv.fakesock
    conn, micro = drv.connection_size, drv._micro800
    before = all_mem(tp)
    for inst, img in before.items():
        ref.ask(f"mem {inst} {fw.t_bytes(img)}")
    adr = [addressed(ref, sc, t, rv, cache) if rv is not None else None for (t, _), rv in zip(pairs, refs)]
    parsed = drv._parse_requested_tags([t for t, _ in pairs], "w")
    qtoks = [req_tokens(i, parsed[i], pairs[i][1]) for i in range(len(pairs))]
    v0 = box[0] + 1
    key = {"send": "send", "send_after": "send_after", "recv": "recv"}[where]
    base = fs.n_recv if where == "recv" else fs.n_send
    fs.faults = {key: {base + k: socket.timeout("injected")}}
    s0 = len(fs.sent)
    case = {"call": f"failing:{where}#{k}", "conn": conn, "micro800": micro, "scenario": ctx["sid"],
            "requests": [(t, _short(v)) for t, v in pairs[:10]], "n": len(pairs)}
    signal.alarm(60)
    try:
        try:
            res, raised = drv.write(*pairs), None
        except Timeout:
            raise
        except Exception as e:        # noqa: BLE001
            res, raised = None, e
    finally:
        signal.alarm(0)
        fs.faults = {}
    frames = fs.sent[s0:]
    after = all_mem(tp)
    R.case(("wf", ctx["sid"], where, k, tuple(t for t, _ in pairs)), nontrivial=True)
    R.corr_checked += 1
    mw = parse_model_write(mp.ask("write", str(conn), "1" if micro else "0", "1" if drv._cfg["use_instance_ids"] else "0", str(v0), *qtoks))
    fired = raised is not None
    R.count("failed_call", f"{where}:{'raised ' + type(raised).__name__ if fired else 'fault not reached'}")
    if mw[0] == "ok":
        model_msgs = [m for p in mw[1] for m in p[3]]
        real_msgs = [payload(f) for f in frames]
        if real_msgs != model_msgs[:len(real_msgs)]:
            R.disagree("write: frames before the transport failure", case, [m.hex()[:120] for m in model_msgs[:3]], [m.hex()[:120] for m in real_msgs[:3]])
        if fired and not isinstance(raised, CommError):
            R.disagree("write: exception on a transport failure", case, "CommError", repr(raised))
    # whatever was applied before the failure lies inside the data this call addresses
    union = {}
    for a in adr:
        if a is not None:
            union[a[0]] = union.get(a[0], 0) | a[1]
    for inst, img in before.items():
        z0, z1 = int.from_bytes(img, "little"), int.from_bytes(after.get(inst, b""), "little")
        if (z0 ^ z1) & ~union.get(inst, 0):
            R.fail("a write call that failed in transit changed memory outside the data it addresses", {**case, "instance": inst},
                   after[inst][:16].hex(), img[:16].hex(), "write:failed-call-changed-outside")
    ctx.setdefault("history", []).append({"write": [(t, _short(v)) for t, v in pairs[:6]], "fault": f"{where} #{k} of the call",
                                          "outcome": repr(raised) if fired else "returned"})
    if fired or drv._sock is None:
        signal.alarm(60)
        try:
            drv.open()
        finally:
            signal.alarm(0)
        ctx["history"].append("open()")
    return fired


def history_scenario(R, mp, rng, sc, sid, thorough):
    """failure-then-continue: a multi-request write with bit writes fails in transit, the driver is
    re-opened, and later calls (bit writes to OTHER tags, plain writes, several packets) are held to the
    full oracle; then a second driver alternates with the first on the same controller."""
    from pycomm3 import LogixDriver
    ctx = make_ctx(sc, sid, False)
    try:
        for rnd in range(3 if thorough else 2):
            out = gen_call(rng, ctx, rng.choice([3, 5, 8]))
            # always some bit writes in the call that fails (merged read-modify-write packets in flight)
            ints = [g for g in visible_tags(sc) if g["kind"] == "a" and g["code"] in S.INTEGER and not g["dims"]
                    and not any(t.split(".")[0] == sc.full_name(g) for t, _, _ in out)]
            for g in rng.sample(ints, min(2, len(ints))):
                for _ in range(rng.randint(1, 2)):
                    b = rng.randrange(8 * S.CODE_SIZE[g["code"]])
                    v = rng.random() < 0.5
                    out.append((f"{sc.full_name(g)}.{b}", v, ("b", v)))
            if len(out) < 2:
                continue
            pairs, refs = call3(out)
            where = rng.choice(["send", "send", "recv", "send_after"])
            k = rng.choice([0, 0, 1, 2])
            failed_call(R, mp, ctx, pairs, refs, where, k)
            for c in range(3):
                nxt = gen_call(rng, ctx, rng.choice([2, 3, 5, 8]) if c else rng.choice([3, 5]))
                if rng.random() < 0.3:
                    nxt = nxt + bad_value_pairs(rng, ctx, 1)
                if len(nxt) >= 1:
                    p2, r2 = call3(nxt)
                    check_call(R, mp, ctx, p2, r2, f"after-failure#{rnd}.{c}")
        # two drivers on one controller, alternating
        ctx["history"] = []
        drv2 = T.open_driver(LogixDriver, "10.0.0.2", ctx["tp"])
        box2 = [next(drv2._sequence)]
        drv2._sequence = counting(drv2._sequence, box2)
        ctx2 = dict(ctx, drv=drv2, box=box2, sid=sid + "/driver2")
        for c in range(6 if thorough else 4):
            cx = ctx if c % 2 == 0 else ctx2
            nxt = gen_call(rng, cx, rng.choice([1, 2, 3, 6]))
            if nxt:
                p2, r2 = call3(nxt)
                R.count("two_drivers", "driver1" if cx is ctx else "driver2")
                check_call(R, mp, cx, p2, r2, f"alternating#{c}")
                ctx.setdefault("history", []).append({"write by": "driver1" if cx is ctx else "driver2", "requests": [t for t, _ in p2[:4]]})
                ctx2["history"] = ctx["history"]
        try:
            drv2.fakesock.notify_close = False      # closing one client must not drop the other's session
            drv2.close()
        except Exception:             # noqa: BLE001
            pass
        # two controllers in one process: the same project downloaded with other symbol instance ids; the
        # same request strings go to controller 1 and then to controller 2, each held to the full oracle on
        # ITS controller's memory (nothing learnt from one controller may address the other)
        # (symbol-instance addressing is what carries a controller's ids into the requests: both controllers
        #  run firmware that offers it, whatever generation the failure stage above ran on)
        sc1 = copy.deepcopy(sc)
        sc1.cfg["rev_major"] = max(21, sc.cfg.get("rev_major", 32))
        sc1.mem = dict(all_mem(ctx["tp"]))
        sc2 = renumbered(rng, sc1)
        close_ctx(ctx)
        ctx = make_ctx(sc1, sid + "/controller1", False)
        ctx3 = make_ctx(sc2, sid + "/controller2", False)
        try:
            ctx["history"] = []
            R.count("two_controllers", f"instance_ids={ctx['drv']._cfg['use_instance_ids']}")
            for c in range(4 if thorough else 3):
                nxt = gen_call(rng, ctx, rng.choice([1, 2, 3, 6]))
                if not nxt:
                    continue
                p2, r2 = call3(nxt)
                for cx, who in ((ctx, "controller1"), (ctx3, "controller2")):
                    R.count("two_controllers", who)
                    cx["history"] = ctx["history"]
                    check_call(R, mp, cx, p2, r2, f"two-controllers#{c}/{who}")
                    ctx["history"].append({"write to": who, "requests": [t for t, _ in p2[:4]]})
        finally:
            close_ctx(ctx3)
    finally:
        close_ctx(ctx)


def renumbered(rng, sc):
    """the same project with the symbol instance ids of its data tags permuted (a later download of the
    project, or a second controller): names, types, memory contents per NAME are unchanged"""
    import copy
    sc2 = copy.deepcopy(sc)
    groups = {}
    for g in sc2.tags:
        if g["kind"] != "o":
            groups.setdefault((g["prog"], g["inst"] > 65535), []).append(g)
    new_mem = dict(sc2.mem)
    for gs in groups.values():
        if len(gs) < 2:
            continue
        ids = [g["inst"] for g in gs]
        k = rng.randrange(1, len(ids))
        rot = ids[k:] + ids[:k]
        for g, i in zip(gs, rot):
            if g["inst"] in sc.mem:
                new_mem[i] = sc.mem[g["inst"]]
            g["inst"] = i
    sc2.mem = new_mem
    return sc2


def sized_calls(R, mp, rng, large, micro, thorough):
    """values of sizes around the connection size: single / multi / fragmented paths"""
    conn = 4000 if large else 500
    ks = list(range(-6, 50)) if thorough else [0, 8, 9, 10, 11, 16, 20, 21, 22, 23, 24, 26, 30, 34, 38, 42, 46]
    sizes = sorted(set([conn - k for k in ks] + [conn + 3, 2 * conn + 1] + ([3 * conn + 7] if thorough else [])))
    sc = S.gen_scenario(rng, n_tags=4, big_ids=0, sized=[("SINT", max(sizes) + 8), ("DINT", (max(sizes) + 8) // 4), ("INT", conn)],
                        programs=False, policies=False)
    sc.cfg["accept_large_fo"] = 1 if large else 0
    sc.cfg["rev_major"] = rng.choice([20, 32])
    ctx = make_ctx(sc, f"sized-{conn}{'-micro' if micro else ''}", micro)
    try:
        bigs = {g["code"]: g for g in sc.tags if g["name"].startswith("Big")}
        small = [g for g in visible_tags(sc) if not g["name"].startswith("Big")]
        for nb in sizes:
            for code, es in ((S.SINT, 1), (S.DINT, 4)):
                g = bigs[code]
                n = nb // es
                if n < 1 or n > g["dims"][0]:
                    continue
                start = rng.choice([0, 0, rng.randint(0, g["dims"][0] - n)])
                req = f"{g['name']}[{start}]{{{n}}}" if start else f"{g['name']}{{{n}}}"
                rv = ("L", [("i", rng.randrange(-128, 128) if es == 1 else rng.randrange(-2**31, 2**31)) for _ in range(n)])
                out = [(req, RV.to_python(rv), rv)]
                if rng.random() < 0.6 and small:
                    extra = gen_call(rng, ctx, rng.randint(1, 3))
                    extra = [e for e in extra if not e[0].startswith(g["name"])]
                    out = out + extra if rng.random() < 0.5 else extra + out
                pairs, refs = call3(out)
                R.count("sized_value_bytes_minus_conn", max(-60, min(60, n * es - conn)))
                check_call(R, mp, ctx, pairs, refs, f"sized:{n * es}", check_read=(nb % 3 == 0))
        return []
    finally:
        close_ctx(ctx)


# ------------------------------------------------------------------ corpus
def corpus_cases():
    d = os.path.join(fw.VERIF, "corpus", "C02")
    out = []
    if os.path.isdir(d):
        import json
        for f in sorted(os.listdir(d)):
            if f.endswith(".json"):
                out.append((f, json.load(open(os.path.join(d, f)))))
    return out


def untag(v):
    """JSON form of a tagged reference value -> tuple form"""
    k, a = v
    if k == "L" and isinstance(a, str) and a.startswith("RANGE"):
        return (k, [("i", (i * 7919) % 100000 - 50000) for i in range(int(a[5:]))])
    if k in ("L",):
        return (k, [untag(e) for e in a])
    if k == "S":
        return (k, [(n, untag(e)) for n, e in a])
    return (k, a)


def run_corpus(R, mp):
    groups = {}
    for name, c in corpus_cases():
        groups.setdefault((c.get("micro800", False), c.get("large", True)), []).append((name, c))
    for (micro, large), cs in groups.items():
        sc = fixed_scenario()
        sc.cfg["accept_large_fo"] = 1 if large else 0
        ctx = make_ctx(sc, "fixed", micro)
        try:
            for name, c in cs:
                pairs, refs = [], []
                for t, rv, *py in c["requests"]:
                    rv = untag(rv) if rv is not None else None
                    refs.append(rv)
                    if py:
                        v = py[0]
                        if isinstance(v, dict) and "hex" in v:
                            v = bytes.fromhex(v["hex"])
                        pairs.append((t, v))
                    else:
                        pairs.append((t, RV.to_python(rv)))
                R.count("corpus", name)
                check_call(R, mp, ctx, pairs, refs, "corpus:" + name)
        finally:
            close_ctx(ctx)


# ------------------------------------------------------------------ entry points
def run(R, escalate=False):
    import logging
    logging.disable(logging.CRITICAL)
    thorough = R.tier == "thorough" or escalate
    rng = R.rng
    signal.signal(signal.SIGALRM, _alarm)
    R.rule = ("(1) whole LogixDriver.write calls of 1-14 requests against the live reference target on random projects (atomics of every "
              "type, array slices with start index, bits of integers incl. several bits of one word and repeated bits, BOOL-array elements "
              "and aligned ranges, strings shorter / equal / longer than capacity, structures as dict and as bytes, nested members, "
              "too-short / unencodable / misaligned values, unknown tags, duplicates, injected controller errors), both connection sizes, "
              "instance-id and symbolic addressing, Micro800 (single requests), values of conn-k bytes (single, multi, fragmented); "
              "(1b) histories: a multi-request write fails in transit (k-th send / receive / after the target processed the frame), "
              "the driver is re-opened, later calls are held to the full oracle; two drivers alternating on one controller; "
              "(2) type_class.encode on every type class the uploads built + synthetic ones, valid and malformed values; "
              "(3) encode_value on parsed requests; (4) set_bit sequences. non-trivial = distinct case that is sent / encodes")
    mp = fw.ModelProc("C02")
    try:
        run_corpus(R, mp)
        corr_rmw(R, mp, rng, 1500 if thorough else 400)
        tcs = synthetic_types(rng)
        corr_enc(R, mp, rng, tcs, 3000 if thorough else 900, 0.15)
        n_sc = 100 if thorough else 12
        for k in range(n_sc):
            sc = S.gen_scenario(rng)
            micro = (k % 4 == 3)
            if micro:
                sc = S.gen_scenario(rng, programs=False)
            up = run_scenario(R, mp, rng, sc, f"seed{R.seed}#{k}", micro, 14 if thorough else 10, thorough)
            corr_enc(R, mp, rng, up, 400 if thorough else 150, 0.0)
            corr_enc(R, mp, rng, up, 300 if thorough else 100, 0.12)
        for k in range(12 if thorough else 3):
            history_scenario(R, mp, rng, S.gen_scenario(rng), f"seed{R.seed}#h{k}", thorough)
        for large in (True, False):
            sized_calls(R, mp, rng, large, False, thorough)
        sized_calls(R, mp, rng, False, True, thorough)
        if thorough:
            sized_calls(R, mp, rng, True, True, thorough)
    finally:
        mp.close()
        signal.alarm(0)


def replay(R, rp):
    run(R, escalate=True)
