"""C18 — SLC addresses select the right file, element and bit; data round-trips.

Two sides of one co-process (bin/modelrun_c18, Extract/ExC18.v):
  * the MODEL of pycomm3/slc_driver.py (Model/Slc.v): parse_tag, request bytes, reply parsing;
  * the SPEC (Spec/SlcTarget.v): the address ADT and its spellings (`render`), the reference
    interpretation (`refread` / `refwrite`) and the reference SLC target that executes the PCCC
    commands on a live data table.

(a) correspondence model <-> implementation: parse_tag on grammar strings and adversarial strings
    (every single-character edit, over-long digit runs, prefixes / suffixes, mixed case); the
    message-router request bytes of _read_tag / _write_tag; the Tag built from a reply (real target
    replies, truncated frames, random status bytes and data lengths).
(b) property oracle on the IMPLEMENTATION, using only the Spec side: the real SLCDriver.read / write
    run against the reference target through a fake socket (session / connection attributes set
    from outside, no RegisterSession / Forward Open traffic).  For every address rendered from the
    ADT: the command the target receives names the file (number and type) of the address and covers
    the addressed words; the value returned equals the reference interpretation of the address on
    the table (bit reads are repeated with the addressed bit flipped); after a write the whole
    table equals the reference write (so: only the addressed bit / exactly `count` consecutive
    elements changed) and a read returns the written value; addresses with an unsupported file
    letter or an out-of-range file / element / bit number raise RequestError and send nothing.
"""
import json
import logging
import os
import struct

import framework as fw

ASSUMPTIONS = [
    "the controller is the reference target of Spec/SlcTarget.v: PCCC CMD 0x0F FNC 0xA2 / 0xAB with three address fields as in the DF1 "
    "protocol and command set manual (1770-6.5.16): one-byte fields 0..254, 0xFF = escape to a two-byte field; masked write per 16-bit word; "
    "STS 0x10 for unknown file / wrong type / out of range / inconsistent length; file type codes 84,85,86,87,89,8A,91 and 8B/8C (82/83 tolerated) for O/I",
    "the grammar of the property: N,B,S,I,O word and /bit forms, Bf/n, F and L word forms, {count} on N,B,F,L,S word forms, timer/counter "
    "sub-elements PRE ACC EN TT DN / CU CD DN OV UN UA on reads; bit forms of F and L files, {count} on bit or I/O addresses, A / ST / R files and "
    "T/C writes are outside it (correspondence only)",
    "float values are binary32-representable and not NaN; ASCII addresses; bytes values passed to write() are not modelled",
    "EtherNet/IP framing around the message-router request/reply is done by the harness glue (offsets 46 / 58 / 61 as SendUnitData replies have them)",
]

FTS = "NBFLSIOTC"
ESIZE = {"N": 2, "B": 2, "S": 2, "I": 2, "O": 2, "F": 4, "L": 4, "T": 6, "C": 6}     # bytes per element (DF1 manual)
VWORDS = {"F": 2, "L": 2}
EWORDS = {"N": 1, "B": 1, "S": 1, "F": 2, "L": 2, "T": 3, "C": 3}
T_BITS = {15: "EN", 14: "TT", 13: "DN"}
C_BITS = {15: "CU", 14: "CD", 13: "DN", 12: "OV", 11: "UN", 10: "UA"}

EXN_CODES = {"DataError": 1, "BufferEmptyError": 2, "CommError": 3, "RequestError": 4, "ResponseError": 5,
             "TypeError": 10, "ValueError": 11, "KeyError": 12, "IndexError": 13, "error": 14, "OverflowError": 15,
             "AttributeError": 16}


# ------------------------------------------------------------------------------ wire helpers
def v_toks(v):
    if isinstance(v, bool):
        return ["b", "1" if v else "0"]
    if isinstance(v, int):
        return ["i", str(v)]
    if isinstance(v, float):
        return ["f", str(struct.unpack("<I", struct.pack("<f", v))[0])]
    if isinstance(v, (list, tuple)):
        out = ["l", str(len(v))]
        for x in v:
            if isinstance(x, (list, tuple)):
                raise ValueError("nested list")
            out += v_toks(x)
        return out
    raise ValueError("unencodable value")


def canon_v(v):
    """canonical comparable form of an implementation value"""
    if v is None:
        return ["none"]
    return [int(t) if t.lstrip("-").isdigit() else t for t in v_toks(v)]


def canon_line(toks):
    return [str(x) if isinstance(x, fw.Sym) else x for x in toks]


def addr_toks(a):
    ft, file, elem, sub, bit, cnt = a
    return [ft, str(file), str(elem), str(sub), str(-1 if bit is None else bit), str(cnt)]


def sp_toks(sp):
    lower, mn, pf, pe, ps, pb, pc, flat, iof, iow, c1 = sp
    return [str(int(lower)), fw.t_bytes(bytes(mn)), str(pf), str(pe), str(ps), str(pb), str(pc), str(int(flat)),
            str(int(iof)), str(int(iow)), str(int(c1))]


class Co:
    """the co-process: model + spec"""

    def __init__(self):
        self.mp = fw.ModelProc("C18")

    def close(self):
        self.mp.close()

    def ask(self, *toks):
        out = self.mp.ask(*toks)
        if out and out[0] == "ERR":
            raise RuntimeError(f"co-process refused {toks[:3]}: {out}")
        return canon_line(out)

    def render(self, sp, a):
        return self.ask("render", *sp_toks(sp), *addr_toks(a))[0]

    def wf(self, sp, a):
        r = self.ask("wf", *sp_toks(sp), *addr_toks(a))
        return bool(r[0]), bool(r[1])

    def load(self, files):
        lines = ["reset"]
        for num, ft, ew, words in files:
            bs = b"".join(struct.pack("<H", w) for w in words)
            lines.append(" ".join(["file", str(num), ft, str(ew), fw.t_bytes(bs[:128])]))
            for i in range(128, len(bs), 128):           # short lines: the shared token parser is quadratic in the token length
                lines.append(" ".join(["more", str(num), fw.t_bytes(bs[i:i + 128])]))
        for o in self.mp.batch(lines):
            if o != "ok":
                raise RuntimeError("co-process refused a table line: " + o)

    def exec(self, mr):
        r = self.ask("exec", fw.t_bytes(mr))
        return r[1]

    def lastcmd(self):
        return self.ask("lastcmd")

    def dump_all(self):
        nums = self.ask("files")[1:]
        out = {}
        for n in nums:
            r = self.ask("dump", str(n))
            out[n] = (r[1], r[2], list(struct.unpack("<%dH" % (len(r[3]) // 2), r[3])))
        return out

    def refread(self, a):
        r = self.ask("refread", *addr_toks(a))
        return None if r[0] == "none" else r[1:]

    def refwrite(self, a, v):
        r = self.ask("refwrite", *addr_toks(a), *v_toks(v))
        return None if r[0] == "none" else list(struct.unpack("<%dH" % (len(r[1]) // 2), r[1]))


# ------------------------------------------------------------------------------ the fake socket
class FakeSock:
    """stands where CIPDriver._sock is.  mode 'target': the message-router request of each SendUnitData
    frame goes to the reference target; mode 'script': the next reply is the given raw frame."""

    def __init__(self, co):
        self.co = co
        self.sent = []
        self.script = None
        self.last_reply = None

    def send(self, msg, timeout=0):
        self.sent.append(bytes(msg))
        return len(msg)

    def receive(self, timeout=0):
        req = self.sent[-1]
        if self.script is not None:
            rep, self.script = self.script, None
            self.last_reply = rep
            return rep
        mr = self.co.exec(req[46:])
        body = req[44:46] + mr
        items = struct.pack("<IHH", 0, 0, 2) + struct.pack("<HH", 0xA1, 4) + req[36:40] + struct.pack("<HH", 0xB1, len(body)) + body
        rep = struct.pack("<HHII", 0x70, len(items), struct.unpack("<I", req[4:8])[0], 0) + req[12:20] + struct.pack("<I", 0) + items
        self.last_reply = rep
        return rep

    def close(self):
        pass


def make_driver(co):
    from pycomm3 import SLCDriver
    d = SLCDriver("192.168.1.10")
    d._sock = FakeSock(co)
    d._session = 0x1234
    d._target_is_connected = True
    d._target_cid = b"\x11\x22\x33\x44"
    d._connection_opened = True
    return d


def set_seq(d, start):
    from pycomm3.util import cycle
    d._sequence = cycle(65535, start=start)


def exn_code(e):
    import pycomm3.exceptions as X
    for nm in ("DataError", "BufferEmptyError", "CommError", "RequestError", "ResponseError"):
        if type(e) is getattr(X, nm):
            return EXN_CODES[nm]
    return EXN_CODES.get(type(e).__name__, "foreign:" + type(e).__name__)


# ------------------------------------------------------------------------------ generators
def pick(rng, special, lo, hi, p=0.45):
    return rng.choice(special) if rng.random() < p else rng.randint(lo, hi)


def gen_addr(rng, ft=None):
    ft = ft or rng.choice("NNNNBBBFLSIOTC")
    elem = pick(rng, [0, 1, 9, 10, 15, 16, 17, 99, 100, 199, 200, 249, 250, 254, 255], 0, 255)
    file = pick(rng, [1, 3, 7, 9, 10, 99, 100, 199, 200, 254, 255], 1, 255)
    sub, bit, cnt = 0, None, 1
    if ft in "NBS":
        if ft == "S":
            file = 2
        k = rng.random()
        if k < 0.4:
            bit = pick(rng, [0, 1, 7, 8, 9, 10, 14, 15], 0, 15)
        elif k < 0.65:
            cnt = pick(rng, [1, 2, 3, 9, 10, 99, 100, 126, 127], 1, 127)
    elif ft in "FL":
        if rng.random() < 0.35:
            cnt = pick(rng, [1, 2, 3, 9, 10, 62, 63], 1, 63)
    elif ft in "IO":
        file = 0 if ft == "O" else 1
        sub = pick(rng, [0, 0, 0, 1, 2, 9, 10, 99, 100, 254], 0, 254, p=0.8)
        if sub > 3:
            elem = rng.choice([0, 1, 2, 9, 10])            # keep the slot array small: words per slot x slots
        if rng.random() < 0.5:
            bit = pick(rng, [0, 1, 9, 10, 15], 0, 15)
    else:
        k = rng.random()
        if k < 0.3:
            sub = 1
        elif k < 0.6:
            sub = 2
        else:
            bit = rng.choice(list(T_BITS if ft == "T" else C_BITS))
    return (ft, file, elem, sub, bit, cnt)


def gen_spelling(rng, a):
    ft = a[0]
    flat = ft == "B" and a[4] is not None and rng.random() < 0.5
    z = lambda hi: rng.choice([0, 0, 0, 1, 2, 3, 4][:hi + 3]) if rng.random() < 0.4 else 0
    return (rng.random() < 0.35, [rng.randrange(2) for _ in range(3)] if rng.random() < 0.5 else [],
            min(z(3), 3), min(z(3), 3), min(z(3), 3), min(z(4), 4 if flat else 2), min(z(4), 4),
            flat, rng.random() < 0.4, rng.random() < 0.4, rng.random() < 0.3)


def rand_words(rng, ft, n):
    ws = [rand_word(rng) for _ in range(n)]
    if ft == "F":                                         # no NaN patterns in float files
        for i in range(1, n, 2):
            if (ws[i] >> 7) & 0xFF == 0xFF and ((ws[i] & 0x7F) or ws[i - 1]):
                ws[i] ^= 0x4000
    return ws


def rand_word(rng):
    return rng.choice([0, 0xFFFF, 0x8000, 0x7FFF, 1, 0x5555, 0xAAAA]) if rng.random() < 0.3 else rng.randrange(65536)


def gen_table(rng, a, fault=None):
    """a table that holds the address (unless a fault is asked for) plus a few bystander files"""
    ft, file, elem, sub, bit, cnt = a
    ew = EWORDS.get(ft) or max(sub + 1, rng.choice([1, 1, 2, 3, 4]))
    need = elem * ew + sub + VWORDS.get(ft, 1) * cnt
    extra = rng.choice([0, 0, 1, 2, 5]) * ew
    nwords = -(-need // ew) * ew + extra                  # data files hold whole elements
    if fault == "short":
        nwords = max(0, (need - rng.choice([1, 1, 2, VWORDS.get(ft, 1) * cnt])) // ew * ew)
    if fault == "sub" and ft in "IO":
        ew = max(1, sub)           # the word does not exist in the slot
    files = []
    tft = ft
    if fault == "type":
        tft = rng.choice([x for x in "NBFLST" if x != ft and EWORDS.get(x) == EWORDS.get(ft, 1)] or ["N"])
    if fault != "nofile":
        files.append((file, tft, ew, rand_words(rng, tft, nwords)))
    used = {file}
    for _ in range(rng.choice([0, 1, 2, 3])):
        n = rng.choice([x for x in (0, 1, 2, 3, 4, 5, 7, 8, 9, 10, 254, 255, rng.randint(0, 255)) if x not in used])
        used.add(n)
        oft = rng.choice("NBFLTCS")
        files.append((n, oft, EWORDS[oft], rand_words(rng, oft, EWORDS[oft] * rng.choice([1, 2, 8, 40]))))
    rng.shuffle(files)
    return files


def f32(rng):
    while True:
        b = rng.choice([b"\0\0\0\0", b"\0\0\0\x80", b"\0\0\x80\x7f", b"\0\0\x80\xff", b"\1\0\0\0", b"\xff\xff\x7f\x7f", b"\0\0\xc0\x3f"]) \
            if rng.random() < 0.3 else rng.randbytes(4)
        u = struct.unpack("<I", b)[0]
        if (u >> 23) & 0xFF == 0xFF and u & 0x7FFFFF:
            continue
        return struct.unpack("<f", b)[0]


def gen_value(rng, a):
    ft, _, _, _, bit, cnt = a
    if bit is not None:
        return rng.choice([True, False, 1, 0, 1, 0, 5, -1])
    def one():
        if ft == "F":
            return f32(rng)
        if ft == "L":
            return pick(rng, [-2 ** 31, -1, 0, 1, 2 ** 31 - 1, 65535, 65536, -65536, 0x7FFF8000], -2 ** 31, 2 ** 31 - 1, p=0.4)
        return pick(rng, [-32768, -1, 0, 1, 32767, 255, 256, -256], -32768, 32767, p=0.4)
    return one() if cnt == 1 else [one() for _ in range(cnt)]


# ------------------------------------------------------------------------------ independent little helpers of the oracle
def same_value(got, want):
    """`got` (implementation) equals `want` (python value), floats by binary32 bit pattern"""
    try:
        return v_toks(got) == v_toks(want) or (isinstance(want, (bool, int)) and not isinstance(got, (list, float)) and got == want and
                                               isinstance(got, (bool, int)))
    except Exception:
        return False


def addr_region(a, ew):
    ft, _, elem, sub, bit, cnt = a
    n = 1 if bit is not None else VWORDS.get(ft, 1) * cnt
    return elem * ew + sub, n


# ------------------------------------------------------------------------------ scenario oracles
class Ctx:
    def __init__(self, R, co, drv):
        self.R, self.co, self.drv = R, co, drv
        self.tns = 1

    def next_tns(self):
        self.tns = self.tns % 60000 + 7
        return self.tns


def cls_of_addr(a):
    """input class for known-finding matching"""
    return "addr:" + a[0] + (":255" if a[1] == 255 or a[2] == 255 else "")


def model_check_read(cx, s, tns, sent_before, result):
    """correspondence of one real read() with the model: request bytes and Tag"""
    R, co, drv = cx.R, cx.co, cx.drv
    mreq = co.ask("readreq", fw.t_bytes(drv._cfg["vid"]), fw.t_bytes(drv._cfg["vsn"]), str(tns), fw.t_text(s))
    R.corr_checked += 1
    sent = drv._sock.sent[sent_before:]
    if result[0] == "exc":
        if mreq != ["exn", result[1]] or sent:
            R.disagree("read: exception / request", [s, tns], mreq, ["exn", result[1], len(sent)])
        return
    if len(sent) != 1 or mreq != ["ok", sent[0][46:]]:
        R.disagree("read: request bytes", [s, tns], mreq, [x[46:] for x in sent])
        return
    tag = result[1]
    mfin = co.ask("readfin", fw.t_text(s), fw.t_bytes(drv._sock.last_reply))
    impl = ["res", tag.tag, tag.type, tag.error if tag.error is not None else "none"] + canon_v(tag.value)
    R.corr_checked += 1
    if mfin != impl:
        R.disagree("read: Tag", [s, drv._sock.last_reply], mfin, impl)


def model_check_write(cx, s, v, tns, sent_before, result):
    R, co, drv = cx.R, cx.co, cx.drv
    try:
        vt = v_toks(v)
    except ValueError:
        return
    mreq = co.ask("writereq", fw.t_bytes(drv._cfg["vid"]), fw.t_bytes(drv._cfg["vsn"]), str(tns), fw.t_text(s), *vt)
    R.corr_checked += 1
    sent = drv._sock.sent[sent_before:]
    if result[0] == "exc":
        if mreq != ["exn", result[1]] or sent:
            R.disagree("write: exception / request", [s, v, tns], mreq, ["exn", result[1], len(sent)])
        return
    if len(sent) != 1 or mreq != ["ok", sent[0][46:]]:
        R.disagree("write: request bytes", [s, v, tns], mreq, [x[46:] for x in sent])
        return
    tag = result[1]
    mfin = co.ask("writefin", fw.t_text(s), fw.t_bytes(drv._sock.last_reply), *vt)
    impl = ["res", tag.tag, tag.type, tag.error if tag.error is not None else "none"] + canon_v(tag.value)
    R.corr_checked += 1
    if mfin != impl:
        R.disagree("write: Tag", [s, v, drv._sock.last_reply], mfin, impl)


def do_read(cx, s, script=None):
    drv = cx.drv
    tns = cx.next_tns()
    set_seq(drv, tns)
    before = len(drv._sock.sent)
    drv._sock.script = script
    try:
        res = ("ok", drv.read(s))
    except Exception as e:
        res = ("exc", exn_code(e))
    drv._sock.script = None
    model_check_read(cx, s, tns, before, res)
    return res


def do_write(cx, s, v):
    drv = cx.drv
    tns = cx.next_tns()
    set_seq(drv, tns)
    before = len(drv._sock.sent)
    try:
        res = ("ok", drv.write((s, v)))
    except Exception as e:
        res = ("exc", exn_code(e))
    model_check_write(cx, s, v, tns, before, res)
    return res


def check_command(cx, case, a, ew, fnc, cls):
    """the PCCC command the target received names the file of the address and covers the addressed words"""
    R = cx.R
    lc = cx.co.lastcmd()
    ft, file, elem, sub, bit, cnt = a
    if lc[0] != "cmd":
        R.fail("the target could not read the address fields of the PCCC command", case, lc, "a well-formed command", cls)
        return False
    _, cfnc, size, cfile, cft, celem, csub = lc[:7]
    ok = cfnc == fnc and cfile == file and cft == ft
    if ok:
        want_i, want_n = addr_region(a, ew)
        got_i, got_n = celem * ew + csub, size // 2
        ok = size % 2 == 0 and got_i <= want_i and want_i + want_n <= got_i + got_n and csub < ew
        if fnc == 0xAB:
            ok = ok and (got_i, got_n) == (want_i, want_n)       # a write must not reach beyond the addressed words
    if not ok:
        R.fail("the PCCC command does not address the file / words of the address", case, lc[:7],
               {"fnc": fnc, "file": file, "type": ft, "words": addr_region(a, ew)}, cls)
    return ok


def flip_bit(files, a, ew):
    ft, file, elem, sub, bit, cnt = a
    out = []
    for num, tft, e, words in files:
        if num == file:
            words = list(words)
            words[elem * ew + sub] ^= 1 << bit
        out.append((num, tft, e, words))
    return out


def scenario(cx, a, sp, rng, kind, s=None):
    """one address, one table: read oracle, write oracle (where the grammar has writes), read-back"""
    R, co = cx.R, cx.co
    ft = a[0]
    s = co.render(sp, a) if s is None else s
    files = gen_table(rng, a)
    ew = [f[2] for f in files if f[0] == a[1]][0]
    cls = cls_of_addr(a)
    case = {"kind": kind, "address": s, "addr": list(a), "spelling": None if sp is None else [list(x) if isinstance(x, list) else x for x in sp], "files": files}
    R.case([kind, s, a], nontrivial=True)
    R.count("file_type", ft)
    if sp is not None:
        R.count("form", ("bit" if a[4] is not None else "word") + ("{n}" if a[5] > 1 else "") + ("/flat" if sp[7] and ft == "B" and a[4] is not None else ""))
        R.count("element", "0" if a[2] == 0 else "255" if a[2] == 255 else "1-254")
        R.count("file", "255" if a[1] == 255 else "<255")
        R.count("letter_case", "lower" if sp[0] else "upper")
        R.count("leading_zeros", "yes" if any(sp[2:7]) else "no")

    # ---- read
    tables = [files] + ([flip_bit(files, a, ew)] if a[4] is not None else [])
    for fs in tables:
        co.load(fs)
        want = co.refread(a)
        if want is None:
            raise RuntimeError(f"generator bug: address {a} not in its own table")
        res = do_read(cx, s)
        if res[0] != "ok":
            R.fail("read of a well-formed address raised", case, res, "a Tag", cls)
            return
        tag = res[1]
        if not check_command(cx, case, a, ew, 0xA2, cls):
            return
        if tag.error is not None or canon_v(tag.value) != want:
            R.fail("read does not return the addressed data", case, [tag.error] + canon_v(tag.value), want, cls)
            return
    if ft in "TC":
        return                                            # writes to timers / counters are outside the property

    # ---- write, frame condition, read back
    co.load(files)
    v = gen_value(rng, a)
    case = dict(case, value=v)
    expect = co.refwrite(a, v)
    if expect is None:
        raise RuntimeError(f"generator bug: value {v!r} not writable at {a}")
    before = co.dump_all()
    res = do_write(cx, s, v)
    if res[0] != "ok":
        R.fail("write of a well-formed address / value raised", case, res, "a Tag", cls)
        return
    tag = res[1]
    if not check_command(cx, case, a, ew, 0xAB, cls):
        return
    after = co.dump_all()
    want_after = dict(before)
    want_after[a[1]] = (before[a[1]][0], before[a[1]][1], expect)
    if tag.error is not None:
        R.fail("write of a well-formed address was refused by the target", case, tag.error, None, cls)
        return
    if after != want_after:
        diff = {n: [i for i, (x, y) in enumerate(zip(after[n][2], want_after[n][2])) if x != y] for n in after if after[n] != want_after.get(n)}
        R.fail("after the write the data table is not the reference write (wrong words / bits changed)", case, diff, "only the addressed data", cls)
        return
    res = do_read(cx, s)
    if res[0] != "ok" or res[1].error is not None:
        R.fail("read-back after a write failed", case, res, "a Tag", cls)
        return
    back = res[1].value
    wantv = bool(v) if a[4] is not None else v
    if not same_value(back, wantv):
        R.fail("a read after the write does not return the written value", case, repr(back), repr(wantv), cls)


def fault_scenario(cx, a, sp, rng):
    """the address is not in the table (no such file / wrong type / too short): correspondence only,
    plus: the table must not change"""
    R, co = cx.R, cx.co
    s = co.render(sp, a)
    fault = rng.choice(["nofile", "short", "type"] + (["sub"] if a[0] in "IO" and a[3] > 0 else []))
    files = gen_table(rng, a, fault)
    co.load(files)
    R.case(["fault", fault, s], nontrivial=True)
    R.count("fault", fault)
    do_read(cx, s)
    if a[0] not in "TC":
        do_write(cx, s, gen_value(rng, a))


# ---- rejection -----------------------------------------------------------------------------------
UNSUPPORTED = "DEGHJKMPQUVWXYZ"


def digits(rng, n, width=0):
    return str(n).rjust(width, "0")


def gen_reject(rng, co):
    """(string, class, overlong?) : an otherwise well-shaped address with an unsupported letter or one number out of range"""
    a = gen_addr(rng, rng.choice("NNBBFLSIOTC"))
    ft, file, elem, sub, bit, cnt = a
    kinds = ["letter"]
    if ft not in "S":
        kinds.append("file")
    kinds.append("elem")
    if bit is not None and ft not in "TC":
        kinds.append("bit")
    kind = rng.choice(kinds)
    sp = list(gen_spelling(rng, a))
    if ft in "IO" and kind == "file":
        sp[8] = True
    flat = sp[7] and ft == "B" and bit is not None
    if flat and kind in ("elem", "bit"):
        kind = "flatbit"
    s = co.render(tuple(sp), a)
    L = s[0]
    if kind == "letter":
        c = rng.choice(UNSUPPORTED)
        s2 = (c.lower() if rng.random() < 0.3 else c) + s[1:]
        if ft in "TC":
            # the mnemonic itself contains supported letters; keep the shape but use the word form
            s2 = s2[0] + s[1:s.index(".")]
        return s2, "reject:unsupported-letter", False, kind
    # positions of the digit runs in the rendered string
    import re as _re
    runs = [(m.start(), m.end()) for m in _re.finditer(r"\d+", s)]
    io_nofile = ft in "IO" and not sp[8]
    idx = {"file": 0, "elem": 0 if (ft == "S" or io_nofile) else 1, "flatbit": 1}.get(kind)
    if kind == "bit":
        idx = len(runs) - 1
    lo, hi = runs[idx]
    limit = {"file": 3, "elem": 3, "bit": 2, "flatbit": 4}[kind]
    rng_max = {"file": 255, "elem": 255, "bit": 15, "flatbit": 4095}[kind]
    r = rng.random()
    if kind == "file" and r < 0.15 and ft not in "IO":
        bad = "0" * rng.randint(1, 3)
    elif r < 0.6:
        n = rng.choice([rng_max + 1, rng_max + 1, rng_max + 2, 10 ** limit - 1]) if rng.random() < 0.6 else rng.randint(rng_max + 1, 10 ** limit - 1)
        bad = str(n).rjust(rng.choice([0, limit]), "0")
    else:
        # more digits than the grammar has; value out of range in any case
        n = rng.randint(10 ** limit, 10 ** (limit + 2) - 1)
        bad = str(n)
    s2 = s[:lo] + bad + s[hi:]
    overlong = len(bad) > limit
    cls = "reject:" + kind
    if ft in "IO" and kind == "file":
        cls = "reject:io-file-number"
    elif overlong:
        cls = "reject:overlong-digit-run"
    return s2, cls, overlong, kind


def reject_oracle(cx, s, cls, rng):
    R, drv = cx.R, cx.drv
    from pycomm3.exceptions import RequestError
    R.count("reject", cls)
    R.case(["reject", s], nontrivial=True)
    for op in ("read", "write"):
        if op == "read":
            res = do_read(cx, s)
        else:
            res = do_write(cx, s, rng.choice([0, 1, True, [1, 2]]))
        if res != ("exc", EXN_CODES["RequestError"]):
            got = ["Tag", res[1].tag] if res[0] == "ok" else list(res)
            R.fail(f"{op}() of an address with an unsupported file type or an out-of-range number is not rejected with RequestError",
                   {"address": s, "op": op}, got, "RequestError", cls)
            return


# ---- the grammar of the property, read independently on arbitrary strings -----------------------------
import re as _re

_G_LFBN = _re.compile(r"([NBFL])(\d+):(\d+)(?:/(\d+))?(?:\{(\d+)\})?", _re.I)
_G_FLAT = _re.compile(r"(B)(\d+)/(\d+)", _re.I)
_G_S = _re.compile(r"(S):(\d+)(?:/(\d+))?(?:\{(\d+)\})?", _re.I)
_G_IO = _re.compile(r"([IO])(\d+)?:(\d+)(?:\.(\d+))?(?:/(\d+))?", _re.I)
_G_TC = _re.compile(r"([TC])(\d+):(\d+)\.([A-Z]+)", _re.I)
_T_MN = {"PRE": (1, None), "ACC": (2, None), "EN": (0, 15), "TT": (0, 14), "DN": (0, 13)}
_C_MN = {"PRE": (1, None), "ACC": (2, None), "CU": (0, 15), "CD": (0, 14), "DN": (0, 13), "OV": (0, 12), "UN": (0, 11), "UA": (0, 10)}


def grammar(s):
    """None = the property makes no demand on this string; ("addr", a) = a well-formed address of the
    grammar; ("reject", cls) = of the grammar's form with a file / element / bit number out of range"""
    def num(d, limit, lo, hi):
        """-> value | 'long' (more digits than the grammar has) ; sets out-of-range flag"""
        return int(d), len(d) > limit, not (lo <= int(d) <= hi)

    long_, bad = False, False

    def take(d, limit, lo, hi):
        nonlocal long_, bad
        v, l, b = num(d, limit, lo, hi)
        long_ |= l
        bad |= b
        return v
    m = _G_FLAT.fullmatch(s)
    if m:
        f = take(m.group(2), 3, 1, 255)
        n = take(m.group(3), 4, 0, 4095)
        if bad:
            return ("reject", "reject:overlong-digit-run" if long_ else "reject:grammar")
        return None if long_ else ("addr", ("B", f, n // 16, 0, n % 16, 1))
    m = _G_LFBN.fullmatch(s)
    if m:
        ft = m.group(1).upper()
        f = take(m.group(2), 3, 1, 255)
        e = take(m.group(3), 3, 0, 255)
        b = take(m.group(4), 2, 0, 15) if m.group(4) is not None else None
        if bad:
            return ("reject", "reject:overlong-digit-run" if long_ else "reject:grammar")
        c = int(m.group(5)) if m.group(5) is not None else 1
        if long_ or (b is not None and (ft in "FL" or m.group(5) is not None)) or not (1 <= c <= (63 if ft in "FL" else 127)):
            return None
        return ("addr", (ft, f, e, 0, b, c))
    m = _G_S.fullmatch(s)
    if m:
        e = take(m.group(2), 3, 0, 255)
        b = take(m.group(3), 2, 0, 15) if m.group(3) is not None else None
        if bad:
            return ("reject", "reject:overlong-digit-run" if long_ else "reject:grammar")
        c = int(m.group(4)) if m.group(4) is not None else 1
        if long_ or (b is not None and m.group(4) is not None) or not (1 <= c <= 127):
            return None
        return ("addr", ("S", 2, e, 0, b, c))
    m = _G_IO.fullmatch(s)
    if m:
        ft = m.group(1).upper()
        want = 0 if ft == "O" else 1
        e = take(m.group(3), 3, 0, 255)
        b = take(m.group(5), 2, 0, 15) if m.group(5) is not None else None
        if bad:
            return ("reject", "reject:overlong-digit-run" if long_ else "reject:grammar")
        if m.group(2) is not None and int(m.group(2)) > 255:
            return ("reject", "reject:io-file-number")
        w = int(m.group(4)) if m.group(4) is not None else 0
        if long_ or (m.group(2) is not None and (int(m.group(2)) != want or len(m.group(2)) > 3)) or w > 254 or (m.group(4) and len(m.group(4)) > 3):
            return None
        return ("addr", (ft, want, e, w, b, 1))
    m = _G_TC.fullmatch(s)
    if m:
        ft = m.group(1).upper()
        mn = (_T_MN if ft == "T" else _C_MN).get(m.group(4).upper())
        if mn is None:
            return None
        f = take(m.group(2), 3, 1, 255)
        e = take(m.group(3), 3, 0, 255)
        if bad:
            return ("reject", "reject:overlong-digit-run" if long_ else "reject:grammar")
        return None if long_ else ("addr", (ft, f, e, mn[0], mn[1], 1))
    if len(s) >= 2 and s[0].upper() in UNSUPPORTED and all(c in "0123456789:/.{}" for c in s[1:]):
        return ("reject", "reject:unsupported-letter")
    return None


# ---- parse_tag correspondence -------------------------------------------------------------------------
def canon_parse(d):
    if d is None:
        return ["none"]
    se = d.get("sub_element")
    pn = d.get("pos_number")
    return ["tag", d["file_type"], int(d["file_number"]), int(d["element_number"]),
            "none" if pn is None else int(pn), "none" if se is None else int(se),
            d["address_field"], d["element_count"], d["tag"]]


ALPHABET = "0123456789:/.{}NBFLSIOTCAnbstPREacDUVX -"


def edits(s, rng, k):
    out = set()
    for i in range(len(s) + 1):
        if i < len(s):
            out.add(s[:i] + s[i + 1:])
        for c in rng.sample(ALPHABET, k):
            out.add(s[:i] + c + s[i:])
            if i < len(s):
                out.add(s[:i] + c + s[i + 1:])
    return out


def parse_corr(R, co, strings, cx=None, rng=None, budget=0):
    """model vs implementation on every string; and, for the strings the property's own grammar speaks about
    (independent reader above): rejected ones must raise RequestError, accepted ones go through the full
    driver-level scenario oracle (up to `budget` of them, disagreeing ones first)"""
    from pycomm3.slc_driver import parse_tag
    strings = [s for s in dict.fromkeys(strings) if all(31 < ord(c) < 127 for c in s)]
    outs = co.mp.batch(["parse " + fw.t_text(s) for s in strings])
    todo_first, todo = [], []
    for s, o in zip(strings, outs):
        try:
            impl = canon_parse(parse_tag(s))
        except Exception as e:
            impl = ["exn", exn_code(e)]
        got = canon_line(fw.parse_line(o))
        R.corr_checked += 1
        R.count("parse_outcome", impl[0] if impl[0] != "tag" else "tag:" + impl[1])
        R.case(["parse", s], nontrivial=impl[0] == "tag")
        if got != impl:
            R.disagree("parse_tag", s, got, impl)
        g = grammar(s)
        if g is None:
            continue
        R.count("grammar_verdict", g[0] if g[0] == "addr" else g[1])
        if g[0] == "reject":
            if impl != ["none"]:
                (todo_first if got != impl else todo).append((s, g))
        else:
            (todo_first if got != impl or impl[0] != "tag" else todo).append((s, g))
    if cx is None:
        return
    if rng is not None:
        rng.shuffle(todo)
    for s, g in (todo_first + todo)[:budget]:
        if g[0] == "reject":
            reject_oracle(cx, s, g[1], rng)
        else:
            scenario(cx, g[1], None, rng, "stream", s=s)


def reply_corr(cx, a, sp, rng):
    """the Tag built from arbitrary replies: model vs implementation"""
    co = cx.co
    s = co.render(sp, a)
    ft = a[0]
    n = ESIZE[ft] * a[5]
    for _ in range(3):
        k = rng.random()
        data = rng.randbytes(rng.choice([0, 1, 2, 3, 4, 5, 6, 7, 8, n, n, n + 1, n + 2, max(0, n - 1)]))
        if ft == "F":                                     # no NaN patterns (ASSUMPTIONS): their payload does not survive float()
            bs = bytearray(data)
            for i in range(3, len(bs), 4):
                if bs[i] & 0x7F == 0x7F and bs[i - 1] & 0x80:
                    bs[i - 1] &= 0x7F
            data = bytes(bs)
        sts = rng.choice([0, 0, 0, 0x10, 0x50, 0xF0, 1, 255, rng.randrange(256)])
        body = bytes([0xCB, 0, 0, 0, 7, 9, 16, 9, 16, 25, 113, 0x4F, sts, 1, 0]) + data
        raw = rng.randbytes(46) + body
        if k < 0.25:
            raw = raw[:rng.choice([0, 10, 44, 46, 57, 58, 59, 60, 61, 62])]
        cx.R.count("reply", "sts=0" if sts == 0 else "sts!=0")
        do_read(cx, s, script=raw)


# ====================================================================================================
# Extension: the data-file directory and the processor type (Model/SlcDir.v, Spec/SlcDirSpec.v)
#   correspondence of _get_sys0_info, _parse_file0, _read_whole_file_directory, _get_file_directory_size
#   and get_processor_type with the model; the round-trip oracle (spec-side image of a directory ->
#   the directory) evaluated on the implementation.  The C18 property text does not speak about the
#   directory: deviations of the implementation from the round trip are recorded with R.count only.
# ====================================================================================================
DIR_CATS = ["1761-L16BWA", "1762-L40BWA", "1763-L16BWA", "1764-LRP", "1766-L32BWA", "1747-L552", "1747-L551/C", "", "1", "176",
            "1761", "1762", "1763", "1764", "1765", "1766", "17661", " 1766", "1760", "1767-X", "1766-l32", "SLC 5/05", "l766"]
DIR_TYPES = ["N", "B", "T", "C", "S", "F", "ST", "A", "R", "O", "I", "L", "MG", "PD", "PLS"]       # index = the spec's type index
DIR_ESIZE = [2, 2, 6, 6, 2, 4, 84, 2, 6, 2, 2, 4, 50, 46, 12]
DIR_CODES = [0x89, 0x85, 0x86, 0x87, 0x84, 0x8A, 0x8D, 0x8E, 0x88, 0x82, 0x83, 0x91, 0x92, 0x93, 0x94]


def dir_family(cat):
    """(position, row size) of the family of a catalog string: the harness's own reading of the layout"""
    p = cat[:4]
    if p == "1761":
        return 93, 8
    if p in ("1762", "1763", "1764", "1766"):
        return 233, 10
    return 79, 10


def impl_sys0(cat):
    from pycomm3 import slc_driver
    return slc_driver._get_sys0_info(cat)


def impl_parse_file0(sys0, data):
    import contextlib
    import io
    from pycomm3 import slc_driver
    try:
        with contextlib.redirect_stdout(io.StringIO()):
            d = slc_driver._parse_file0(sys0, data)
    except Exception as e:
        return ["exn", exn_code(e)]
    out = ["ok", len(d)]
    for k, v in d.items():
        out += [k, v["elements"], v["length"]]
    return out


def gen_cat(rng):
    if rng.random() < 0.8:
        return rng.choice(DIR_CATS)
    return "".join(rng.choice("1764 6-LBWA25") for _ in range(rng.randint(0, 8)))


def gen_dir_files(rng):
    """a well-formed directory: (type index, number, elements), numbers strictly increasing"""
    files, num = [], rng.choice([0, 0, 0, 1, 2, 9])
    for _ in range(rng.choice([0, 1, 2, 5, 9, 12, 20, 30])):
        t = rng.randrange(15)
        mx = 65535 // DIR_ESIZE[t]
        el = rng.choice([0, 1, 2, mx, mx - 1, rng.randint(0, mx), rng.randint(0, 300)])
        files.append((t, num, el))
        num += rng.choice([1, 1, 1, 1, 2, 3, 7]) if num < 900 else 1
    return files


def gen_dir_rows(rng, rs):
    rows = []
    for _ in range(rng.choice([0, 1, 3, 8, 15, 25])):
        k = rng.random()
        if k < 0.6:
            t = rng.randrange(15)
            mx = 65535 // DIR_ESIZE[t]
            rows.append(["f", str(t), str(rng.choice([0, 1, mx, rng.randint(0, mx), rng.randint(0, 100)])), fw.t_bytes(rng.randbytes(rs - 3))])
        elif k < 0.75:
            rows.append(["r", fw.t_bytes(rng.randbytes(rs - 1))])
        else:
            c = rng.choice([0, 0x22, 0x80, 0x8B, 0x8C, 0x8F, 0x90, 0x95, 0xFF, rng.randrange(256)])
            if c in DIR_CODES or c == 0x81:
                c = 0x21
            rows.append(["o", str(c), fw.t_bytes(rng.randbytes(rs - 1))])
    return rows


def dir_parse_corr(R, co, cat, image, kind, expect=None):
    """_parse_file0 on one image: model vs implementation (+ the round trip, counted only)"""
    m = co.ask("parsefile0", fw.t_text(cat), fw.t_bytes(image))
    i = impl_parse_file0(impl_sys0(cat), image)
    R.corr_checked += 1
    R.case(["dir", kind, cat, image], nontrivial=True)
    R.count("slcdir_parse", kind + (":ok" if i[0] == "ok" else ":exn%s" % i[1]))
    if m != i:
        R.disagree("_parse_file0", {"catalog": cat, "image": image, "kind": kind}, m, i)
    if expect is not None:
        R.count("slcdir_roundtrip_on_impl", "same" if i == ["ok"] + expect else "DIFFERENT (not a C18 clause)")
        if m != ["ok"] + expect:
            R.disagree("_parse_file0 model vs spec round trip (theorem C18_dir_roundtrip says equal)", {"catalog": cat, "image": image}, m, expect)


class DirBudget(BaseException):
    """more reads than the image has bytes: the implementation's loop is not advancing"""


class DirSock:
    """a controller that holds a file-0 image and answers the protected typed reads of the directory"""

    def __init__(self, image, rng, fail_at=None):
        self.image, self.rng, self.fail_at = image, rng, fail_at
        self.sent, self.reads, self.replies = [], [], []

    def send(self, msg, timeout=0):
        self.sent.append(bytes(msg))
        return len(msg)

    def receive(self, timeout=0):
        if len(self.reads) > len(self.image) + 8:        # step budget: a loop that stops advancing must not hang the check
            raise DirBudget()
        mr = self.sent[-1][46:]
        size = mr[18]
        off = mr[21] if mr[21] != 0xFF or len(mr) < 24 else struct.unpack("<H", mr[22:24])[0]
        self.reads.append((size, off))
        sts = 0x10 if self.fail_at is not None and len(self.reads) > self.fail_at else 0
        data = self.image[2 * off:2 * off + size] if sts == 0 else b""
        body = bytes([0xCB, 0, 0, 0, 7]) + mr[7:13] + bytes([0x4F, sts]) + mr[15:17] + data
        rep = self.rng.randbytes(46) + body
        self.replies.append(rep)
        return rep

    def close(self):
        pass


def dir_reads_corr(R, co, drv, rng, image, size, fail_at=None):
    """_read_whole_file_directory against a controller holding `image`: reads, request bytes, data"""
    cat = gen_cat(rng)
    sys0 = dict(impl_sys0(cat))
    sys0["size"] = size
    keep = drv._sock
    sock = DirSock(image, rng, fail_at)
    drv._sock = sock
    tns0 = rng.randint(1, 60000)
    set_seq(drv, tns0)
    try:
        try:
            res = ["ok", drv._read_whole_file_directory(sys0)]
        except Exception as e:
            res = ["exn", exn_code(e)]
        except DirBudget:
            res = ["does not terminate", len(sock.reads)]
    finally:
        drv._sock = keep
    R.corr_checked += 1
    R.case(["dirread", size, len(image), fail_at], nontrivial=True)
    R.count("slcdir_reads", ("size<=0" if size <= 0 else "1 read" if size <= 80 else "%d+ reads" % min(4, (size + 79) // 80)) + ("" if fail_at is None else ":status"))
    case = {"size": size, "image_len": len(image), "fail_at": fail_at, "catalog": cat}
    if fail_at is None:
        m = co.ask("readdir", str(size), "80", fw.t_bytes(image))
        want = ["ok", res[1], len(sock.reads)] + [x for r in sock.reads for x in r] if res[0] == "ok" else res
        if m != want:
            R.disagree("_read_whole_file_directory: reads / data", case, m, want)
            return
        # the statement of C18_dir_reads_tile, evaluated on what the implementation sent (count only)
        pos, tiled = 0, True
        for sz, off in sock.reads:
            tiled = tiled and sz > 0 and 2 * off == pos
            pos += sz
        tiled = tiled and (pos == max(size, 0)) and res[0] == "ok" and res[1] == image[:max(size, 0)]
        R.count("slcdir_tiling_on_impl", "tiles" if tiled else "DOES NOT TILE (not a C18 clause)")
    else:
        if res != ["exn", EXN_CODES["ResponseError"]] and len(sock.reads) > fail_at:
            R.disagree("_read_whole_file_directory: status != 0", case, ["exn", EXN_CODES["ResponseError"]], res)
    # every request the implementation sent = the model's request for that (size, offset)
    for frame, (sz, off) in zip(sock.sent, sock.reads):
        mr = frame[46:]
        tns = struct.unpack("<H", mr[15:17])[0]
        m = co.ask("dirreq", fw.t_bytes(drv._cfg["vid"]), fw.t_bytes(drv._cfg["vsn"]), str(tns), fw.t_text(cat), str(sz), str(off))
        R.corr_checked += 1
        if m != ["ok", mr]:
            R.disagree("_read_whole_file_directory: request bytes", dict(case, read=[sz, off]), m, mr)
    if sock.sent and struct.unpack("<H", sock.sent[0][46:][15:17])[0] != tns0:
        R.disagree("_read_whole_file_directory: transaction number", case, tns0, sock.sent[0][46:][15:17])


def dir_size_and_type_corr(R, co, drv, rng):
    """_get_file_directory_size and get_processor_type with scripted replies"""
    cat = gen_cat(rng)
    vid, vsn = fw.t_bytes(drv._cfg["vid"]), fw.t_bytes(drv._cfg["vsn"])
    sock = drv._sock
    # size
    sts = rng.choice([0, 0, 0, 0, 0x10, rng.randrange(256)])
    data = rng.choice([b"", b"\x01"] + 6 * [struct.pack("<H", rng.choice([0, 1, 19967, 19968, 19969, 20500, 65535, rng.randrange(65536)])) + rng.randbytes(rng.choice([0, 0, 3]))])
    raw = rng.randbytes(46) + bytes([0xCB, 0, 0, 0, 7, 9, 16, 9, 16, 25, 113, 0x4F, sts, 1, 0]) + data
    tns = rng.randint(1, 60000)
    set_seq(drv, tns)
    before = len(sock.sent)
    sock.script = raw
    try:
        res = drv._get_file_directory_size(dict(impl_sys0(cat)))
    except Exception as e:
        res = ["exn", exn_code(e)]
    sock.script = None
    sent = sock.sent[before:]
    m = co.ask("sizereq", vid, vsn, str(tns), fw.t_text(cat))
    R.corr_checked += 1
    R.case(["dirsize", cat, raw[58:]], nontrivial=True)
    if len(sent) != 1 or m != ["ok", sent[0][46:]]:
        R.disagree("_get_file_directory_size: request bytes", [cat, tns], m, [x[46:] for x in sent])
    if sts == 0:
        ms = co.ask("sizeof", fw.t_text(cat), fw.t_bytes(raw))
        want = ["none"] if res is None else ["some", res] if isinstance(res, int) else res
        R.count("slcdir_size", "none" if res is None else "size")
        if ms != want:
            R.disagree("_get_file_directory_size: size", [cat, raw], ms, want)
    elif res is not None:
        R.disagree("_get_file_directory_size: status != 0", [cat, raw], ["none"], res)
    # processor type: a SendUnitData reply frame as the reference target frames it, the catalog at bytes 66..76
    name = rng.choice(["1766-L32BWA", "1747-L552  ", " 1763-L16  ", "\t1761-L10\x1c\n ", "           ", "1764-LRP\x00\x00\x00", "".join(chr(rng.randrange(128)) for _ in range(11))])
    name = name.encode("latin-1")[:rng.choice([11, 11, 11, 11, 5, 0])]
    if rng.random() < 0.1:
        name = rng.randbytes(11)
    tns = rng.randint(1, 60000)
    set_seq(drv, tns)
    before = len(sock.sent)
    body0 = bytes([0xCB, 0, 0, 0, 7, 9, 16, 9, 16, 25, 113, 0x46, 0, 1, 0]) + rng.randbytes(5) + name + rng.randbytes(rng.choice([0, 0, 8]))

    class _Sock(FakeSock):
        def receive(self, timeout=0):
            req = self.sent[-1]
            body = req[44:46] + body0
            items = struct.pack("<IHH", 0, 0, 2) + struct.pack("<HH", 0xA1, 4) + req[36:40] + struct.pack("<HH", 0xB1, len(body)) + body
            self.last_reply = struct.pack("<HHII", 0x70, len(items), struct.unpack("<I", req[4:8])[0], 0) + req[12:20] + struct.pack("<I", 0) + items
            return self.last_reply

    ps = _Sock(sock.co)
    drv._sock = ps
    try:
        try:
            typ = drv.get_processor_type()
        except Exception as e:
            typ = ["exn", exn_code(e)]
    finally:
        drv._sock = sock
    m = co.ask("ptreq", vid, vsn, str(tns))
    R.corr_checked += 1
    R.case(["ptype", name], nontrivial=True)
    if len(ps.sent) != 1 or m != ["ok", ps.sent[0][46:]]:
        R.disagree("get_processor_type: request bytes", [tns], m, [x[46:] for x in ps.sent])
    elif ps.last_reply is not None:
        mt = co.ask("ptype", fw.t_bytes(ps.last_reply))
        if mt == ["nonascii"]:
            R.count("slcdir_ptype", "non-ascii (utf-8 decoding not modelled)")
        else:
            R.count("slcdir_ptype", "ascii")
            if mt != ["typ", typ]:
                R.disagree("get_processor_type: catalog string", [name, ps.last_reply], mt, typ)


class CoverageOnly:
    """The file directory / processor type are NOT part of the C18 property text: their model is there to
    cover more of slc_driver.py (theorems C18_dir_*).  A difference between that model and the code is
    therefore recorded (histogram + note with the first concrete case), never turned into a C18 verdict —
    a maintainer may correct the untested directory constants without breaking what C18 states."""

    def __init__(self, R):
        self._R = R

    def __getattr__(self, k):
        return getattr(self._R, k)

    def __setattr__(self, k, v):
        if k == "_R":
            object.__setattr__(self, k, v)
        else:
            setattr(self._R, k, v)

    def disagree(self, what, case, model, impl):
        self._R.count("slcdir_model_differs_from_code (model coverage only, not a C18 clause)", what)
        if sum(1 for n in self._R.notes if str(n).startswith("slcdir:")) < 5:
            self._R.notes.append("slcdir: model and code differ: %s | case %r | model %r | code %r" % (what, fw._jsonable(case), fw._jsonable(model), fw._jsonable(impl)))

    def fail(self, what, case, observed, expected, cls=""):
        self._R.count("slcdir_observation (not a C18 clause)", what)


def run_slcdir(R, co=None, drv=None, thorough=False):
    if not isinstance(R, CoverageOnly):
        R = CoverageOnly(R)
    if co is None:
        co = Co()
        try:
            return run_slcdir(R, co, make_driver(co), thorough)
        finally:
            co.close()
    rng = R.rng
    # 1. _get_sys0_info on catalog strings
    for cat in DIR_CATS + [gen_cat(rng) for _ in range(1500 if thorough else 300)]:
        d = impl_sys0(cat)
        i = ["sys0", d["file_position"], d["row_size"], d["file_type"], d["size_element"], d["size_len"],
             d.get("size_const", "none"), d.get("file_type_queue", "none")]
        if set(d) - {"file_position", "row_size", "file_type", "size_element", "size_len", "size_const", "file_type_queue"}:
            i.append(sorted(d))
        m = co.ask("sys0", fw.t_text(cat))
        R.corr_checked += 1
        R.case(["sys0", cat], nontrivial=True)
        R.count("slcdir_family", "%d/%d" % (d["file_position"], d["row_size"]))
        if m != i:
            R.disagree("_get_sys0_info", cat, m, i)
        f = co.ask("family", fw.t_text(cat))
        if f != ["fam", *dir_family(cat)]:
            raise RuntimeError(f"Spec/SlcDirSpec.family_of_catalog disagrees with the harness's reading of the layout on {cat!r}: {f}")
    # 2. _parse_file0: valid directories of every family (spec-side images), rows with reserved / foreign types, malformed images
    images = []
    for _ in range(6000 if thorough else 800):
        cat = gen_cat(rng)
        pos, rs = dir_family(cat)
        files = gen_dir_files(rng)
        r = co.ask("encdir", fw.t_text(cat), fw.t_bytes(rng.randbytes(pos)), *[str(x) for f in files for x in f])
        image, expect = r[1], r[2:]
        want = [len(files)] + [x for (t, n, e) in files for x in (DIR_TYPES[t] + str(n), e, e * DIR_ESIZE[t])]
        if expect != want:
            raise RuntimeError(f"Spec/SlcDirSpec.dir_view disagrees with the harness's reading of the directory: {files} {expect}")
        dir_parse_corr(R, co, cat, image, "valid", expect)
        images.append((cat, pos, rs, image))
    for _ in range(4000 if thorough else 450):
        cat = gen_cat(rng)
        pos, rs = dir_family(cat)
        r = co.ask("encrows", fw.t_bytes(rng.randbytes(pos)), *[x for row in gen_dir_rows(rng, rs) for x in row])
        dir_parse_corr(R, co, cat, r[1], "rows", r[2:])
        images.append((cat, pos, rs, r[1]))
    for _ in range(15000 if thorough else 1600):
        cat, pos, rs, image = rng.choice(images)
        k = rng.random()
        nrows = max(1, (len(image) - pos) // rs)
        if k < 0.45:                     # truncated: inside / at the edges of a row, in the header
            cut = rng.choice([pos + rs * rng.randrange(nrows) + rng.choice([0, 1, 2, 3, rs - 1]), rng.randrange(len(image) + 1), rng.choice([0, 1, 46, 47, 52, 53, 54, pos - 1, pos, pos + 1])])
            dir_parse_corr(R, co, cat, image[:max(0, cut)], "truncated")
        elif k < 0.8:                    # type bytes / length bytes overwritten
            b = bytearray(image)
            for _ in range(rng.choice([1, 1, 2, 5])):
                at = pos + rs * rng.randrange(nrows) + rng.choice([0, 0, 0, 1, 2])
                if at < len(b):
                    b[at] = rng.choice([0x81, 0, 0xFF, 0x80, 0x95, rng.choice(DIR_CODES), rng.randrange(256)])
            dir_parse_corr(R, co, rng.choice([cat, gen_cat(rng)]), bytes(b), "overwritten")
        elif k < 0.9:                    # the image of one family read with the layout of another
            dir_parse_corr(R, co, gen_cat(rng), image, "other-family")
        else:
            dir_parse_corr(R, co, cat, rng.randbytes(rng.choice([0, 1, 52, 53, 79, 80, 82, 93, 96, 233, 236, rng.randrange(400)])), "random")
    # any position / row size (the function takes the dict as given)
    for _ in range(4000 if thorough else 350):
        pos, rs = rng.choice([0, 1, 52, 53, 60, 79, 300]), rng.randint(1, 12)
        image = bytearray(rng.randbytes(rng.choice([53, 54, 60, 90, 150, 310])))
        for at in range(pos, len(image), rs):
            if rng.random() < 0.7:
                image[at] = rng.choice(DIR_CODES + [0x81])
        image = bytes(image[:rng.choice([len(image), len(image), rng.randrange(len(image) + 1)])])
        m = co.ask("parsefile0at", str(pos), str(rs), fw.t_bytes(image))
        i = impl_parse_file0({"file_position": pos, "row_size": rs}, image)
        R.corr_checked += 1
        R.case(["dirat", pos, rs, image], nontrivial=True)
        R.count("slcdir_parse", "any-layout" + (":ok" if i[0] == "ok" else ":exn%s" % i[1]))
        if m != i:
            R.disagree("_parse_file0 (position / row size as given)", {"pos": pos, "row": rs, "image": image}, m, i)
    # 3. _read_whole_file_directory
    for _ in range(1500 if thorough else 120):
        image = rng.randbytes(rng.choice([0, 1, 2, 79, 80, 81, 160, 161, 239, 240, 513, 600, 1023, rng.randrange(1200)]))
        size = rng.choice([len(image), len(image), len(image), max(0, len(image) - rng.randint(0, 90)), 0, -5, rng.randint(0, len(image))])
        dir_reads_corr(R, co, drv, rng, image, size)
        if size > 0 and rng.random() < 0.3:
            dir_reads_corr(R, co, drv, rng, image, size, fail_at=rng.randrange((size + 79) // 80))
    # 4. size and processor type
    for _ in range(3000 if thorough else 200):
        dir_size_and_type_corr(R, co, drv, rng)


# ------------------------------------------------------------------------------ entry points
def run_corpus(cx, rng):
    d = os.path.join(fw.VERIF, "corpus", "C18")
    if not os.path.isdir(d):
        return
    for fn in sorted(os.listdir(d)):
        if not fn.endswith(".json"):
            continue
        c = json.load(open(os.path.join(d, fn)))
        if c["kind"] == "scenario":
            a = tuple(c["addr"][:4]) + (c["addr"][4], c["addr"][5])
            scenario(cx, a, tuple(c["spelling"]), rng, "corpus")
        elif c["kind"] == "reject":
            reject_oracle(cx, c["address"], c["class"], rng)
        elif c["kind"] == "parse":
            parse_corr(cx.R, cx.co, c["strings"])
        cx.R.count("corpus", fn)


def run(R, escalate=False):
    thorough = R.tier == "thorough" or escalate
    rng = R.rng
    logging.disable(logging.CRITICAL)
    R.rule = ("addresses from the ADT (9 file types x word / bit / Bf/n / {count} / timer-counter sub-elements, boundary-biased file, element, bit, "
              "count) x spellings (case, leading zeros, optional I/O file / word) x random data tables x random values: real SLCDriver.read/write "
              "against the reference target; rejection classes; parse_tag on all of these plus every single-character edit, over-long digit "
              "runs, prefixes / suffixes — every such string the property's grammar (read independently) speaks about is also put to the driver-level oracle; "
              "replies with random status / length / truncation.  non-trivial = distinct (kind, address string)")
    co = Co()
    try:
        drv = make_driver(co)
        cx = Ctx(R, co, drv)
        run_corpus(cx, rng)
        n_scen = 12000 if thorough else 1300
        n_rej = 6000 if thorough else 700
        strings = []
        for i in range(n_scen):
            a = gen_addr(rng)
            sp = gen_spelling(rng, a)
            wa, ws = co.wf(sp, a)
            if not (wa and ws):
                raise RuntimeError(f"generator produced an address outside the grammar: {a} {sp}")
            k = rng.random()
            if k < 0.08:
                fault_scenario(cx, a, sp, rng)
            else:
                scenario(cx, a, sp, rng, "gen")
            if i % 4 == 0:
                reply_corr(cx, a, sp, rng)
            strings.append(co.render(sp, a))
        for _ in range(n_rej):
            s, cls, overlong, kind = gen_reject(rng, co)
            reject_oracle(cx, s, cls, rng)
            strings.append(s)
        # parse_tag correspondence: grammar strings, rejects, A / ST / R forms, edits, affixes
        extra = []
        for _ in range(3000 if thorough else 400):
            f, e = rng.randint(0, 300), rng.randint(0, 300)
            extra += [f"A{f}:{e}", f"ST{f}:{e}", f"st{f}:{e}{{{rng.randint(0, 3)}}}", f"R{f}:{e}", f"N{f}:{e}/{rng.randint(0, 20)}{{{rng.randint(0, 300)}}}",
                      f"I{f}:{e}.{rng.randint(0, 300)}/{rng.randint(0, 20)}", f"T{f}:{e}" + rng.choice("./ x") + rng.choice(["ACC", "pre", "Dn", "XX", "EN", "ua", "CUx"]),
                      f"S:{e}/{rng.randint(0, 20)}{{{rng.randint(0, 5)}}}", f"S{f}:{e}", f"B{f}/{rng.randint(0, 50000)}{{{rng.randint(0, 5)}}}", f"L{f}:{e}/{rng.randint(0, 31)}",
                      f"F{f}:{e}/{rng.randint(0, 20)}", f"O{f}:{e}{{{rng.randint(0, 9)}}}"]
        base = list(dict.fromkeys(strings))
        mutated = []
        for s in rng.sample(base, min(len(base), 1500 if thorough else 160)):
            mutated += list(edits(s, rng, 6 if thorough else 3))
        affixed = []
        for s in rng.sample(base, min(len(base), 2000 if thorough else 300)):
            affixed += [rng.choice(["x", " ", "N", "7", "Program:", "T4:0.", "ST"]) + s, s + rng.choice(["0", "x", " ", "/1", "{2}", ".ACC", ":1"]), s.swapcase()]
        R.count("parse_stream", "grammar+reject", len(base))
        R.count("parse_stream", "other-files", len(extra))
        R.count("parse_stream", "single-char-edits", len(mutated))
        R.count("parse_stream", "affixes/case", len(affixed))
        parse_corr(R, co, base + extra + mutated + affixed + ["", ":", "N", "N7", "N7:", "{", "N7:0{}", "N7:0{", "B3/", "I:", "O:0/", "T4:0.", "S:"],
                   cx=cx, rng=rng, budget=6000 if thorough else 700)
        run_slcdir(R, co, drv, thorough)
    finally:
        logging.disable(logging.NOTSET)
        co.close()


def replay(R, rp):
    """re-run the failing case of a replay file on the implementation (then the whole search)"""
    logging.disable(logging.CRITICAL)
    co = Co()
    try:
        cx = Ctx(R, co, make_driver(co))
        f = rp.get("failure") or {}
        c = f.get("case") or {}
        rng = R.rng
        if isinstance(c, dict) and "addr" in c:
            a = tuple(c["addr"][:4]) + (c["addr"][4], c["addr"][5])
            sp = tuple(c["spelling"]) if c.get("spelling") else None
            scenario(cx, a, sp, rng, "replay", s=c.get("address") if sp is None else None)
        elif isinstance(c, dict) and "address" in c:
            reject_oracle(cx, c["address"], f.get("class", "reject:replay"), rng)
    finally:
        logging.disable(logging.NOTSET)
        co.close()
    run(R, escalate=False)
