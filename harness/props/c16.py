"""C16 — device identities decode faithfully.

An identity (what a device reports) is generated here, put on the wire by the SPEC encoder
(Spec/IdentitySpec.v, extracted: ListIdentity reply frame / Identity-object reply inside a SendRRData
reply) and handed to the REAL pycomm3:
  ListIdentityObject.decode, ModuleIdentityObject.decode / .encode, ListIdentityResponsePacket,
  CIPDriver.list_identity, CIPDriver.get_module_info, LogixDriver.open + get_plc_info (UCMM for
  Micro800 names, Unconnected Send otherwise), CIPDriver.discover (response loop)
through a canned-reply fake kernel socket (the real pycomm3.socket_.Socket frames the replies).

(a) correspondence: Model/Identity.v (extracted) == implementation on the valid frames AND on a
    malformed stream (every truncation, byte corruptions, wrong lengths / status words, bad dicts for
    encode): same result or same exception class.
(b) oracle on the implementation = the statement: the returned dict equals `view id` (Spec side:
    table text or "UNKNOWN", serial as exactly 8 lower-case hex digits, name, revision, status bytes,
    IPv4 dotted quad, state), and decode(encode d) == d for every d of the dictionary domain.
    The expected view is computed twice (extracted Spec and a few lines of Python below) and the two
    must agree before the implementation is judged.
"""
import glob
import json
import os
import socket as _pysocket
import struct
import types

import framework as fw

ASSUMPTIONS = [
    "a ListIdentity reply carries exactly one item, the CIP Identity item (0x0C), first; an Identity-object reply is the "
    "message-router success reply (service|0x80, 0, status 0, ext size 0) followed by attributes 1..7 and possibly more attributes",
    "the kernel socket is a canned-reply fake: whole reply frames, delivered in <= 256-byte reads (segmentation is C12's subject)",
    "UDP discovery: datagrams are handed to the response loop in order, then the socket times out",
    "dict values of the documented Python types (str / int / bytes); product names are Latin-1 text",
    "the documented vendor / product-type / keyswitch registries are the hand-maintained snapshot coq/Spec/RegistrySpec.v "
    "(taken from pycomm3/cip/status_info.py at the pinned commit); /repo may add entries, not drop or change them",
]

CTX = b"_pycomm_"        # the context the driver sends and a device echoes
KEYS_MI = ("vendor", "product_type", "product_code", "revision", "status", "serial", "product_name")


# ------------------------------------------------------------------ identities
class Ident:
    __slots__ = ("vendor", "ptype", "pcode", "major", "minor", "status", "serial", "name", "encap", "family", "port", "ip", "state")

    def __init__(self, **kw):
        for k in self.__slots__:
            setattr(self, k, kw[k])

    def toks(self):
        return [fw.t_int(self.vendor), fw.t_int(self.ptype), fw.t_int(self.pcode), fw.t_int(self.major), fw.t_int(self.minor),
                fw.t_int(self.status), fw.t_int(self.serial), fw.t_text(self.name.decode("latin-1")), fw.t_int(self.encap),
                fw.t_int(self.family), fw.t_int(self.port), fw.t_int(self.ip), fw.t_int(self.state)]

    def as_dict(self):
        return {k: (getattr(self, k).hex() if k == "name" else getattr(self, k)) for k in self.__slots__}

    @staticmethod
    def from_dict(d):
        d = dict(d)
        d["name"] = bytes.fromhex(d["name"])
        return Ident(**d)


def py_struct_object(i):
    """the Identity object attributes 1..7, by struct.pack (cross-check of the extracted Spec encoder)"""
    return (struct.pack("<HHHBBHI", i.vendor, i.ptype, i.pcode, i.major, i.minor, i.status, i.serial)
            + bytes([len(i.name)]) + i.name)


def py_struct_list_reply(i, ctx):
    item = (struct.pack("<H", i.encap) + struct.pack(">HHI", i.family, i.port, i.ip) + bytes(8)
            + py_struct_object(i) + bytes([i.state]))
    body = struct.pack("<HHH", 1, 0x0C, len(item)) + item
    return struct.pack("<HHII", 0x63, len(body), 0, 0) + ctx + struct.pack("<I", 0) + body


def py_struct_rr_reply(i, session, ctx, extra):
    cip = b"\x81\x00\x00\x00" + py_struct_object(i) + extra
    body = bytes(4) + struct.pack("<HHHHHH", 0, 2, 0, 0, 0xB2, len(cip)) + cip
    return struct.pack("<HHII", 0x6F, len(body), session, 0) + ctx + struct.pack("<I", 0) + body


def py_view(i, tables):
    """the statement, in Python: what the client has to return for identity i (no pycomm3 code involved
    except the two declarative tables)"""
    vend, ptypes, keysw = tables
    digits = "0123456789abcdef"
    serial = "".join(digits[(i.serial >> (4 * k)) & 15] for k in range(7, -1, -1))
    ip = ".".join(str((i.ip >> s) & 255) for s in (24, 16, 8, 0))
    mi = [vend.get(i.vendor, "UNKNOWN"), ptypes.get(i.ptype, "UNKNOWN"), i.pcode, i.major, i.minor,
          bytes([i.status & 255, i.status >> 8]), serial, i.name.decode("latin-1")]
    ks = keysw.get(i.status & 255, {}).get(i.status >> 8, "UNKNOWN")
    return mi, [i.encap, ip] + mi + [i.state], mi + [ks]


def gen_identities(rng, n, tables):
    vend, ptypes, keysw = tables
    kv, kp = sorted(vend), sorted(ptypes)
    unk_v = [x for x in (0, max(kv) + 1, 65535, 6, 1000, 40000) if x not in vend] + [x for x in range(0, 2000) if x not in vend][:40]
    unk_p = [x for x in (max(kp) + 1, 65535, 255, 256, 1, 0x0F) if x not in ptypes] + [x for x in range(0, 400) if x not in ptypes][:40]
    b16 = [0, 1, 2, 127, 128, 255, 256, 257, 32767, 32768, 65534, 65535]
    b8 = [0, 1, 9, 10, 15, 16, 99, 100, 127, 128, 254, 255]
    ks_status = [a | (b << 8) for a in (96, 112, 97, 0) for b in (16, 17, 32, 33, 48, 49, 0, 50)]
    serial_b = [0, 1, 9, 10, 15, 16, 255, 256, 0xFFF, 0x1000, 0xFFFF, 0x10000, 0xABCDEF, 0x0FFFFFFF, 0x10000000, 0x7FFFFFFF,
                0x80000000, 0xFFFFFFFE, 0xFFFFFFFF, 0xDEADBEEF, 0x00C0FFEE, 0xA0B0C0D0, 0x0A0B0C0D]
    ip_b = [0, 1, 0xFFFFFFFF, 0x7F000001, 0xC0A80101, 0x0A000001, 0x01020304, 0x64C8FF09, 0x09630A64, 0xFF000000, 0x00FF0000, 0x0000FF00]
    out = []
    for k in range(n):
        ln = k % 256 if k < 512 else rng.choice([rng.randrange(0, 256), rng.randrange(0, 40), 255, 0, 1, 32])
        style = rng.random()
        if k < 256:
            name = bytes((k + j) % 256 for j in range(ln))            # every byte value, every length
        elif style < 0.35:
            name = rng.randbytes(ln)
        elif style < 0.6:
            name = bytes(rng.choice(b"ABCDEFGHIJKLMNOPQRSTUVWXYZabcdefghijklmnopqrstuvwxyz0123456789-/ _.") for _ in range(ln))
        elif style < 0.75:
            name = (b"2080-LC50-48QWB" + rng.randbytes(ln))[:ln]     # Micro800 prefix
        elif style < 0.85:
            name = (b"1756-L83E/B LOGIX5580" + bytes(rng.choice(b" ABC123") for _ in range(ln)))[:ln]
        else:
            name = bytes([rng.randrange(0, 256)]) * ln
        vclass = rng.random()
        vendor = rng.choice(kv) if vclass < 0.55 else (rng.choice(unk_v) if vclass < 0.8 else rng.randrange(0, 65536))
        pclass = rng.random()
        ptype = rng.choice(kp) if pclass < 0.55 else (rng.choice(unk_p) if pclass < 0.8 else rng.randrange(0, 65536))
        sclass = rng.random()
        serial = (rng.choice(serial_b) if sclass < 0.3 else
                  rng.randrange(0, 1 << rng.randrange(0, 33)) if sclass < 0.7 else rng.randrange(0, 1 << 32))
        stc = rng.random()
        status = rng.choice(ks_status) if stc < 0.35 else (rng.choice(b16) if stc < 0.5 else rng.randrange(0, 65536))
        out.append(Ident(
            vendor=vendor, ptype=ptype,
            pcode=rng.choice(b16) if rng.random() < 0.4 else rng.randrange(0, 65536),
            major=rng.choice(b8) if rng.random() < 0.4 else rng.randrange(0, 256),
            minor=rng.choice(b8) if rng.random() < 0.4 else rng.randrange(0, 256),
            status=status, serial=serial, name=name,
            encap=1 if rng.random() < 0.6 else rng.choice(b16 + [rng.randrange(0, 65536)]),
            family=2 if rng.random() < 0.6 else rng.choice(b16 + [rng.randrange(0, 65536)]),
            port=44818 if rng.random() < 0.6 else rng.choice(b16 + [rng.randrange(0, 65536)]),
            ip=rng.choice(ip_b) if rng.random() < 0.3 else rng.randrange(0, 1 << 32),
            state=rng.choice(b8) if rng.random() < 0.5 else rng.randrange(0, 256)))
    return out


# ------------------------------------------------------------------ canonical forms
def canon_mi(d):
    """implementation dict -> token-comparable list; anything of an unexpected shape is kept visible"""
    try:
        rev = d["revision"]
        return [d["vendor"], d["product_type"], d["product_code"], rev["major"], rev["minor"], d["status"], d["serial"], d["product_name"]]
    except Exception as e:
        return ["BADSHAPE", repr(d)[:200], type(e).__name__]


def canon_li(d):
    try:
        return [d["encap_protocol_version"], d["ip_address"]] + canon_mi(d) + [d["state"]]
    except Exception as e:
        return ["BADSHAPE", repr(d)[:200], type(e).__name__]


def same(a, b):
    """equality that also distinguishes str / bytes / int / bool"""
    if type(a) is not type(b):
        return False
    if isinstance(a, (list, tuple)):
        return len(a) == len(b) and all(same(x, y) for x, y in zip(a, b))
    return a == b


def no_encap(x):
    """the statement does not name encap_protocol_version: the oracle leaves it to the correspondence.
    x = [tag, encap, ip, ...] | [valid, tag, encap, ip, ...] | [n, 11 tokens per device ...]"""
    x = list(x)
    if x and x[0] in ("ok", "some") and len(x) == 12:
        return x[:1] + x[2:]
    if len(x) == 13 and x[1] == "some":
        return x[:2] + x[3:]
    if x and isinstance(x[0], int) and not isinstance(x[0], bool) and len(x) == 1 + 11 * x[0]:
        out = x[:1]
        for k in range(x[0]):
            out += x[2 + 11 * k: 12 + 11 * k]
        return out
    return x


def exc_code(e):
    from pycomm3.exceptions import BufferEmptyError, DataError, CommError, RequestError, ResponseError
    if isinstance(e, BufferEmptyError):
        return 2
    for cls, c in ((DataError, 1), (CommError, 3), (RequestError, 4), (ResponseError, 5)):
        if type(e) is cls:
            return c
    return "foreign:" + type(e).__name__


def m_res(toks, k):
    """model answer `OK <k tokens>` | `ERR code`"""
    if toks and str(toks[0]) == "OK":
        return ["ok"] + list(toks[1:1 + k])
    if toks and str(toks[0]) == "ERR":
        return ["err", toks[1]]
    return ["?"] + [str(t) for t in toks]


def m_opt(toks, k):
    if toks and str(toks[0]) == "SOME":
        return ["some"] + list(toks[1:1 + k])
    if toks and str(toks[0]) == "NONE":
        return ["none"]
    return ["?"] + [str(t) for t in toks]


def impl_res(f, canon):
    try:
        return ["ok"] + canon(f())
    except Exception as e:
        return ["err", exc_code(e)]


def mi_toks(v):
    return [fw.t_text(v[0]), fw.t_text(v[1]), fw.t_int(v[2]), fw.t_int(v[3]), fw.t_int(v[4]), fw.t_bytes(v[5]), fw.t_text(v[6]), fw.t_text(v[7])]


def mi_dict(v):
    return {"vendor": v[0], "product_type": v[1], "product_code": v[2], "revision": {"major": v[3], "minor": v[4]},
            "status": v[5], "serial": v[6], "product_name": v[7]}


# ------------------------------------------------------------------ fake sockets
class Hang(BaseException):
    pass


class Device:
    """a canned-reply device: answers RegisterSession, ListIdentity, Get_Attributes_All of the Identity
    object (directly = UCMM, or wrapped in Unconnected Send), Get_Attributes_All of the program-name
    object; frames come from the extracted Spec encoder (prepared by the scenario)."""

    def __init__(self, session, list_reply, rr_reply, plc_name=b"prg"):
        self.session, self.list_reply, self.rr_reply, self.plc_name = session, list_reply, rr_reply, plc_name
        self.log = []

    def _hdr(self, cmd, body, status=0, session=None, ctx=CTX):
        return struct.pack("<HHII", cmd, len(body), self.session if session is None else session, status) + ctx + struct.pack("<I", 0) + body

    def on_frame(self, f):
        cmd, ln, sess, status = struct.unpack_from("<HHII", f, 0)
        ctx = f[12:20]
        body = f[24:]
        if cmd == 0x65:
            self.log.append("register")
            return self._hdr(0x65, body[:4] if len(body) >= 4 else b"\x01\x00\x00\x00", ctx=ctx)
        if cmd == 0x66:
            self.log.append("unregister")
            return None
        if cmd == 0x63:
            self.log.append("list_identity")
            return self.list_reply if ctx == CTX else self._hdr(0x63, b"", status=3, ctx=ctx)
        if cmd == 0x6F:
            if sess != self.session:
                self.log.append("bad_session")
                return self._hdr(0x6F, b"", status=0x64, session=sess, ctx=ctx)
            try:
                cnt, = struct.unpack_from("<H", body, 6)
                at, al, dt, dl = struct.unpack_from("<HHHH", body, 8)
                msg = body[16:16 + dl]
                if cnt != 2 or at != 0 or al != 0 or dt != 0xB2 or dl != len(body) - 16:
                    raise ValueError("cpf")
                svc, psz = msg[0], msg[1]
                path, data = msg[2:2 + 2 * psz], msg[2 + 2 * psz:]
                via = "ucmm"
                if svc == 0x52 and path == b"\x20\x06\x24\x01":
                    mlen, = struct.unpack_from("<H", data, 2)
                    emb = data[4:4 + mlen]
                    rest = data[4 + mlen + (mlen % 2):]
                    if len(rest) < 2 or len(rest) != 2 + 2 * rest[0]:
                        raise ValueError("route")
                    svc, psz = emb[0], emb[1]
                    path, data = emb[2:2 + 2 * psz], emb[2 + 2 * psz:]
                    via = "unconnected_send:" + rest[2:].hex()
                if svc == 0x01 and path == b"\x20\x01\x24\x01":
                    # request data after the path is not this property's subject (C14): tolerated, like a device would
                    self.log.append("identity:" + via)
                    return self.rr_reply if ctx == CTX else self._hdr(0x6F, b"", status=3, ctx=ctx)
                if svc in (0x54, 0x5B) and path == b"\x20\x06\x24\x01" and via == "ucmm":
                    # (Large) Forward Open: grant the connection; O->T id chosen here, T->O id echoed
                    self.log.append("forward_open")
                    self.t_o_cid = data[6:10]
                    cip = bytes([svc | 0x80, 0, 0, 0]) + b"\x11\x22\x33\x44" + data[6:18] + data[22:26] + data[22:26] + b"\x00\x00"
                    return self._hdr(0x6F, bytes(4) + struct.pack("<HHHHHH", 0, 2, 0, 0, 0xB2, len(cip)) + cip, ctx=ctx)
                if svc == 0x4E and path == b"\x20\x06\x24\x01" and via == "ucmm":
                    self.log.append("forward_close")
                    cip = b"\xce\x00\x00\x00" + data[2:10] + b"\x00\x00"
                    return self._hdr(0x6F, bytes(4) + struct.pack("<HHHHHH", 0, 2, 0, 0, 0xB2, len(cip)) + cip, ctx=ctx)
                self.log.append("unsupported:%02x:%s" % (svc, path.hex()))
                cip = bytes([svc | 0x80, 0, 0x08, 0])
                return self._hdr(0x6F, bytes(4) + struct.pack("<HHHHHH", 0, 2, 0, 0, 0xB2, len(cip)) + cip, ctx=ctx)
            except (struct.error, IndexError, ValueError):
                self.log.append("malformed_request")
                return self._hdr(0x6F, b"", status=3, ctx=ctx)
        if cmd == 0x70 and sess == self.session:
            # connected message: only the program-name object (get_plc_name during LogixDriver.open)
            try:
                at, al = struct.unpack_from("<HH", body, 8)
                cid = body[12:16]
                dt, dl, seq = struct.unpack_from("<HHH", body, 16)
                msg = body[22:]
                if at != 0xA1 or al != 4 or dt != 0xB1 or dl != len(msg) + 2 or cid != b"\x11\x22\x33\x44":
                    raise ValueError("cpf")
                svc, psz = msg[0], msg[1]
                path = msg[2:2 + 2 * psz]
                if svc == 0x01 and path == b"\x20\x64\x24\x01":
                    self.log.append("plc_name")
                    cip = b"\x81\x00\x00\x00" + struct.pack("<H", len(self.plc_name)) + self.plc_name
                else:
                    self.log.append("connected-unsupported:%02x:%s" % (svc, path.hex()))
                    cip = bytes([svc | 0x80, 0, 0x08, 0])
                return self._hdr(0x70, bytes(4) + struct.pack("<HHHH", 0, 2, 0xA1, 4) + self.t_o_cid
                                 + struct.pack("<HHH", 0xB1, len(cip) + 2, seq) + cip, ctx=ctx)
            except (struct.error, IndexError, ValueError, AttributeError):
                self.log.append("malformed_connected_request")
                return self._hdr(0x70, b"", status=3, ctx=ctx)
        self.log.append("cmd:%04x" % cmd)
        return self._hdr(cmd, b"", status=1, ctx=ctx)


class FakeKernelSock:
    """what pycomm3.socket_.Socket holds in .sock"""

    def __init__(self, dev, budget=400):
        self.dev, self.inbuf, self.outbuf, self.calls, self.budget = dev, b"", b"", 0, budget

    def _tick(self):
        self.calls += 1
        if self.calls > self.budget:
            raise Hang()

    def settimeout(self, t):
        pass

    def setsockopt(self, *a):
        pass

    def send(self, buf):
        self._tick()
        self.inbuf += bytes(buf)
        while len(self.inbuf) >= 24:
            ln, = struct.unpack_from("<H", self.inbuf, 2)
            if len(self.inbuf) < 24 + ln:
                break
            f, self.inbuf = self.inbuf[:24 + ln], self.inbuf[24 + ln:]
            r = self.dev.on_frame(f)
            if r is not None:
                self.outbuf += r
        return len(buf)

    def recv(self, n):
        self._tick()
        if not self.outbuf:
            raise _pysocket.timeout("timed out")
        d, self.outbuf = self.outbuf[:n], self.outbuf[n:]
        return d

    def close(self):
        pass


class Patched:
    """for the duration: pycomm3.cip_driver.Socket builds real Socket objects over a FakeKernelSock of
    `dev`; pycomm3.cip_driver.socket (used by discover only) is a fake module serving `datagrams`."""

    def __init__(self, dev=None, datagrams=None):
        self.dev, self.datagrams = dev, datagrams
        self.udp_sent = []

    def __enter__(self):
        import pycomm3.cip_driver as cd
        from pycomm3.socket_ import Socket
        outer = self
        self.cd, self.saved = cd, (cd.Socket, cd.socket)

        class FakeSocket(Socket):
            def __init__(self, timeout=5.0):
                self.sock = FakeKernelSock(outer.dev)

            def connect(self, host, port):
                pass

        class UdpSock:
            first = [True]

            def __init__(self, *a):
                self.q = list(outer.datagrams or []) if UdpSock.first[0] else []
                UdpSock.first[0] = False
                self.calls = 0

            def settimeout(self, t):
                pass

            def setsockopt(self, *a):
                pass

            def bind(self, addr):
                pass

            def sendto(self, msg, addr):
                outer.udp_sent.append((bytes(msg), addr))

            def recv(self, n):
                self.calls += 1
                if self.calls > 4000:
                    raise Hang()
                if not self.q:
                    raise _pysocket.timeout("timed out")
                return self.q.pop(0)[:n]

            def close(self):
                pass

        fake_mod = types.SimpleNamespace(
            socket=UdpSock, AF_INET=_pysocket.AF_INET, SOCK_DGRAM=_pysocket.SOCK_DGRAM, SOL_SOCKET=_pysocket.SOL_SOCKET,
            SO_BROADCAST=_pysocket.SO_BROADCAST, timeout=_pysocket.timeout, error=OSError, AddressFamily=_pysocket.AddressFamily,
            gethostname=lambda: "verif-host",
            getaddrinfo=lambda host, port, *a, **k: [(_pysocket.AddressFamily.AF_INET, 1, 6, "", ("192.0.2.10", 0))])
        cd.Socket, cd.socket = FakeSocket, fake_mod
        return self

    def __exit__(self, *a):
        self.cd.Socket, self.cd.socket = self.saved
        return False


def drv_list_identity(dev):
    from pycomm3 import CIPDriver
    with Patched(dev):
        try:
            r = CIPDriver.list_identity("192.0.2.1")
        except Hang:
            return ["HANG"]
        except Exception as e:
            return ["err", exc_code(e)]
    if r == {}:
        return ["none"]
    return ["some"] + canon_li(r)


def drv_module_info(dev, slot):
    from pycomm3 import CIPDriver
    with Patched(dev):
        d = CIPDriver("192.0.2.1")
        try:
            d.open()
            try:
                return ["ok"] + canon_mi(d.get_module_info(slot))
            finally:
                d.close()
        except Hang:
            return ["HANG"]
        except Exception as e:
            return ["err", exc_code(e)]


def drv_plc_info(dev, path="192.0.2.1"):
    """LogixDriver.open() (ListIdentity, get_plc_info, get_plc_name) then get_plc_info() again"""
    from pycomm3 import LogixDriver
    with Patched(dev):
        d = LogixDriver(path, init_tags=False, init_program_tags=False)
        try:
            d.open()
            try:
                first = dict(d.info)
                r = d.get_plc_info()
                out = ["ok"] + canon_mi(r) + [r.get("keyswitch")]
                if canon_mi(first) != canon_mi(r) or first.get("keyswitch") != r.get("keyswitch"):
                    out.append("info-differs")
                return out
            finally:
                d.close()
        except Hang:
            return ["HANG"]
        except Exception as e:
            return ["err", exc_code(e)]


def drv_discover(datagrams):
    from pycomm3 import CIPDriver
    with Patched(None, datagrams) as p:
        try:
            devs = CIPDriver.discover()
        except Hang:
            return ["HANG"]
        except Exception as e:
            return ["err", exc_code(e)]
    out = [len(devs)]
    for d in devs:
        out += canon_li(d)
    return out


# ------------------------------------------------------------------ malformed stream
def mutations(frame, rng, k, lo=0):
    """corrupted variants of a frame: truncations, byte flips, insertions, deletions"""
    out = []
    n = len(frame)
    for _ in range(k):
        c = rng.random()
        if c < 0.35:
            out.append(("trunc", frame[:rng.randrange(lo, n)] if n > lo else frame))
        elif c < 0.65:
            b = bytearray(frame)
            for _ in range(rng.choice([1, 1, 1, 2, 4])):
                p = rng.randrange(lo, n) if n > lo else 0
                b[p] = rng.choice([0, 1, 0x7F, 0x80, 0xFF, b[p] ^ (1 << rng.randrange(8)), rng.randrange(256)])
            out.append(("flip", bytes(b)))
        elif c < 0.8:
            p = rng.randrange(lo, n + 1)
            out.append(("insert", frame[:p] + rng.randbytes(rng.choice([1, 2, 4])) + frame[p:]))
        elif c < 0.95:
            p = rng.randrange(lo, n) if n > lo else 0
            out.append(("delete", frame[:p] + frame[p + rng.choice([1, 2]):]))
        else:
            out.append(("random", rng.randbytes(rng.randrange(0, 90))))
    return out


# ------------------------------------------------------------------ the run
def load_tables():
    from pycomm3.cip import status_info as si
    return dict(si._VENDORS), dict(si._PRODUCT_TYPES), {k: dict(v) for k, v in si.KEYSWITCH.items()}


def check_pure(R, mp, ids, tables, rng, n_mut):
    """pure decoders / packet / encode on every identity + the malformed stream"""
    from pycomm3.custom_types import ListIdentityObject, ModuleIdentityObject
    from pycomm3.packets import ListIdentityResponsePacket, ListIdentityRequestPacket
    req = ListIdentityRequestPacket()
    lines = []
    for i in ids:
        t = i.toks()
        lines += [" ".join(["speclist", fw.t_bytes(CTX)] + t), " ".join(["specobj"] + t),
                  " ".join(["viewmod"] + t), " ".join(["viewlist"] + t), " ".join(["viewplc"] + t), " ".join(["inrange"] + t)]
    outs = mp.batch(lines)
    prepared = []
    for k, i in enumerate(ids):
        o = [fw.parse_line(x) for x in outs[6 * k:6 * k + 6]]
        frame, obj, vmod, vlist, vplc, inr = o[0][0], o[1][0], list(o[2]), list(o[3]), list(o[4]), o[5][0]
        pmod, plist, pplc = py_view(i, tables)
        case = i.as_dict()
        # the Spec side must be self-consistent before it judges anything
        if frame != py_struct_list_reply(i, CTX) or obj != py_struct_object(i):
            R.disagree("Spec encoder vs struct.pack", case, [frame, obj], [py_struct_list_reply(i, CTX), py_struct_object(i)])
        if not (same(vmod, pmod) and same(vlist, plist) and same(vplc, pplc)) or inr != 1:
            R.disagree("Spec view vs the statement in Python", case, [vmod, vlist, vplc, inr], [pmod, plist, pplc, 1])
        prepared.append((i, frame, obj, vmod, vlist, vplc))
    # ---- valid frames: correspondence + oracle
    lines, todo = [], []
    for i, frame, obj, vmod, vlist, vplc in prepared:
        extra = rng.choice([b"", b"", b"\x03", rng.randbytes(rng.randrange(1, 12))])
        lines += ["declist " + fw.t_bytes(frame[26:]), "decmod " + fw.t_bytes(obj + extra), "lipkt " + fw.t_bytes(frame)]
        todo.append(extra)
    outs = mp.batch(lines)
    enc_jobs = []
    for k, (i, frame, obj, vmod, vlist, vplc) in enumerate(prepared):
        extra = todo[k]
        case = {"ident": i.as_dict(), "extra": extra}
        vk = "known" if i.vendor in tables[0] else "unknown"
        pk = "known" if i.ptype in tables[1] else "unknown"
        R.count("vendor", vk)
        R.count("product_type", pk)
        R.count("name_len", "0" if not i.name else "1-31" if len(i.name) < 32 else "32-254" if len(i.name) < 255 else "255")
        R.count("serial_leading_zero_digits", 8 - len("%x" % i.serial) if i.serial else 8)
        R.count("keyswitch", vplc[8])
        # ListIdentityObject.decode
        impl = impl_res(lambda: ListIdentityObject.decode(frame[26:]), canon_li)
        mdl = m_res(fw.parse_line(outs[3 * k]), 11)
        R.corr_checked += 1
        R.case(("declist", frame))
        if not same(impl, mdl):
            R.disagree("ListIdentityObject.decode", case, mdl, impl)
        if not same(no_encap(impl), no_encap(["ok"] + vlist)):
            R.fail("ListIdentityObject.decode does not return the identity as encoded", case, impl, ["ok"] + vlist,
                   "ListIdentityObject.decode:" + field_class(impl, ["ok"] + vlist, LI_FIELDS))
        # ModuleIdentityObject.decode
        impl = impl_res(lambda: ModuleIdentityObject.decode(obj + extra), canon_mi)
        mdl = m_res(fw.parse_line(outs[3 * k + 1]), 8)
        R.corr_checked += 1
        R.case(("decmod", obj, extra))
        if not same(impl, mdl):
            R.disagree("ModuleIdentityObject.decode", case, mdl, impl)
        if not same(impl, ["ok"] + vmod):
            R.fail("ModuleIdentityObject.decode does not return the identity as encoded", case, impl, ["ok"] + vmod,
                   "ModuleIdentityObject.decode:" + field_class(impl, ["ok"] + vmod, MI_FIELDS))
        # ListIdentityResponsePacket
        pkt = ListIdentityResponsePacket(req, frame)
        impl = [1 if pkt else 0] + (["none"] if pkt.identity == {} else ["some"] + canon_li(pkt.identity))
        t = fw.parse_line(outs[3 * k + 2])
        mdl = [t[0]] + m_opt(t[1:], 11)
        R.corr_checked += 1
        R.case(("lipkt", frame))
        if not same(impl, mdl):
            R.disagree("ListIdentityResponsePacket", case, mdl, impl)
        if not same(no_encap(impl), no_encap([1, "some"] + vlist)):
            R.fail("ListIdentityResponsePacket: identity not as encoded / reply not valid", case, impl, [1, "some"] + vlist,
                   "ListIdentityResponsePacket:" + field_class(impl[1:], ["some"] + vlist, LI_FIELDS))
        if vk == "known" and pk == "known":
            enc_jobs.append((i, vmod, obj))
    # ---- encode . decode on the dictionary domain
    outs = mp.batch(["encmod " + " ".join(mi_toks(v)) for _, v, _ in enc_jobs])
    for (i, vmod, obj), o in zip(enc_jobs, outs):
        d = mi_dict(vmod)
        case = {"dict": vmod}
        try:
            b = ModuleIdentityObject.encode(d)
            impl = ["ok", b]
        except Exception as e:
            b, impl = None, ["err", exc_code(e)]
        mdl = m_res(fw.parse_line(o), 1)
        R.corr_checked += 1
        R.case(("encmod", tuple(map(repr, vmod))))
        R.count("encode", impl[0])
        if not same(impl, mdl):
            R.disagree("ModuleIdentityObject.encode", case, mdl, impl)
        back = impl_res(lambda: ModuleIdentityObject.decode(b), canon_mi) if b is not None else impl
        if not same(back, ["ok"] + vmod):
            R.fail("decode(encode(d)) != d", case, back, ["ok"] + vmod, "ModuleIdentityObject.encode-decode:" + field_class(back, ["ok"] + vmod, MI_FIELDS))
    # ---- malformed stream: correspondence only
    lines, jobs = [], []
    for i, frame, obj, vmod, vlist, vplc in prepared:
        for kind, f in mutations(frame, rng, n_mut):
            jobs.append(("lipkt", kind, f))
            lines.append("lipkt " + fw.t_bytes(f))
        for kind, f in mutations(frame[26:], rng, max(1, n_mut // 2)):
            jobs.append(("declist", kind, f))
            lines.append("declist " + fw.t_bytes(f))
        for kind, f in mutations(obj, rng, n_mut):
            jobs.append(("decmod", kind, f))
            lines.append("decmod " + fw.t_bytes(f))
    outs = mp.batch(lines)
    for (what, kind, f), o in zip(jobs, outs):
        t = fw.parse_line(o)
        if what == "lipkt":
            pkt = ListIdentityResponsePacket(req, f)
            impl = [1 if pkt else 0] + (["none"] if pkt.identity == {} else ["some"] + canon_li(pkt.identity))
            mdl = [t[0]] + m_opt(t[1:], 11)
        elif what == "declist":
            impl = impl_res(lambda: ListIdentityObject.decode(f), canon_li)
            mdl = m_res(t, 11)
        else:
            impl = impl_res(lambda: ModuleIdentityObject.decode(f), canon_mi)
            mdl = m_res(t, 8)
        R.corr_checked += 1
        R.case((what, f), nontrivial=True)
        R.count("malformed", f"{what}:{kind}")
        R.count("malformed_outcome", f"{what}:{impl[0] if what != 'lipkt' else impl[1]}" + (f":{impl[1]}" if impl[0] == "err" else ""))
        if not same(impl, mdl):
            R.disagree(what + " (malformed)", {"kind": kind, "bytes": f}, mdl, impl)
    return prepared


MI_FIELDS = ["", "vendor", "product_type", "product_code", "major", "minor", "status", "serial", "product_name"]
LI_FIELDS = ["", "encap_protocol_version", "ip_address"] + MI_FIELDS[1:] + ["state"]


def field_class(got, exp, names):
    """stable input class of an oracle failure: the first field that differs (or the exception)"""
    if got and got[0] == "err":
        return "raises"
    if len(got) != len(exp):
        return "shape"
    for k, (a, b) in enumerate(zip(got, exp)):
        if not same(a, b):
            return names[k] if k < len(names) and names[k] else "outcome"
    return "?"


def check_truncations(R, mp, prepared, n):
    """every strict prefix of a few complete frames (ListIdentity frame, Identity object)"""
    from pycomm3.custom_types import ListIdentityObject, ModuleIdentityObject
    from pycomm3.packets import ListIdentityResponsePacket, ListIdentityRequestPacket
    req = ListIdentityRequestPacket()
    lines, jobs = [], []
    for i, frame, obj, vmod, vlist, vplc in prepared[:n]:
        for cut in range(len(frame)):
            jobs.append(("lipkt", frame[:cut]))
            lines.append("lipkt " + fw.t_bytes(frame[:cut]))
        for cut in range(len(obj)):
            jobs.append(("decmod", obj[:cut]))
            lines.append("decmod " + fw.t_bytes(obj[:cut]))
    outs = mp.batch(lines)
    for (what, f), o in zip(jobs, outs):
        t = fw.parse_line(o)
        if what == "lipkt":
            pkt = ListIdentityResponsePacket(req, f)
            impl = [1 if pkt else 0] + (["none"] if pkt.identity == {} else ["some"] + canon_li(pkt.identity))
            mdl = [t[0]] + m_opt(t[1:], 11)
        else:
            impl = impl_res(lambda: ModuleIdentityObject.decode(f), canon_mi)
            mdl = m_res(t, 8)
        R.corr_checked += 1
        R.case((what, "cut", f))
        R.count("malformed", what + ":every-prefix")
        if not same(impl, mdl):
            R.disagree(what + " (prefix)", {"bytes": f}, mdl, impl)


BAD_DICTS = None


def check_bad_dicts(R, mp, prepared, rng, n):
    """encode on dicts outside the domain: same result / same exception class"""
    from pycomm3.custom_types import ModuleIdentityObject
    base = [v for (i, f, o, v, vl, vp) in prepared if v[0] != "UNKNOWN" and v[1] != "UNKNOWN"]
    if not base:
        return
    jobs = []
    for _ in range(n):
        v = list(rng.choice(base))
        c = rng.randrange(14)
        if c == 0:
            v[0] = rng.choice(["UNKNOWN", "", "no such vendor", v[0].lower(), v[0] + " "])
        elif c == 1:
            v[1] = rng.choice(["UNKNOWN", "", "nothing", v[1].upper()])
        elif c == 2:
            v[6] = v[6].upper()
        elif c == 3:
            v[6] = rng.choice(["", "0", "abc", "0x123456", "1234567", "123456789", "12 34 56 78", " 12345678", "1 2345678", "12345678 ",
                               "12\t34\n56\r78", "1234567g", "123456éé", "ffffffffff", "00000000ff", "0000000000000001"])
        elif c == 4:
            v[7] = "x" * rng.choice([255, 256, 300])
        elif c == 5:
            v[7] = rng.choice(["Ā", "abc€", "\xff\xfe", "\u0080"])
        elif c == 6:
            v[5] = rng.choice([b"", b"\x01", b"\x01\x02\x03", b"\xff\xff\xff\xff"])
        elif c == 7:
            v[2] = rng.choice([-1, 65536, 1 << 20, -32768])
        elif c == 8:
            v[3] = rng.choice([-1, 256, 1000])
        elif c == 9:
            v[4] = rng.choice([-1, 256, 70000])
        elif c == 10:
            v[6] = "%08X" % rng.randrange(1 << 32)
        elif c == 11:
            v[6] = "%x" % rng.randrange(1 << rng.randrange(1, 40))
        else:
            pass                                                       # in the domain
        jobs.append(v)
    outs = mp.batch(["encmod " + " ".join(mi_toks(v)) for v in jobs])
    for v, o in zip(jobs, outs):
        d = mi_dict(v)
        try:
            impl = ["ok", ModuleIdentityObject.encode(d)]
        except Exception as e:
            impl = ["err", exc_code(e)]
        mdl = m_res(fw.parse_line(o), 1)
        R.corr_checked += 1
        R.case(("encmod-bad", tuple(map(repr, v))))
        R.count("encode_outside_domain", impl[0])
        if not same(impl, mdl):
            R.disagree("ModuleIdentityObject.encode (outside the domain)", {"dict": v}, mdl, impl)


def rr_variants(rr, rng):
    """corrupted SendRRData replies for get_module_info / get_plc_info: status words, service byte, lengths"""
    out = [("valid", rr)]
    b = bytearray(rr)
    b[8:12] = struct.pack("<I", rng.choice([1, 3, 0x64, 0x65, 0xFFFFFFFF]))
    out.append(("encap-status", bytes(b)))
    b = bytearray(rr)
    b[42] = rng.choice([1, 4, 5, 6, 8, 0x1E, 0xFF])
    out.append(("service-status", bytes(b)))
    b = bytearray(rr)
    b[40] = rng.choice([0x01, 0x00, 0x7F, 0x80, 0xD2, 0xFF])
    out.append(("reply-service", bytes(b)))
    cut = rng.randrange(24, len(rr))
    b = bytearray(rr[:cut])
    b[2:4] = struct.pack("<H", cut - 24)
    out.append(("truncated", bytes(b)))
    cut = rng.choice([40, 41, 42, 43, 44, 45, 50, 57, 58, 59])
    if cut < len(rr):
        b = bytearray(rr[:cut])
        b[2:4] = struct.pack("<H", cut - 24)
        out.append(("truncated-boundary", bytes(b)))
    b = bytearray(rr)
    p = rng.randrange(44, len(rr))
    b[p] ^= 1 << rng.randrange(8)
    out.append(("flip", bytes(b)))
    return out


def check_drivers(R, mp, prepared, rng, n_valid, n_bad):
    """the public entry points over the canned-reply device"""
    sel = prepared[:n_valid]
    sessions = [rng.choice([1, 0x1234, 0xFFFFFFFF, rng.randrange(1, 1 << 32)]) for _ in sel]
    extras = [rng.choice([b"", b"", b"\x03", b"\x03\x00\xff", rng.randbytes(rng.randrange(1, 10))]) for _ in sel]
    outs = mp.batch([" ".join(["specrr", fw.t_int(s), fw.t_bytes(CTX), fw.t_bytes(e)] + p[0].toks()) for p, s, e in zip(sel, sessions, extras)])
    rrs = [fw.parse_line(o)[0] for o in outs]
    lines = []
    for p, rr in zip(sel, rrs):
        lines += ["listid " + fw.t_bytes(p[1]), "modinfo " + fw.t_bytes(rr), "plcinfo " + fw.t_bytes(rr)]
    mouts = mp.batch(lines)
    for k, ((i, frame, obj, vmod, vlist, vplc), s, e, rr) in enumerate(zip(sel, sessions, extras, rrs)):
        case = {"ident": i.as_dict(), "session": s, "extra": e}
        if rr != py_struct_rr_reply(i, s, CTX, e):
            R.disagree("Spec encoder vs struct.pack (SendRRData reply)", case, rr, py_struct_rr_reply(i, s, CTX, e))
        # CIPDriver.list_identity
        dev = Device(s, frame, rr)
        impl = drv_list_identity(dev)
        mdl = m_opt(fw.parse_line(mouts[3 * k]), 11)
        R.corr_checked += 1
        R.case(("list_identity", frame))
        R.count("driver", "list_identity")
        if not same(impl, mdl):
            R.disagree("CIPDriver.list_identity", case, mdl, impl)
        R.count("list_identity_exchange", ",".join(dev.log))
        if not same(no_encap(impl), no_encap(["some"] + vlist)):
            R.fail("CIPDriver.list_identity does not return the identity as encoded", {**case, "device_log": dev.log}, impl, ["some"] + vlist,
                   "list_identity:" + field_class(impl, ["some"] + vlist, LI_FIELDS))
        # CIPDriver.get_module_info (Unconnected Send through the backplane)
        slot = rng.choice([0, 1, 2, 5, 16])
        dev = Device(s, frame, rr)
        impl = drv_module_info(dev, slot)
        mdl = m_res(fw.parse_line(mouts[3 * k + 1]), 8)
        R.corr_checked += 1
        R.case(("get_module_info", rr))
        R.count("driver", "get_module_info")
        R.count("route", next((l.split(":")[1] for l in dev.log if l.startswith("identity:")), "none"))
        if not same(impl, mdl):
            R.disagree("CIPDriver.get_module_info", case, mdl, impl)
        if not same(impl, ["ok"] + vmod):
            R.fail("CIPDriver.get_module_info does not return the identity as encoded", {**case, "slot": slot, "device_log": dev.log}, impl,
                   ["ok"] + vmod, "get_module_info:" + field_class(impl, ["ok"] + vmod, MI_FIELDS))
        # LogixDriver.get_plc_info (UCMM when the ListIdentity name starts with 2080, Unconnected Send otherwise)
        dev = Device(s, frame, rr)
        impl = drv_plc_info(dev, rng.choice(["192.0.2.1", "192.0.2.1/1", "192.0.2.1/bp/3"]))
        mdl = m_res(fw.parse_line(mouts[3 * k + 2]), 9)
        R.corr_checked += 1
        R.case(("get_plc_info", rr))
        R.count("driver", "get_plc_info")
        via = [l.split(":")[1] for l in dev.log if l.startswith("identity:")]
        R.count("route", via[-1] if via else "none")
        if not same(impl, mdl):
            R.disagree("LogixDriver.get_plc_info", case, mdl, impl)
        # the statement names the identity fields; the keyswitch text and the cached .info are compared with the model only
        if not same(impl[:9], ["ok"] + vmod):
            R.fail("LogixDriver.get_plc_info does not return the identity as encoded", {**case, "device_log": dev.log}, impl[:9], ["ok"] + vmod,
                   "get_plc_info:" + field_class(impl[:9], ["ok"] + vmod, MI_FIELDS))
    # ---- discovery: several devices answer, some datagrams are not valid replies
    groups = []
    pool = prepared[: max(n_valid, 8)]
    for _ in range(max(4, n_valid // 6)):
        g = []
        for _ in range(rng.randrange(0, 6)):
            p = rng.choice(pool)
            c = rng.random()
            if c < 0.7:
                g.append(("valid", p[1], p[4]))
            elif c < 0.8:
                b = bytearray(p[1])
                b[8:12] = struct.pack("<I", rng.choice([1, 3, 0x65]))
                g.append(("encap-status", bytes(b), None))
            elif c < 0.9:
                g.append(("truncated", p[1][:rng.randrange(0, len(p[1]))], None))
            else:
                g.append(("noise", rng.randbytes(rng.randrange(0, 80)), None))
        groups.append(g)
    mouts = mp.batch([" ".join(["discover"] + [fw.t_bytes(d) for _, d, _ in g]) for g in groups])
    for g, o in zip(groups, mouts):
        impl = drv_discover([d for _, d, _ in g])
        t = fw.parse_line(o)
        R.corr_checked += 1
        R.case(("discover", tuple(d for _, d, _ in g)))
        R.count("driver", "discover")
        R.count("discover_datagrams", len(g))
        for kind, _, _ in g:
            R.count("discover_kind", kind)
        if not same(impl, list(t)):
            R.disagree("CIPDriver.discover (response loop)", {"datagrams": [[k, d] for k, d, _ in g]}, list(t), impl)
        if all(k == "valid" for k, _, _ in g):
            exp = [len(g)]
            for _, _, v in g:
                exp += v
            if not same(no_encap(impl), no_encap(exp)):
                R.fail("CIPDriver.discover does not return the identities as encoded", {"datagrams": [[k, d] for k, d, _ in g]}, impl, exp, "discover:valid")
    # ---- corrupted replies through the drivers: correspondence only
    jobs = []
    for (i, frame, obj, vmod, vlist, vplc), s, rr in list(zip(sel, sessions, rrs))[:n_bad]:
        for kind, f in rr_variants(rr, rng):
            jobs.append((kind, s, frame, f))
    lines = []
    for kind, s, frame, f in jobs:
        lines += ["modinfo " + fw.t_bytes(f), "plcinfo " + fw.t_bytes(f)]
    mouts = mp.batch(lines)
    for k, (kind, s, frame, f) in enumerate(jobs):
        for j, (what, fn, width) in enumerate((("get_module_info", lambda d: drv_module_info(d, 1), 8), ("get_plc_info", drv_plc_info, 9))):
            dev = Device(s, frame, f)
            impl = fn(dev)
            mdl = m_res(fw.parse_line(mouts[2 * k + j]), width)
            if what == "get_plc_info" and impl[0] == "ok" and impl[-1] == "info-differs":
                impl = impl[:-1]
            R.corr_checked += 1
            R.case((what, kind, f))
            R.count("driver_malformed", f"{what}:{kind}:{impl[0]}")
            if not same(impl, mdl):
                R.disagree(f"{what} (corrupted reply: {kind})", {"reply": f, "session": s}, mdl, impl)
    # a corrupted ListIdentity frame through the driver (header length kept consistent so the socket delivers it)
    jobs = []
    for (i, frame, obj, vmod, vlist, vplc), s, rr in list(zip(sel, sessions, rrs))[:n_bad]:
        for kind, f in mutations(frame, rng, 3, lo=24):
            f = f[:2] + struct.pack("<H", max(0, len(f) - 24)) + f[4:] if len(f) >= 24 else frame
            jobs.append((kind, s, f, rr))
    mouts = mp.batch(["listid " + fw.t_bytes(f) for _, _, f, _ in jobs])
    for (kind, s, f, rr), o in zip(jobs, mouts):
        impl = drv_list_identity(Device(s, f, rr))
        mdl = m_opt(fw.parse_line(o), 11)
        R.corr_checked += 1
        R.case(("list_identity", kind, f))
        R.count("driver_malformed", f"list_identity:{kind}:{impl[0]}")
        if not same(impl, mdl):
            R.disagree(f"CIPDriver.list_identity (corrupted reply: {kind})", {"reply": f}, mdl, impl)


def check_primitives(R, mp, rng, tables, thorough):
    """table lookups for every id around the tables, the serial formatting, the keyswitch table"""
    from pycomm3.cip import VENDORS, PRODUCT_TYPES, KEYSWITCH
    vend, ptypes, keysw = tables
    ids = sorted(set(list(vend) + list(ptypes) + list(range(0, 1600)) + [65535, 65534, 32768] + [rng.randrange(0, 65536) for _ in range(200)]))
    if thorough:
        ids = list(range(65536))
    outs = mp.batch([f"vget {i}" for i in ids] + [f"pget {i}" for i in ids])
    for k, i in enumerate(ids):
        for what, tab, o, ref in (("VENDORS.get", VENDORS, outs[k], vend), ("PRODUCT_TYPES.get", PRODUCT_TYPES, outs[len(ids) + k], ptypes)):
            impl = tab.get(i, "UNKNOWN")
            mdl = fw.parse_line(o)[0]
            R.corr_checked += 1
            R.case((what, i), nontrivial=i in ref)
            if not same(impl, mdl):
                R.disagree(what, i, mdl, impl)
    names = sorted(set(vend.values())) + sorted(set(ptypes.values())) + ["UNKNOWN", "", "rockwell automation/allen-bradley"]
    outs = mp.batch([f"vitem {fw.t_text(n)}" for n in names] + [f"pitem {fw.t_text(n)}" for n in names])
    for k, n in enumerate(names):
        for what, tab, o in (("VENDORS[name]", VENDORS, outs[k]), ("PRODUCT_TYPES[name]", PRODUCT_TYPES, outs[len(names) + k])):
            try:
                impl = ["ok", tab[n]]
            except KeyError:
                impl = ["err", 12]
            mdl = m_res(fw.parse_line(o), 1)
            R.corr_checked += 1
            R.case((what, n))
            if not same(impl, mdl):
                R.disagree(what, n, mdl, impl)
    sers = [0, 1, 15, 16, 0xFFFFFFFF, 0x0FFFFFFF, 0x10000000] + [rng.randrange(0, 1 << rng.randrange(0, 33)) for _ in range(3000 if thorough else 300)]
    outs = mp.batch([f"fmt08x {n}" for n in sers] + [f"shex8 {n}" for n in sers])
    for k, n in enumerate(sers):
        impl = f"{n:08x}"
        mdl, spec = fw.parse_line(outs[k])[0], fw.parse_line(outs[len(sers) + k])[0]
        R.corr_checked += 1
        R.case(("fmt08x", n))
        if not (same(impl, mdl) and same(impl, spec)):
            R.disagree("serial formatting", n, [mdl, spec], impl)
    sts = [bytes([a, b]) for a in (0, 95, 96, 97, 111, 112, 113, 255) for b in (0, 15, 16, 17, 18, 31, 32, 33, 34, 47, 48, 49, 50, 255)] + [b"", b"\x60"]
    outs = mp.batch(["keyswitch " + fw.t_bytes(s) for s in sts])
    for s, o in zip(sts, outs):
        try:
            impl = ["ok", KEYSWITCH.get(s[0], {}).get(s[1], "UNKNOWN")]
        except IndexError:
            impl = ["err", 13]
        mdl = m_res(fw.parse_line(o), 1)
        R.corr_checked += 1
        R.case(("keyswitch", s))
        if not same(impl, mdl):
            R.disagree("KEYSWITCH lookup", s, mdl, impl)


def check_registry(R, mp, rng):
    """the documented registries (Spec/RegistrySpec.v, hand-maintained snapshot): for EVERY documented vendor id
    and product type, the real decode paths return the documented text (a sample also through the drivers).
    Expected text = the snapshot, not the table of /repo."""
    from pycomm3.custom_types import ListIdentityObject, ModuleIdentityObject
    tv, tp = mp.ask("regv"), mp.ask("regp")
    vend = list(zip(tv[0::2], tv[1::2]))
    ptyp = list(zip(tp[0::2], tp[1::2]))
    if len(vend) < 1000 or len(ptyp) < 30:
        raise RuntimeError("Spec/RegistrySpec.v: registry snapshot missing or truncated")
    jobs = []
    for k in range(max(len(vend), len(ptyp))):
        (vid, vname), (pid, pname) = vend[k % len(vend)], ptyp[k % len(ptyp)]
        i = Ident(vendor=vid, ptype=pid, pcode=rng.randrange(65536), major=rng.randrange(256), minor=rng.randrange(256),
                  status=rng.randrange(65536), serial=rng.randrange(1 << 32), name=b"registry-%d" % vid, encap=1, family=2,
                  port=44818, ip=rng.randrange(1 << 32), state=3)
        jobs.append((i, vname, pname))
    outs = mp.batch([" ".join(["speclist", fw.t_bytes(CTX)] + i.toks()) for i, _, _ in jobs]
                    + [" ".join(["specobj"] + i.toks()) for i, _, _ in jobs])
    bad = []
    for k, (i, vname, pname) in enumerate(jobs):
        frame, obj = fw.parse_line(outs[k])[0], fw.parse_line(outs[len(jobs) + k])[0]
        for what, f in (("ListIdentityObject.decode", lambda: ListIdentityObject.decode(frame[26:])),
                        ("ModuleIdentityObject.decode", lambda: ModuleIdentityObject.decode(obj))):
            try:
                d = f()
                got = [d.get("vendor"), d.get("product_type")]
            except Exception as e:
                got = ["raises", type(e).__name__]
            R.case(("registry", what, i.vendor, i.ptype))
            R.count("registry", what)
            if not same(got[0], vname):
                R.fail(f"{what}: documented vendor id does not decode to its documented name", {"vendor_id": i.vendor, "ident": i.as_dict()},
                       got[0], vname, f"registry:vendor:{i.vendor}")
                bad.append(k)
            if not same(got[1], pname):
                R.fail(f"{what}: documented product type does not decode to its documented name", {"product_type": i.ptype, "ident": i.as_dict()},
                       got[1], pname, f"registry:product_type:{i.ptype}")
                bad.append(k)
    # through the drivers: a sample + the first entries that failed above
    sample = sorted(set(list(range(0, len(jobs), max(1, len(jobs) // 24))) + [len(jobs) - 1] + bad[:4]))
    outs = mp.batch([" ".join(["speclist", fw.t_bytes(CTX)] + jobs[k][0].toks()) for k in sample]
                    + [" ".join(["specrr", "4660", fw.t_bytes(CTX), "x"] + jobs[k][0].toks()) for k in sample])
    for n, k in enumerate(sample):
        i, vname, pname = jobs[k]
        frame, rr = fw.parse_line(outs[n])[0], fw.parse_line(outs[len(sample) + n])[0]
        for what, r, at in (("CIPDriver.list_identity", drv_list_identity(Device(0x1234, frame, rr)), 3),
                            ("CIPDriver.get_module_info", drv_module_info(Device(0x1234, frame, rr), 0), 1),
                            ("LogixDriver.get_plc_info", drv_plc_info(Device(0x1234, frame, rr)), 1)):
            got = r[at:at + 2] if r and r[0] in ("ok", "some") else r
            R.case(("registry", what, i.vendor, i.ptype))
            R.count("registry", what)
            if not same(list(got), [vname, pname]):
                R.fail(f"{what}: documented vendor id / product type does not decode to its documented name",
                       {"vendor_id": i.vendor, "product_type": i.ptype, "ident": i.as_dict()}, got, [vname, pname],
                       f"registry:driver:vendor={i.vendor}:product_type={i.ptype}")


def run_on(R, mp, ids, tables, rng, n_mut, n_trunc, n_drv, n_drv_bad, n_bad_dicts, thorough, primitives=True):
    prepared = check_pure(R, mp, ids, tables, rng, n_mut)
    check_truncations(R, mp, prepared, n_trunc)
    check_bad_dicts(R, mp, prepared, rng, n_bad_dicts)
    # drivers: spread over the name lengths / classes (every 7th + the Micro800 names)
    drv_sel = [p for k, p in enumerate(prepared) if k % max(1, len(prepared) // max(1, n_drv)) == 0 or p[0].name.startswith(b"2080")][: n_drv + 40]
    check_drivers(R, mp, drv_sel, rng, len(drv_sel), n_drv_bad)
    if primitives:
        check_primitives(R, mp, rng, tables, thorough)


def corpus_identities():
    out = []
    for path in sorted(glob.glob(os.path.join(fw.VERIF, "corpus", "C16", "*.json"))):
        try:
            j = json.load(open(path))
            for d in j.get("identities", []):
                out.append(Ident.from_dict(d))
        except Exception as e:  # a broken corpus file must be visible
            raise RuntimeError(f"corpus file {path}: {e}")
    return out


def run(R, escalate=False):
    import logging
    logging.disable(logging.CRITICAL)
    thorough = R.tier == "thorough" or escalate
    rng = R.rng
    tables = load_tables()
    R.rule = ("identities (vendor / product type: known, unknown, boundary; product code, revision, status incl. every keyswitch combination, "
              "serial incl. leading zeros and boundaries, names of EVERY length 0..255 over all 256 byte values, IPv4, state) encoded by the "
              "extracted Spec encoder into ListIdentity frames / Identity-object SendRRData replies -> real decoders, packet class, "
              "CIPDriver.list_identity / get_module_info / discover, LogixDriver.open+get_plc_info over a canned-reply fake kernel socket; "
              "malformed stream: every prefix of some frames, byte flips / insertions / deletions / noise, corrupted status words and "
              "service bytes through the drivers, dicts outside the encode domain. non-trivial = distinct (entry point, input bytes or dict)")
    mp = fw.ModelProc("C16")
    try:
        check_registry(R, mp, rng)
        if escalate and R.tier != "thorough" and R.oracle_failures:
            thorough = False          # the failing input is already in hand: no need for the escalated search
        corp = corpus_identities()
        if corp:
            R.count("source", "corpus", len(corp))
            run_on(R, mp, corp, tables, rng, 2, len(corp), len(corp), 4, 20, thorough, primitives=False)
        n = 12000 if thorough else 1100
        ids = gen_identities(rng, n, tables)
        R.count("source", "generated", len(ids))
        if thorough:
            run_on(R, mp, ids, tables, rng, 6, 40, 2500, 600, 4000, True)
        else:
            run_on(R, mp, ids, tables, rng, 3, 6, 150, 40, 400, False)
    finally:
        mp.close()
        logging.disable(logging.NOTSET)


def replay(R, rp):
    """re-run the failing case of a replay file first (its identity, when it has one), then the escalated search"""
    import logging
    logging.disable(logging.CRITICAL)
    tables = load_tables()
    case = (rp.get("failure") or {}).get("case") or {}
    ident = case.get("ident") if isinstance(case, dict) else None
    if ident:
        mp = fw.ModelProc("C16")
        try:
            run_on(R, mp, [Ident.from_dict(ident)], tables, R.rng, 2, 1, 1, 1, 4, False, primitives=False)
        finally:
            mp.close()
    logging.disable(logging.NOTSET)
    run(R, escalate=True)
