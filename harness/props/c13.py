"""C13 — replies are classified by their status words; bad replies cannot pass or crash.

Implementation side: the real pycomm3 drivers (LogixDriver.read/write, CIPDriver.generic_message/open)
with `driver._sock` replaced by a canned-reply fake (every request is answered with chosen bytes) and
the real response classes constructed directly.  Model side: the extracted Model/Reply.v run on the
same bytes (validity, error text, value, exception class and message).  Oracle: the independent
Spec/ReplyReader.v (extracted in the same co-process): truthiness == the status-word rule for all
byte strings, falsy results carry a non-empty error that names the status, well-formed error
replies give falsy results (no exception), any exception is a PycommError."""
import logging
import struct

import framework as fw

ASSUMPTIONS = [
    "the socket layer delivers one complete reply frame per request (C12); the fake answers every request with the next canned byte string and fails (-> CommError) when none is left",
    "logging at the default level (response __repr__ is not evaluated by the debug log calls)",
    "typed reads/writes use atomic integer tags (SINT/INT/DINT, scalars and one-dimensional arrays); structures, strings and BOOL arrays are C01/C06 territory; "
    "the value decoders are parameters of the model, instantiated for these types",
    "ListIdentityObject.decode is a parameter of the list-identity response model (its outcome is taken from the implementation; C16 covers it)",
    "multi-service calls whose requests all fit one packet; fragmented reads/writes with the fragment count fixed by the request",
    "Python 3.12 message text for the one TypeError text the model reproduces (str indices)",
]

EXC_CODE = {"DataError": 1, "BufferEmptyError": 2, "CommError": 3, "RequestError": 4, "ResponseError": 5,
            "TypeError": 10, "ValueError": 11, "KeyError": 12, "IndexError": 13, "error": 14, "OverflowError": 15,
            "AttributeError": 16, "StopIteration": 17, "UnicodeError": 18, "ZeroDivisionError": 19,
            "NotImplementedError": 20}

CONN = 500          # connection size of the fake drivers (keeps fragmented payloads small)
BIG = 200           # elements of the fragmented DINT array: 800 bytes > CONN


# ------------------------------------------------------------------ fake socket, drivers
class CannedSock:
    def __init__(self, replies):
        self.replies = list(replies)
        self.sent = []
        self.calls = 0

    def send(self, msg, timeout=0):
        self.sent.append(bytes(msg))
        return len(msg)

    def receive(self, timeout=0):
        self.calls += 1
        if not self.replies or self.calls > 64:
            raise TimeoutError("no more canned replies")
        return self.replies.pop(0)

    def connect(self, host, port):
        pass

    def close(self):
        pass


_TAGS = None


def tags():
    global _TAGS
    if _TAGS is None:
        from pycomm3.cip import Array, DataTypes

        def atomic(name, dt, n=0):
            tc = DataTypes.get(dt)
            return {"tag_name": name, "dim": 1 if n else 0, "alias": False, "instance_id": 5, "symbol_address": 0,
                    "symbol_object_address": 0, "software_control": 0, "external_access": "Read/Write",
                    "dimensions": [n, 0, 0], "data_type": dt, "data_type_name": dt, "tag_type": "atomic",
                    "type_class": Array(n, tc) if n else tc}
        _TAGS = {"a": atomic("a", "DINT"), "b": atomic("b", "DINT"), "c": atomic("c", "DINT"), "i1": atomic("i1", "INT"),
                 "s1": atomic("s1", "SINT"), "arr": atomic("arr", "DINT", 10), "iarr": atomic("iarr", "INT", 10),
                 "big": atomic("big", "DINT", BIG)}
    return _TAGS


def logix(replies, connected=True):
    from pycomm3 import LogixDriver
    d = LogixDriver("1.2.3.4", init_tags=False)
    d._sock = CannedSock(replies)
    d._session = 7
    d._connection_opened = True
    d._target_is_connected = connected
    d._target_cid = b"\x01\x02\x03\x04"
    d._cfg["connection_size"] = CONN
    d._tags = tags()
    return d


def canon_value(v, user=None):
    if v is None:
        return None
    if user is not None and v is user:
        return ("i", 0)
    if isinstance(v, bool):
        return ("other", repr(v))
    if isinstance(v, int):
        return ("i", v)
    if isinstance(v, (bytes, bytearray)):
        return ("b", bytes(v))
    if isinstance(v, list) and all(isinstance(x, int) and not isinstance(x, bool) for x in v):
        return ("l", tuple(v))
    return ("other", repr(v)[:80])


def canon_exc(e):
    from pycomm3.exceptions import PycommError
    name = type(e).__name__
    code = EXC_CODE.get(name)
    if isinstance(e, PycommError):
        return ("exc", code if code in (1, 2, 3, 4, 5) else "lib:" + name, str(e))
    return ("exc", code if code is not None and code >= 10 else "foreign:" + name, str(e))


def canon_tags(res, users=None):
    from pycomm3.tag import Tag
    if isinstance(res, Tag):
        res = [res]
    out = []
    for i, t in enumerate(res):
        out.append((canon_value(t.value, users[i] if users else None), t.error))
    return ("tags", tuple(out))


WVAL = {"a": 11, "b": 22, "c": 33, "i1": 4, "s1": 5}
BIGVAL = list(range(BIG))


def impl_call(spec, replies):
    """run one public call of the real drivers on canned replies -> canonical outcome"""
    kind = spec[0]
    try:
        if kind == "read":
            return canon_tags(logix(replies).read(spec[1]))
        if kind == "write":          # spec[1] = tag (possibly 'a.3'), value = WVAL / 1
            v = spec[2]
            return canon_tags(logix(replies).write(spec[1], v), [v])
        if kind == "writefrag":
            return canon_tags(logix(replies).write("big{%d}" % BIG, BIGVAL), [BIGVAL])
        if kind == "mread":
            return canon_tags(logix(replies).read(*spec[1]))
        if kind == "mwrite":
            vals = [WVAL[t] for t in spec[1]]
            return canon_tags(logix(replies).write(*[(t, v) for t, v in zip(spec[1], vals)]), vals)
        if kind == "generic":
            return canon_tags(logix(replies).generic_message(service=spec[3], class_code=b"\x01", instance=1,
                                                            connected=spec[1], data_type=spec[2], route_path=False))
        if kind == "fo_generic":
            return canon_tags(logix(replies, connected=False).generic_message(service=1, class_code=b"\x01", instance=1))
        if kind == "fo_read":
            return canon_tags(logix(replies, connected=False).read("a"))
        if kind == "open":
            import pycomm3.cip_driver as cd
            old = cd.Socket
            cd.Socket = lambda *a, **k: CannedSock(replies)
            try:
                return ("bool", bool(cd.CIPDriver("1.2.3.4").open()))
            finally:
                cd.Socket = old
        raise ValueError("bad impl spec " + repr(spec))
    except Exception as e:      # noqa: BLE001 — classification of what escapes IS the observation
        return canon_exc(e)


class _Req:
    """the attributes the plain response classes read from their request"""
    data_type = None
    tag = "t"
    elements = 1
    tag_info = None
    value = None
    error = None


def impl_cls(kind, raw):
    """construct a response object of the real classes directly -> canonical observation"""
    from pycomm3.packets import base, ethernetip
    from pycomm3.custom_types import ListIdentityObject
    idok, idmsg = "ok", ""
    if kind == "listid":
        try:
            ListIdentityObject.decode(raw[26:])
        except Exception as e:      # noqa: BLE001
            idok, idmsg = "fail", str(e)
    cls = {"unit": ethernetip.SendUnitDataResponsePacket, "rr": ethernetip.SendRRDataResponsePacket,
           "base": base.ResponsePacket, "register": ethernetip.RegisterSessionResponsePacket,
           "listid": ethernetip.ListIdentityResponsePacket}[kind]
    try:
        r = cls(_Req(), raw)
    except Exception as e:      # noqa: BLE001
        return {"ctor": canon_exc(e)}, idok, idmsg
    try:
        err = ("ok", r.error)
    except Exception as e:      # noqa: BLE001
        err = canon_exc(e)
    return {"valid": bool(r), "error": err, "svc": r.service, "st": r.service_status, "cst": r.command_status,
            "data": r.data, "sess": getattr(r, "session", None)}, idok, idmsg


# ------------------------------------------------------------------ reply builders (wire layout)
def encap(cmd, body, status=0, session=7):
    return cmd + struct.pack("<H", len(body) & 0xFFFF) + struct.pack("<I", session) + struct.pack("<I", status) + b"_pycomm_" + b"\0\0\0\0" + body


def mr(svc, status, data=b"", ext=b"", extsize=None, reply_bit=True):
    n = len(ext) // 2 if extsize is None else extsize
    return bytes([(svc | 0x80) if reply_bit else (svc & 0x7F), 0, status, n & 0xFF]) + ext + data


def unit(msg, status=0, cmd=b"\x70\x00"):
    body = b"\0\0\0\0" + b"\0\0" + b"\x02\0" + b"\xa1\0\x04\0" + b"\x27\x04\x19\x71" + b"\xb1\0" + struct.pack("<H", (2 + len(msg)) & 0xFFFF) + b"\x01\0" + msg
    return encap(cmd, body, status)


def rr(msg, status=0, cmd=b"\x6f\x00"):
    body = b"\0\0\0\0" + b"\0\0" + b"\x02\0" + b"\0\0\0\0" + b"\xb2\0" + struct.pack("<H", len(msg) & 0xFFFF) + msg
    return encap(cmd, body, status)


def multi_data(subs, count=None):
    n = len(subs) if count is None else count
    offs, o = [], 2 + 2 * len(subs)
    for s in subs:
        offs.append(o)
        o += len(s)
    return struct.pack("<H", n & 0xFFFF) + b"".join(struct.pack("<H", x & 0xFFFF) for x in offs) + b"".join(subs)


TY = {"DINT": (0xC4, "<i", 4), "INT": (0xC3, "<h", 2), "SINT": (0xC2, "<b", 1), "UINT": (0xC7, "<H", 2), "USINT": (0xC6, "<B", 1), "UDINT": (0xC8, "<I", 4)}


def read_data(ty, vals, struct_marker=False):
    code, fmt, _ = TY[ty]
    body = b"".join(struct.pack(fmt, v) for v in vals)
    return (b"\xa0\x02\x12\x34" if struct_marker else bytes([code, 0])) + body


def rand_vals(rng, ty, n):
    _, fmt, sz = TY[ty]
    lo, hi = (-(1 << (8 * sz - 1)), (1 << (8 * sz - 1)) - 1) if fmt[1].islower() else (0, (1 << (8 * sz)) - 1)
    return [rng.choice([lo, hi, 0, -1 if lo < 0 else 1, rng.randint(lo, hi)]) for _ in range(n)]


# ------------------------------------------------------------------ request kinds
# each kind: model callspec tokens, implementation spec, reply service, layout, and a builder of the reply payload
READ_TAG = {("DINT", "a"): "a", ("INT", "a"): "i1", ("SINT", "a"): "s1"}


class Kind:
    def __init__(self, name, mtoks, ispec, svc, layout="unit", ty=None, n=1, typed=False, partial=True):
        self.name, self.mtoks, self.ispec, self.svc, self.layout = name, mtoks, ispec, svc, layout
        self.ty, self.n, self.typed, self.partial = ty, n, typed, partial

    def payload(self, rng, struct_marker=False):
        if self.ty is not None and self.name.startswith(("read", "fo_read")):
            return read_data(self.ty, rand_vals(rng, self.ty, self.n), struct_marker)
        if self.ty is not None:          # generic with a data type
            return struct.pack(TY[self.ty][1], rand_vals(rng, self.ty, 1)[0])
        if self.name.startswith("generic") or self.name.startswith("fo_generic"):
            return rng.randbytes(rng.choice([0, 1, 4, 9]))
        return b""

    def frame(self, msg, status=0):
        return unit(msg, status) if self.layout == "unit" else rr(msg, status)


def single_kinds():
    from pycomm3.cip import DINT, UINT
    ks = []
    for ty, tag in (("DINT", "a"), ("INT", "i1"), ("SINT", "s1")):
        ks.append(Kind(f"read_{ty}", ["read", ty, "a", "1"], ("read", tag), 0x4C, ty=ty, typed=True))
    ks.append(Kind("read_arr1", ["read", "DINT", "r", "1"], ("read", "arr"), 0x4C, ty="DINT", n=1, typed=True))
    ks.append(Kind("read_arr3", ["read", "DINT", "r", "3"], ("read", "arr{3}"), 0x4C, ty="DINT", n=3, typed=True))
    ks.append(Kind("read_iarr4", ["read", "INT", "r", "4"], ("read", "iarr{4}"), 0x4C, ty="INT", n=4, typed=True))
    ks.append(Kind("write", ["write", "0"], ("write", "a", 11), 0x4D))
    ks.append(Kind("write_rmw", ["write", "0"], ("write", "a.3", 1), 0x4E))
    ks.append(Kind("generic_unit", ["generic", "unit", "none"], ("generic", True, None, 1), 0x01))
    ks.append(Kind("generic_unit_list", ["generic", "unit", "none"], ("generic", True, None, 3), 0x03))
    ks.append(Kind("generic_rr", ["generic", "rr", "none"], ("generic", False, None, 1), 0x01, layout="rr", partial=False))
    ks.append(Kind("generic_rr_list", ["generic", "rr", "none"], ("generic", False, None, 3), 0x03, layout="rr", partial=False))
    ks.append(Kind("generic_unit_DINT", ["generic", "unit", "DINT"], ("generic", True, DINT, 0x0E), 0x0E, ty="DINT", typed=True))
    ks.append(Kind("generic_rr_UINT", ["generic", "rr", "UINT"], ("generic", False, UINT, 0x0E), 0x0E, layout="rr", ty="UINT", typed=True, partial=False))
    return ks


MULTI_SVCS = [0x52, 0x53, 0x55, 0x0A, 0x03]      # only to pick interesting reply-service bytes; the oracle uses the Spec's own list
ALL_SVCS = [0x01, 0x02, 0x03, 0x04, 0x05, 0x0A, 0x0E, 0x10, 0x4C, 0x4D, 0x4E, 0x52, 0x53, 0x55, 0x54, 0x5B, 0x7F, 0x00, 0x2A]


def ext_codes():
    from pycomm3.cip import EXTEND_CODES
    return EXTEND_CODES


def ext_variants(rng, status, full):
    """additional-status fields to try for a general status: (ext bytes, declared size or None)"""
    out = [(b"", None)]
    known = list(ext_codes().get(status, {}))
    vals = (known if full else known[:2]) + [rng.randrange(0, 65536)]
    for v in vals:
        out.append((struct.pack("<H", v & 0xFFFF), None))
    v32 = rng.choice(known) if known and rng.random() < 0.5 else rng.randrange(0, 1 << 32)
    out.append((struct.pack("<I", v32), None))
    if full:
        out.append((rng.randbytes(6), None))          # 3 words: size unknown
        out.append((b"", 1))                          # declared 1 word, absent (truncated)
    return out


# ------------------------------------------------------------------ model / spec protocol
def mline_call(mtoks, replies):
    return " ".join(["call"] + list(mtoks) + [fw.t_bytes(r) for r in replies])


def parse_out(toks):
    """co-process `call` answer -> canonical outcome (same shape as impl_call)"""
    head = str(toks[0])
    if head == "bool":
        return ("bool", bool(toks[1]))
    if head == "exc":
        return ("exc", toks[1], toks[2])
    if head != "tags":
        return ("MODEL-ERR", [str(t) for t in toks])
    n, i, out = toks[1], 2, []
    for _ in range(n):
        assert str(toks[i]) == "val", toks
        i += 1
        k = str(toks[i])
        if k == "none":
            v, i = None, i + 1
        elif k == "i":
            v, i = ("i", toks[i + 1]), i + 2
        elif k == "b":
            v, i = ("b", toks[i + 1] if isinstance(toks[i + 1], bytes) else b""), i + 2
        elif k == "l":
            ln = toks[i + 1]
            v, i = ("l", tuple(toks[i + 2:i + 2 + ln])), i + 2 + ln
        else:
            raise ValueError(toks)
        assert str(toks[i]) == "err", toks
        e = toks[i + 1]
        out.append((v, None if isinstance(e, fw.Sym) and str(e) == "none" else e))
        i += 2
    return ("tags", tuple(out))


def tok_or_none(t):
    return None if isinstance(t, fw.Sym) and str(t) == "none" else t


def parse_cls(toks):
    d = {}
    i = 0
    assert str(toks[0]) == "v", toks
    d["valid"] = bool(toks[1])
    assert str(toks[2]) == "e"
    k = str(toks[3])
    if k == "none":
        d["error"], i = ("ok", None), 4
    elif k == "t":
        d["error"], i = ("ok", toks[4]), 5
    else:
        d["error"], i = ("exc", toks[4], toks[5]), 6
    for name in ("svc", "st", "cst", "data", "sess"):
        assert str(toks[i]) == name, (toks, i)
        d[name] = tok_or_none(toks[i + 1])
        i += 2
    return d


def parse_spec(toks):
    d = {"succ": bool(toks[1]), "wf": bool(toks[3]), "hdr": bool(toks[5]), "gs": tok_or_none(toks[7])}
    d["ext"] = [tok_or_none(t) for t in toks[9:]]
    return d


def text_tok(s):
    return fw.t_text(s) if s else "u"


# ------------------------------------------------------------------ the check
class Batch:
    """collects co-process lines; answers are fetched in one batch"""

    def __init__(self, mp):
        self.mp, self.lines, self.out = mp, [], None

    def add(self, line):
        self.lines.append(line)
        return len(self.lines) - 1

    def run(self):
        self.out = [fw.parse_line(o) for o in self.mp.batch(self.lines)] if self.lines else []

    def __getitem__(self, i):
        return self.out[i]


_PER_CLASS = {}


def _fail(R, what, case, observed, expected, cls):
    """R.fail with at most 5 recorded cases per input class (the framework keeps 200 in all): a frequent
    known class must not crowd out a different violation"""
    key = (id(R), cls)
    _PER_CLASS[key] = _PER_CLASS.get(key, 0) + 1
    R.count("oracle_failures_by_class", cls)
    if _PER_CLASS[key] <= 5:
        R.fail(what, case, observed, expected, cls)


def is_lib(outcome):
    return outcome[0] != "exc" or outcome[1] in (1, 2, 3, 4, 5) or (isinstance(outcome[1], str) and outcome[1].startswith("lib:"))


def truthy(tag):
    return tag[0] is not None and tag[1] is None


def gen_single_cases(rng, thorough):
    """status x ext x service x kind, then truncations and corruptions of valid and error replies"""
    cases = []
    kinds = single_kinds()
    for k in kinds:
        full = thorough or k.name in ("read_DINT", "generic_rr", "write")
        for status in range(256):
            for ext, extsize in ext_variants(rng, status, full and (thorough or status in ext_codes() or status % 16 == 0)):
                svcs = [k.svc]
                if status in (0, 6) or (thorough and rng.random() < 0.1):
                    svcs += [s for s in (MULTI_SVCS + [rng.choice(ALL_SVCS)]) if s != k.svc][: (6 if full else 2)]
                for svc in svcs:
                    data = k.payload(rng) if status in (0, 6) or rng.random() < 0.15 else b""
                    msg = mr(svc, status, data, ext, extsize)
                    cases.append((k, [k.frame(msg)], {"gen": "status", "data_ok": ext == b"" and extsize is None and (status in (0, 6))}))
        # reply bit missing, encapsulation errors (full length and header-only), wrong command
        for status in (0, 6, 4):
            msg = mr(k.svc, status, k.payload(rng), reply_bit=False)
            cases.append((k, [k.frame(msg)], {"gen": "noreplybit", "data_ok": False}))
        for es in [1, 2, 3, 0x64, 0x65, 0x69, 0xFFFF, 0x80000000, 0xFFFFFFFF, rng.randrange(1, 1 << 32)]:
            fr = k.frame(mr(k.svc, rng.choice([0, 0, 5]), k.payload(rng)), status=es)
            cases.append((k, [fr], {"gen": "encap-full", "data_ok": False}))
            cases.append((k, [fr[:24]], {"gen": "encap-header-only", "data_ok": False}))
        # struct marker on an atomic tag, short / long data
        if k.typed and k.name.startswith("read"):
            cases.append((k, [k.frame(mr(k.svc, 0, k.payload(rng, struct_marker=True)))], {"gen": "structmarker", "data_ok": False}))
        # truncations of a success reply and of an error reply with extended status
        good = k.frame(mr(k.svc, 0, k.payload(rng)))
        bad = k.frame(mr(k.svc, rng.choice([1, 4, 5, 0xFF, 0x2A]), b"", struct.pack("<H", rng.choice([0, 1, 0x2105, 0x0100]))))
        bad2 = k.frame(mr(k.svc, 0x1F, b"", struct.pack("<I", 0x0203)))
        for fr, lbl in ((good, "trunc-good"), (bad, "trunc-bad"), (bad2, "trunc-bad2")):
            cuts = range(len(fr)) if (thorough or lbl != "trunc-bad2") else sorted(rng.sample(range(len(fr)), 12))
            for c in cuts:
                cases.append((k, [fr[:c]], {"gen": lbl, "data_ok": False}))
        for fr in (good, bad):
            cases.append((k, [fr + rng.randbytes(rng.randrange(1, 9))], {"gen": "extended", "data_ok": False}))
        # corruptions: status-word positions and random positions
        hot = [0, 1, 8, 9, 10, 11] + ([46, 47, 48, 49, 50, 51] if k.layout == "unit" else [40, 41, 42, 43, 44, 45])
        for _ in range(400 if thorough else 30):
            fr = bytearray(rng.choice([good, good, bad, bad2]))
            for _ in range(rng.choice([1, 1, 2, 3])):
                p = rng.choice(hot) if rng.random() < 0.6 else rng.randrange(len(fr))
                if p < len(fr):
                    fr[p] = rng.choice([0, 1, 6, 0x80, 0xFF, rng.randrange(256)])
            cases.append((k, [bytes(fr)], {"gen": "corrupt", "data_ok": False}))
        for _ in range(60 if thorough else 5):
            cases.append((k, [rng.randbytes(rng.choice([0, 1, 12, 24, 47, 49, 50, 56, 80]))], {"gen": "random", "data_ok": False}))
        cases.append((k, [], {"gen": "no-reply", "data_ok": False}))
    return cases


def check_single(R, mp, cases):
    """correspondence + oracle for calls answered by ONE reply (read/write/generic of one request)"""
    B = Batch(mp)
    idx = []
    for k, replies, meta in cases:
        a = B.add(mline_call(k.mtoks, replies))
        s = B.add(" ".join(["spec", k.layout, fw.t_bytes(replies[0])])) if replies else None
        idx.append((a, s))
    B.run()
    B2 = Batch(mp)
    pend = []
    for (k, replies, meta), (a, s) in zip(cases, idx):
        impl = impl_call(k.ispec, replies)
        model = parse_out(B[a])
        case = {"kind": k.name, "gen": meta["gen"], "replies": list(replies)}
        R.corr_checked += 1
        R.count("kind", k.name)
        R.count("gen", meta["gen"])
        R.count("outcome", impl[0] if impl[0] != "tags" else ("truthy" if truthy(impl[1][0]) else "falsy"))
        if replies:
            R.count("reply_len", min(len(replies[0]) // 8 * 8, 96))
        R.case((k.name, tuple(replies)), nontrivial=bool(replies) and len(replies[0]) >= 24)
        if model != impl:
            R.disagree(f"public call {k.name}", case, model, impl)
        # ---- oracle (Spec only)
        if not is_lib(impl):
            _fail(R, "a foreign exception escapes a public call", case, impl, "Ok or a PycommError", f"{k.name.split('_')[0]}:foreign:{impl[1]}")
            continue
        if not replies:
            continue
        sp = parse_spec(B[s])
        if impl[0] == "tags":
            t = impl[1][0]
            if truthy(t) and not sp["succ"]:
                cls = "short-success" if sp["gs"] is None else "status-ignored"
                _fail(R, "a reply whose status words do not say success is reported as success", case, impl, sp, f"{k.name.split('_')[0]}:{cls}")
            if not truthy(t):
                if sp["succ"] and (not k.typed or meta["data_ok"]):
                    _fail(R, "a success reply is reported as failure", case, impl, sp, f"{k.name.split('_')[0]}:success-rejected")
                if not (isinstance(t[1], str) and t[1] != ""):
                    _fail(R, "falsy result without an error text", case, impl, "non-empty error", f"{k.name.split('_')[0]}:no-error-text")
                elif sp["wf"] and not sp["succ"] and sp["gs"] not in (None, 0) and _encap_ok(replies[0]):
                    pend.append((B2.add(" ".join(["names", k.layout, fw.t_bytes(replies[0]), text_tok(t[1])])), case, impl, sp, k))
        elif impl[0] == "exc":
            if (sp["wf"] and not sp["succ"]) or sp["hdr"]:
                _fail(R, "a well-formed error reply raises instead of giving a falsy result", case, impl, "falsy Tag with error text", f"{k.name.split('_')[0]}:wf-error-raises")
    B2.run()
    for i, case, impl, sp, k in pend:
        if str(B2[i][0]) != "1":
            _fail(R, "the error text does not name the CIP status (and its extended status)", case, impl, sp, f"{k.name.split('_')[0]}:status-not-named")


def _encap_ok(raw):
    return len(raw) >= 12 and raw[8:12] == b"\0\0\0\0"


# ---- response classes constructed directly
def gen_cls_cases(rng, thorough):
    cases = []
    for kind, frame in (("unit", unit), ("rr", rr)):
        for status in range(256):
            for ext, extsize in ext_variants(rng, status, thorough or status in ext_codes()):
                for svc in ([0x4C] + (MULTI_SVCS if status in (0, 6) else []) + ([rng.choice(ALL_SVCS)] if thorough else [])):
                    cases.append((kind, frame(mr(svc, status, rng.randbytes(rng.choice([0, 2, 6])), ext, extsize)), "status"))
        for svc in range(256):          # every reply-service byte, status 6 and 0
            for status in (6, 0):
                msg = bytes([svc, 0, status, 0]) + b"\x01\x02"
                cases.append((kind, frame(msg), "service"))
        if thorough:                    # the whole status x reply-service grid
            for svc in range(256):
                for status in range(256):
                    if status not in (0, 6):
                        cases.append((kind, frame(bytes([svc, 0, status, 0])), "grid"))
        good = frame(mr(0x4C, 0, b"\xc4\x00\x01\x00\x00\x00"))
        bad = frame(mr(0x4C, 0xFF, b"", b"\x05\x21"))
        for fr in (good, bad):
            for c in range(len(fr) + 1):
                cases.append((kind, fr[:c], "trunc"))
        for es in [1, 2, 3, 0x64, 0x65, 0x69, 0x7FFFFFFF, 0x80000000, 0xFFFFFFFF]:
            cases.append((kind, frame(mr(0x4C, 0, b"\x01"), status=es), "encap"))
            cases.append((kind, frame(mr(0x4C, 5, b"", b"\x00\x00"), status=es), "encap"))
            cases.append((kind, frame(mr(0x4C, 0, b"\x01"), status=es)[:24], "encap-header-only"))
        for _ in range(2000 if thorough else 80):
            fr = bytearray(rng.choice([good, bad]))
            for _ in range(rng.choice([1, 2, 3])):
                fr[rng.randrange(len(fr))] = rng.randrange(256)
            cases.append((kind, bytes(fr), "corrupt"))
    # register session / base / list identity
    reg = encap(b"\x65\x00", b"\x01\x00\x00\x00", session=0x11223344)
    ident = b"\x01\x00\x0c\x00" + struct.pack("<HH", 0x0C, 39) + struct.pack("<H", 1) + struct.pack(">HHI", 2, 44818, 0x0A000001) + bytes(8) \
        + struct.pack("<HHHBBHI", 1, 14, 55, 20, 11, 0x3060, 0x11223344) + bytes([5]) + b"1756x" + bytes([3])
    lid = encap(b"\x63\x00", ident)
    for kind, fr in (("register", reg), ("base", reg), ("listid", lid)):
        for c in range(len(fr) + 1):
            cases.append((kind, fr[:c], "trunc"))
        for es in [1, 2, 3, 0x64, 0x69, 0xFFFFFFFF]:
            b = bytearray(fr)
            b[8:12] = struct.pack("<I", es)
            cases.append((kind, bytes(b), "encap"))
            cases.append((kind, bytes(b[:24]), "encap-header-only"))
        for _ in range(200 if thorough else 40):
            b = bytearray(fr)
            for _ in range(rng.choice([1, 2])):
                b[rng.randrange(len(b))] = rng.randrange(256)
            cases.append((kind, bytes(b), "corrupt"))
    return cases


def check_cls(R, mp, cases):
    B = Batch(mp)
    rows = []
    for kind, raw, gen in cases:
        obs, idok, idmsg = impl_cls(kind, raw)
        if kind == "listid":
            a = B.add(" ".join(["cls", "listid", idok, text_tok(idmsg), fw.t_bytes(raw)]))
        else:
            a = B.add(" ".join(["cls", kind, fw.t_bytes(raw)]))
        s = B.add(" ".join(["spec", kind, fw.t_bytes(raw)])) if kind in ("unit", "rr") else None
        rows.append((kind, raw, gen, obs, a, s))
    B.run()
    B2 = Batch(mp)
    pend = []
    for kind, raw, gen, obs, a, s in rows:
        case = {"kind": "cls:" + kind, "gen": gen, "raw": raw}
        R.corr_checked += 1
        R.count("kind", "cls:" + kind)
        R.count("gen", gen)
        R.case(("cls", kind, raw), nontrivial=len(raw) >= 12)
        if "ctor" in obs:
            R.disagree(f"response class {kind}: constructor raised", case, "constructor returns", obs)
            if not is_lib(obs["ctor"]):
                _fail(R, "a foreign exception escapes a response constructor", case, obs, "no exception", f"cls:{kind}:foreign")
            continue
        m = parse_cls(B[a])
        if m != obs:
            R.disagree(f"response class {kind}", case, m, obs)
        err = obs["error"]
        if not is_lib(err):
            _fail(R, "a foreign exception escapes .error", case, obs, "text or a PycommError", f"cls:{kind}:error-foreign")
            continue
        # expected classification from the Spec side
        if kind in ("unit", "rr"):
            sp = parse_spec(B[s])
            want = sp["succ"]
        else:
            sp = None
            e32 = struct.unpack("<I", raw[8:12])[0] if len(raw) >= 12 else None      # the layout itself: status word at 8..11
            want = e32 == 0
            if kind == "listid":
                want = want and _identity_ok(raw)
        R.count("cls_outcome", "truthy" if obs["valid"] else "falsy")
        if obs["valid"] != want:
            cls = "short-success" if obs["valid"] and (sp is None or sp["gs"] is None) else ("status-ignored" if obs["valid"] else "success-rejected")
            _fail(R, "truthiness differs from the status-word rule", case, obs, {"expected": want, "spec": sp}, f"cls:{kind}:{cls}")
        if not obs["valid"] and err[0] == "ok":
            if not (isinstance(err[1], str) and err[1] != ""):
                _fail(R, "falsy response without an error text", case, obs, "non-empty error", f"cls:{kind}:no-error-text")
            elif sp is not None and sp["wf"] and sp["gs"] not in (None, 0) and _encap_ok(raw):
                pend.append((B2.add(" ".join(["names", kind, fw.t_bytes(raw), text_tok(err[1])])), case, obs, sp, kind))
        if not obs["valid"] and err[0] == "exc" and sp is not None and (sp["wf"] or sp["hdr"]):
            _fail(R, ".error raises on a well-formed error reply", case, obs, "error text", f"cls:{kind}:wf-error-raises")
    B2.run()
    for i, case, obs, sp, kind in pend:
        if str(B2[i][0]) != "1":
            _fail(R, "the error text does not name the CIP status (and its extended status)", case, obs, sp, f"cls:{kind}:status-not-named")


def _identity_ok(raw):
    from pycomm3.custom_types import ListIdentityObject
    try:
        ListIdentityObject.decode(raw[26:])
        return True
    except Exception:      # noqa: BLE001
        return False


# ---- multi-service
def multi_kinds():
    return [
        ("mread3", [("DINT", "a", 1, "a"), ("INT", "a", 1, "i1"), ("DINT", "r", 3, "arr{3}")], "r"),
        ("mread2", [("DINT", "a", 1, "a"), ("DINT", "a", 1, "b")], "r"),
        ("mwrite2", ["a", "b"], "w"),
        ("mwrite3", ["a", "i1", "c"], "w"),
    ]


def multi_mtoks(mk):
    name, reqs, rw = mk
    toks = ["multi", str(len(reqs))]
    for q in reqs:
        toks += ["r", q[0], q[1], str(q[2])] if rw == "r" else ["w", "0"]
    return toks


def multi_ispec(mk):
    name, reqs, rw = mk
    return ("mread", [q[3] for q in reqs]) if rw == "r" else ("mwrite", list(reqs))


def good_sub(rng, mk, i, status=0, ext=b""):
    name, reqs, rw = mk
    if rw == "r":
        ty, shape, n, _ = reqs[i]
        return mr(0x4C, status, read_data(ty, rand_vals(rng, ty, n)) if status in (0, 6) else b"", ext)
    return mr(0x4D, status, b"", ext)


def gen_multi_cases(rng, thorough):
    cases = []
    for mk in multi_kinds():
        k = len(mk[1])
        # per-service status vectors: every status for one position, random vectors
        vectors = []
        for pos in range(k):
            for st in range(256):
                if thorough or pos == 0 or st < 48 or st % 8 == 7:
                    vectors.append([st if j == pos else 0 for j in range(k)])
        for _ in range(1000 if thorough else 60):
            vectors.append([rng.choice([0, 0, 4, 5, 6, 0xFF, rng.randrange(256)]) for _ in range(k)])
        for vec in vectors:
            subs = []
            for j, st in enumerate(vec):
                exts = ext_variants(rng, st, False)
                ext = rng.choice(exts)[0] if st not in (0,) else b""
                subs.append(good_sub(rng, mk, j, st, ext))
            top = 0 if all(s == 0 for s in vec) else 0x1E
            cases.append((mk, [unit(mr(0x0A, top, multi_data(subs)))], {"gen": "vector", "wf": True, "vec": vec}))
        allgood = [good_sub(rng, mk, j) for j in range(k)]
        # well-formed error replies WITHOUT service data: the request as a whole was rejected
        for st in [1, 2, 5, 8, 0x11, 0x13, 0x15, 0x1E, 0x26, 0xFF] + ([rng.randrange(1, 256) for _ in range(10)] if thorough else []):
            cases.append((mk, [unit(mr(0x0A, st, b""))], {"gen": "top-error-no-data", "wf": True}))
            cases.append((mk, [unit(mr(0x0A, st, b"", struct.pack("<H", 0x2105)))], {"gen": "top-error-no-data", "wf": True}))
            # two / three additional-status words: nothing of it is service data
            for ext in (struct.pack("<HH", 0x0080, 0), struct.pack("<HH", 0x8000, 1), struct.pack("<HH", 0x2105, 0), struct.pack("<I", rng.randrange(1 << 32)),
                        struct.pack("<HHH", 0x0080, 0, 7), struct.pack("<HH", rng.choice([1, 2, 0x80, 0xCC]), rng.choice([0, 1, 2, 4]))):
                cases.append((mk, [unit(mr(0x0A, st, b"", ext))], {"gen": "top-error-ext-words", "wf": True}))
        for es in [1, 2, 3, 0x64, 0x65, 0x69, 0xFFFFFFFF]:
            fr = unit(mr(0x0A, 0, multi_data(allgood)), status=es)
            cases.append((mk, [fr[:24]], {"gen": "encap-header-only", "wf": True}))
            cases.append((mk, [fr], {"gen": "encap-full", "wf": False}))
        # enclosing general status with service data
        for st in [0x1E, 8, 5, 6, 0xFF]:
            cases.append((mk, [unit(mr(0x0A, st, multi_data(allgood)))], {"gen": "top-status-with-data", "wf": False}))
        # reply count / offset table games
        for cnt in [0, 1, k - 1, k + 1, 255, 0xFFFF]:
            cases.append((mk, [unit(mr(0x0A, 0, multi_data(allgood, count=cnt)))], {"gen": "count", "wf": False}))
        cases.append((mk, [unit(mr(0x0A, 0, multi_data([])))], {"gen": "count", "wf": False}))
        cases.append((mk, [unit(mr(0x0A, 0, multi_data(allgood[:1])))], {"gen": "fewer-subs", "wf": False}))
        cases.append((mk, [unit(mr(0x0A, 0, multi_data(allgood + [mr(0x4C, 0, b"\xc4\x00\x01\x00\x00\x00")])))], {"gen": "more-subs", "wf": False}))
        good = unit(mr(0x0A, 0, multi_data(allgood)))
        mixed = unit(mr(0x0A, 0x1E, multi_data([good_sub(rng, mk, j, 5 if j == 1 else 0, b"\x00\x00" if j == 1 else b"") for j in range(k)])))
        for fr in (good, mixed):
            cuts = range(len(fr)) if thorough else sorted(set(list(range(44, min(len(fr), 76))) + rng.sample(range(len(fr)), 12) + [0, 12, 24]))
            for c in cuts:
                cases.append((mk, [fr[:c]], {"gen": "trunc", "wf": False}))
        hot = list(range(46, 50 + 2 + 2 * k + 4)) + [8, 9, 10, 11]
        for _ in range(1000 if thorough else 60):
            fr = bytearray(rng.choice([good, mixed]))
            for _ in range(rng.choice([1, 1, 2, 3])):
                p = rng.choice(hot) if rng.random() < 0.7 else rng.randrange(len(fr))
                fr[p] = rng.choice([0, 1, 2, 6, 0x80, 0xFF, rng.randrange(256)])
            cases.append((mk, [bytes(fr)], {"gen": "corrupt", "wf": False}))
        cases.append((mk, [], {"gen": "no-reply", "wf": False}))
    return cases


def check_multi(R, mp, cases):
    B = Batch(mp)
    idx = []
    for mk, replies, meta in cases:
        a = B.add(mline_call(multi_mtoks(mk), replies))
        if replies:
            raw = replies[0]
            s = B.add("spec unit " + fw.t_bytes(raw))
            ms = B.add("multispec " + fw.t_bytes(raw))
            so = [B.add(f"subok {fw.t_bytes(raw)} {i}") for i in range(len(mk[1]))]
        else:
            s = ms = so = None
        idx.append((a, s, ms, so))
    B.run()
    B2 = Batch(mp)
    pend = []
    pend_names = []
    for (mk, replies, meta), (a, s, ms, so) in zip(cases, idx):
        impl = impl_call(multi_ispec(mk), replies)
        model = parse_out(B[a])
        case = {"kind": mk[0], "gen": meta["gen"], "replies": list(replies)}
        R.corr_checked += 1
        R.count("kind", mk[0])
        R.count("gen", "multi:" + meta["gen"])
        R.case((mk[0], tuple(replies)), nontrivial=bool(replies) and len(replies[0]) >= 50)
        if model != impl:
            R.disagree(f"public call {mk[0]}", case, model, impl)
        if impl[0] == "exc":
            R.count("outcome", "multi:" + ("lib-exc" if is_lib(impl) else "foreign-exc"))
        if not is_lib(impl):
            _fail(R, "a foreign exception escapes a public call", case, impl, "Ok or a PycommError", f"multi:foreign:{impl[1]}")
            continue
        if not replies:
            continue
        raw = replies[0]
        sp = parse_spec(B[s])
        subs = None
        if str(B[ms][0]) == "subs":
            subs = [t if isinstance(t, bytes) else b"" for t in B[ms][2:]]
        if impl[0] == "exc":
            # well-formed error replies: the header-only encapsulation error, a message-router error without data
            if sp["hdr"] or (sp["wf"] and not sp["succ"] and len(raw) == 50 + 2 * (raw[49] if len(raw) > 49 else 0)):
                _fail(R, "a well-formed error reply raises instead of giving falsy results", case, impl, "falsy Tags with error text", "multi:error-reply-without-service-data")
            elif subs is not None and len(subs) >= len(mk[1]):
                _fail(R, "a well-formed multi-service reply raises", case, impl, "Tags", "multi:wf-raises")
            continue
        tags_ = impl[1]
        R.count("outcome", "multi:" + "".join("T" if truthy(t) else "F" for t in tags_))
        # a well-formed error reply WITHOUT service data: every request fails, with a text naming the status
        nwords = raw[49] if len(raw) > 49 else 0
        if sp["hdr"] or (sp["wf"] and not sp["succ"] and len(raw) == 50 + 2 * nwords):
            cls = ("multi:error-reply-additional-status-read-as-service-data" if (not sp["hdr"] and nwords >= 2 and _encap_ok(raw))
                   else "multi:error-reply-without-service-data")
            for i, t in enumerate(tags_):
                if truthy(t):
                    _fail(R, "a well-formed error reply without service data gives a truthy result", {**case, "index": i}, impl, "falsy Tags with error text", cls)
                elif isinstance(t[1], str) and t[1] and not sp["hdr"] and _encap_ok(raw) and sp["gs"] not in (None, 0):
                    pend_names.append((B2.add(" ".join(["names", "unit", fw.t_bytes(raw), text_tok(t[1])])), {**case, "index": i}, impl, cls))
        if len(tags_) != len(mk[1]):
            _fail(R, "number of results differs from number of requests", case, impl, len(mk[1]), "multi:result-count")
            continue
        for i, t in enumerate(tags_):
            okmax = str(B[so[i]][0]) == "1"
            if truthy(t) and not okmax:
                enc = _encap_ok(raw)
                _fail(R, "service result reported as success although its status words (or the encapsulation status) do not say success",
                       {**case, "index": i}, impl, {"multi_sub_success": False, "encap_ok": enc},
                       "multi:enclosing-encap-status-ignored" if not enc and len(raw) >= 12 else "multi:sub-status-ignored")
            if not truthy(t) and not (isinstance(t[1], str) and t[1] != ""):
                _fail(R, "falsy service result without an error text", {**case, "index": i}, impl, "non-empty error", "multi:no-error-text")
        # strict part: a well-formed multi reply with one service reply per request
        if subs is not None and len(subs) == len(mk[1]) and _encap_ok(raw):
            for i, (t, d) in enumerate(zip(tags_, subs)):
                j = B2.add("sub " + fw.t_bytes(d))
                n = B2.add(" ".join(["namessub", fw.t_bytes(d), text_tok(t[1] or "")])) if not truthy(t) else None
                pend.append((j, n, i, t, d, case, impl, meta))
    B2.run()
    for j, case, impl, cls in pend_names:
        if str(B2[j][0]) != "1":
            _fail(R, "the error text of a request failed by an error reply does not name the reply's CIP status", case, impl, "names status", cls)
    for j, n, i, t, d, case, impl, meta in pend:
        succ = str(B2[j][1]) == "1"
        if truthy(t) != succ and (not succ or meta.get("wf")):
            _fail(R, "per-service classification differs from the service reply's status words", {**case, "index": i, "sub": d}, impl,
                   {"sub_success": succ}, "multi:sub-classification")
        if not truthy(t) and not succ and len(d) > 2 and d[2] != 0 and str(B2[n][0]) == "0":
            _fail(R, "per-service error text does not name the service's CIP status", {**case, "index": i, "sub": d}, impl, "names status", "multi:status-not-named")


# ---- fragmented transfers, forward open, open
def frag_payloads(rng, nfrag):
    vals = rand_vals(rng, "DINT", BIG)
    body = b"".join(struct.pack("<i", v) for v in vals)
    cuts = sorted(rng.sample(range(4, len(body), 4), nfrag - 1)) if nfrag > 1 else []
    parts = [body[i:j] for i, j in zip([0] + cuts, cuts + [len(body)])]
    return vals, parts


def n_write_segments():
    d = logix([unit(mr(0x53, 0))] * 40)
    d.write("big{%d}" % BIG, BIGVAL)
    return len(d._sock.sent)


def gen_seq_cases(rng, thorough, nseg):
    """(model tokens, impl spec, replies, meta{expect: list of per-reply layouts for the truthy=>success oracle})"""
    cases = []
    rf = (["readfrag", "DINT", "r", str(BIG)], ("read", "big{%d}" % BIG))
    for nfrag in (1, 2, 3):
        for _ in range(6 if thorough else 2):
            vals, parts = frag_payloads(rng, nfrag)
            good = [unit(mr(0x52, 6 if i < nfrag - 1 else 0, b"\xc4\x00" + p)) for i, p in enumerate(parts)]
            cases.append((rf, good, {"gen": "frag-good", "lay": "unit", "want": True}))
            for pos in range(nfrag):
                for st in ([4, 5, 6, 0xFF, 0x2A] if not thorough else range(1, 256, 3)):
                    if st == 6 and pos < nfrag - 1:
                        continue
                    r2 = list(good)
                    r2[pos] = unit(mr(0x52, st, b"", rng.choice([b"", b"\x05\x21"])))
                    cases.append((rf, r2[:pos + 1] if st != 6 else r2, {"gen": "frag-status", "lay": "unit"}))
                r2 = list(good)                                     # wrong reply service on a status-6 fragment
                r2[pos] = unit(mr(0x4C, 6 if pos < nfrag - 1 else 0, b"\xc4\x00" + parts[pos]))
                cases.append((rf, r2, {"gen": "frag-service", "lay": "unit"}))
                fr = good[pos]
                cuts = range(len(fr)) if thorough else sorted(set([0, 12, 24, 46, 47, 48, 49, 50, 51, 52] + rng.sample(range(len(fr)), 6)))
                for c in cuts:
                    r2 = list(good)
                    r2[pos] = fr[:c]
                    cases.append((rf, r2, {"gen": "frag-trunc", "lay": "unit"}))
                for es in (3, 0x65):
                    r2 = list(good)
                    r2[pos] = unit(mr(0x52, 0, b"\xc4\x00" + parts[pos]), status=es)[:24]
                    cases.append((rf, r2, {"gen": "frag-encap-header-only", "lay": "unit", "wf_error": True}))
                    r2 = list(good)
                    r2[pos] = unit(mr(0x52, 0, b"\xc4\x00" + parts[pos]), status=es)
                    cases.append((rf, r2, {"gen": "frag-encap-full", "lay": "unit"}))
                for _ in range(10 if thorough else 3):
                    b = bytearray(fr)
                    for _ in range(rng.choice([1, 2])):
                        b[rng.choice([8, 9, 46, 47, 48, 49, 50, 51, rng.randrange(len(b))])] = rng.choice([0, 6, 0x80, 0xA0, 2, rng.randrange(256)])
                    r2 = list(good)
                    r2[pos] = bytes(b)
                    cases.append((rf, r2, {"gen": "frag-corrupt", "lay": "unit"}))
            cases.append((rf, good[:-1], {"gen": "frag-missing-last", "lay": "unit"}))
    cases.append((rf, [unit(mr(0x52, 6, b"\xc4\x00" + bytes(8)))] * 70, {"gen": "frag-endless", "lay": "unit"}))
    # struct marker in a fragment
    cases.append((rf, [unit(mr(0x52, 0, b"\xa0\x02\x12\x34" + bytes(4 * BIG)))], {"gen": "frag-structmarker", "lay": "unit"}))
    wf_ = (["writefrag", str(nseg), "0"], ("writefrag",))
    good = [unit(mr(0x53, 0))] * nseg
    cases.append((wf_, good, {"gen": "wfrag-good", "lay": "unit", "want": True}))
    for pos in range(nseg):
        for st in ([4, 5, 6, 0xFF] if not thorough else range(1, 256, 5)):
            r2 = list(good)
            r2[pos] = unit(mr(0x53, st, b"", rng.choice([b"", b"\x05\x21"])))
            cases.append((wf_, r2, {"gen": "wfrag-status", "lay": "unit", "want": st == 6}))
        for c in ([0, 12, 24, 46, 47, 48, 49] if not thorough else range(0, 50)):
            r2 = list(good)
            r2[pos] = good[pos][:c]
            cases.append((wf_, r2, {"gen": "wfrag-trunc", "lay": "unit"}))
        r2 = list(good)
        r2[pos] = unit(mr(0x53, 0), status=0x65)[:24]
        cases.append((wf_, r2, {"gen": "wfrag-encap-header-only", "lay": "unit", "wf_error": True}))
        cases.append((wf_, good[:pos], {"gen": "wfrag-missing", "lay": "unit"}))
    # forward open handshakes in front of a call
    fo_ok = rr(mr(0x5B, 0, b"\x11\x22\x33\x44" + bytes(22)))
    fo_ok_std = rr(mr(0x54, 0, b"\x11\x22\x33\x44" + bytes(22)))
    ans_g = unit(mr(0x01, 0, b"xyz"))
    ans_r = unit(mr(0x4C, 0, read_data("DINT", [77])))
    lam = fw.t_text("<lambda>")
    fg = (["fo", lam, "generic", "unit", "none"], ("fo_generic",))
    fr_ = (["fo", fw.t_text("read"), "read", "DINT", "a", "1"], ("fo_read",))
    for spec_, ans in ((fg, ans_g), (fr_, ans_r)):
        cases.append((spec_, [fo_ok, ans], {"gen": "fo-good", "lay": "fo", "want": True}))
        for st in ([1, 2, 4, 6, 8, 0xFF] if not thorough else range(1, 256, 4)):
            ext = rng.choice([b"", struct.pack("<H", rng.choice([0x0100, 0x0107, 0x0315, 7]))])
            bad = rr(mr(0x5B, st, b"", ext))
            cases.append((spec_, [bad, fo_ok_std, ans], {"gen": "fo-ext-rejected", "lay": "fo", "want": True}))
            cases.append((spec_, [bad, rr(mr(0x54, st, b"", ext)), ans], {"gen": "fo-both-rejected", "lay": "fo"}))
            cases.append((spec_, [bad], {"gen": "fo-missing", "lay": "fo"}))
        for c in ([0, 12, 24, 40, 41, 42, 43, 44, 48] if not thorough else range(len(fo_ok))):
            cases.append((spec_, [fo_ok[:c], fo_ok_std, ans], {"gen": "fo-trunc", "lay": "fo"}))
            cases.append((spec_, [fo_ok[:c], fo_ok_std[:c], ans], {"gen": "fo-trunc", "lay": "fo"}))
        cases.append((spec_, [rr(mr(0x5B, 0, b"\x11\x22\x33\x44"), status=3), fo_ok_std, ans], {"gen": "fo-encap", "lay": "fo"}))
        cases.append((spec_, [fo_ok, ans[:30]], {"gen": "fo-good-then-trunc", "lay": "fo"}))
        cases.append((spec_, [fo_ok, unit(mr(ans[46] & 0x7F, 5, b"", b"\x00\x00"))], {"gen": "fo-good-then-error", "lay": "fo"}))
    # open (register session)
    reg = encap(b"\x65\x00", b"\x01\x00\x00\x00", session=0x11223344)
    op = (["open"], ("open",))
    for c in range(len(reg) + 1):
        cases.append((op, [reg[:c]], {"gen": "open-trunc", "lay": "open"}))
    for es in [1, 2, 3, 0x64, 0x69, 0xFFFFFFFF, 0x80000000]:
        b = bytearray(reg)
        b[8:12] = struct.pack("<I", es)
        cases.append((op, [bytes(b)], {"gen": "open-encap", "lay": "open"}))
        cases.append((op, [bytes(b[:24])], {"gen": "open-encap", "lay": "open"}))
    for _ in range(100 if thorough else 25):
        b = bytearray(reg)
        for _ in range(rng.choice([1, 2])):
            b[rng.randrange(len(b))] = rng.randrange(256)
        cases.append((op, [bytes(b)], {"gen": "open-corrupt", "lay": "open"}))
    cases.append((op, [], {"gen": "open-no-reply", "lay": "open"}))
    return cases


def check_seq(R, mp, cases):
    B = Batch(mp)
    idx = []
    for (mtoks, ispec), replies, meta in cases:
        a = B.add(mline_call(mtoks, replies))
        ss = []
        for i, raw in enumerate(replies[:8]):
            lay = "unit"
            if meta["lay"] == "fo" and i < 2 and not (len(raw) >= 2 and raw[:2] == b"\x70\x00"):
                lay = "rr"
            ss.append((lay, B.add(f"spec {lay} {fw.t_bytes(raw)}")))
        idx.append((a, ss))
    B.run()
    for ((mtoks, ispec), replies, meta), (a, ss) in zip(cases, idx):
        impl = impl_call(ispec, replies)
        model = parse_out(B[a])
        name = ispec[0] if ispec[0] != "read" else "readfrag"
        case = {"kind": name, "gen": meta["gen"], "replies": [r if len(r) < 120 else r[:120] for r in replies], "n_replies": len(replies)}
        R.corr_checked += 1
        R.count("kind", name)
        R.count("gen", meta["gen"])
        R.case((name, tuple(replies)), nontrivial=bool(replies))
        if model != impl:
            R.disagree(f"public call {name}", case, model, impl)
        if not is_lib(impl):
            _fail(R, "a foreign exception escapes a public call", case, impl, "Ok or a PycommError", f"{name}:foreign:{impl[1]}")
            continue
        specs = [parse_spec(B[j]) for _, j in ss]
        good = (impl[0] == "tags" and truthy(impl[1][0])) or impl == ("bool", True)
        R.count("outcome", name + ":" + ("success" if good else impl[0] if impl[0] != "tags" else "falsy"))
        if meta["lay"] == "open":
            raw = replies[0] if replies else b""
            want = len(raw) >= 12 and raw[8:12] == b"\0\0\0\0"
            if replies and good != want:
                _fail(R, "open(): session registration result differs from the encapsulation status word", case, impl, want,
                       "open:short-success" if good and len(raw) < 12 else "open:classification")
            continue
        if good:
            # success must be backed by status words saying success in every reply the call consumed
            if meta["lay"] == "fo":
                used = [sp for sp in specs if True]
                # the handshake may fail once (extended -> standard): at least one FO success, and the LAST reply is the answer
                ok = specs[-1]["succ"] and any(sp["succ"] for sp in specs[:-1])
            else:
                ok = all(sp["succ"] for sp in specs[:len(replies)]) and len(specs) > 0
            if not ok:
                _fail(R, "a call reports success although a reply it consumed does not say success", case, impl, specs, f"{name}:status-ignored")
        else:
            if meta.get("want") is True:
                _fail(R, "a sequence of success replies is reported as failure", case, impl, "truthy", f"{name}:success-rejected")
            if impl[0] == "tags":
                t = impl[1][0]
                if not (isinstance(t[1], str) and t[1] != ""):
                    _fail(R, "falsy result without an error text", case, impl, "non-empty error", f"{name}:no-error-text")
            if impl[0] == "exc" and meta.get("wf_error"):
                _fail(R, "a well-formed error reply raises instead of giving a falsy result", case, impl, "falsy Tag with error text", f"{name}:wf-error-raises")


def run(R, escalate=False):
    logging.disable(logging.CRITICAL)
    thorough = R.tier == "thorough" or escalate
    rng = R.rng
    R.rule = ("request kinds (read atomic/array, fragmented read, write, read-modify-write, fragmented write, multi-service read/write, generic "
              "connected/unconnected raw/typed, forward-open handshake, register session; response classes directly) x general status 0..255 x "
              "additional-status sizes 0/1/2/3 words (known and random values) x reply services (incl. partial-transfer services, missing reply bit) "
              "x encapsulation errors (full, header-only) + every truncation + random corruptions (status-word positions favoured) of valid and error "
              "replies; multi-service: per-service status vectors, count/offset-table games. non-trivial = distinct (kind, reply bytes) with a frame of >= 24 bytes")
    mp = fw.ModelProc("C13")
    try:
        run_corpus(R, mp)
        check_cls(R, mp, gen_cls_cases(rng, thorough))
        check_single(R, mp, gen_single_cases(rng, thorough))
        check_multi(R, mp, gen_multi_cases(rng, thorough))
        check_seq(R, mp, gen_seq_cases(rng, thorough, n_write_segments()))
    finally:
        mp.close()
        logging.disable(logging.NOTSET)


# ------------------------------------------------------------------ corpus / replay
def corpus_case(d):
    """{"kind": "single:<name>" | "multi:<name>" | "seq:readfrag|writefrag|open|fo_generic|fo_read" | "cls:<kind>", "replies": [hex...]}"""
    replies = [bytes.fromhex(x) for x in d["replies"]]
    return d["kind"], replies


def run_corpus(R, mp):
    import glob
    import json
    import os
    singles = {k.name: k for k in single_kinds()}
    multis = {m[0]: m for m in multi_kinds()}
    s_cases, m_cases, q_cases, c_cases = [], [], [], []
    for path in sorted(glob.glob(os.path.join(fw.VERIF, "corpus", "C13", "*.json"))):
        for d in json.load(open(path)):
            kind, replies = corpus_case(d)
            meta = {"gen": "corpus:" + os.path.basename(path)[:-5], "data_ok": bool(d.get("data_ok")), "wf": bool(d.get("wf")),
                    "lay": d.get("lay", "unit"), **({"wf_error": True} if d.get("wf_error") else {})}
            fam, _, name = kind.partition(":")
            if fam == "single":
                s_cases.append((singles[name], replies, meta))
            elif fam == "multi":
                m_cases.append((multis[name], replies, meta))
            elif fam == "cls":
                c_cases.append((name, replies[0], meta["gen"]))
            elif fam == "seq":
                nseg = n_write_segments()
                spec = {"readfrag": (["readfrag", "DINT", "r", str(BIG)], ("read", "big{%d}" % BIG)),
                        "writefrag": (["writefrag", str(nseg), "0"], ("writefrag",)),
                        "open": (["open"], ("open",)),
                        "fo_generic": (["fo", fw.t_text("<lambda>"), "generic", "unit", "none"], ("fo_generic",)),
                        "fo_read": (["fo", fw.t_text("read"), "read", "DINT", "a", "1"], ("fo_read",))}[name]
                q_cases.append((spec, replies, meta))
    check_cls(R, mp, c_cases)
    check_single(R, mp, s_cases)
    check_multi(R, mp, m_cases)
    check_seq(R, mp, q_cases)


def replay(R, rp):
    """re-run the failing case of a replay file (and the corpus) on the current tree"""
    logging.disable(logging.CRITICAL)
    mp = fw.ModelProc("C13")
    try:
        run_corpus(R, mp)
        f = rp.get("failure") or {}
        case = f.get("case") or {}
        kind = case.get("kind", "")
        replies = [bytes.fromhex(x["b"]) for x in case.get("replies", [])] if "replies" in case else ([bytes.fromhex(case["raw"]["b"])] if "raw" in case else [])
        singles = {k.name: k for k in single_kinds()}
        multis = {m[0]: m for m in multi_kinds()}
        if kind in singles:
            check_single(R, mp, [(singles[kind], replies, {"gen": "replay", "data_ok": False})])
        elif kind in multis:
            check_multi(R, mp, [(multis[kind], replies, {"gen": "replay", "wf": False})])
        elif kind.startswith("cls:"):
            check_cls(R, mp, [(kind[4:], replies[0], "replay")])
        else:
            run(R, escalate=True)
    finally:
        mp.close()
        logging.disable(logging.NOTSET)
