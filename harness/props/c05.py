"""C05 — uploaded tag list and type definitions mirror the controller.

Tie (model <-> code).  The model (coq/Model/LogixUpload.v, extracted to bin/modelrun_c05) is a
function from the peer's replies to the uploaded dictionaries.  Correspondence streams:
 (a) whole uploads: the real `LogixDriver.get_tag_list` / `open` runs against the live reference
     target (bin/modelrun_target through harness/target.py) on random projects x page policies x
     template-fragment policies x firmware majors x scopes; the model is fed THE EXACT REPLY FRAMES
     the driver received (`drv.fakesock.replies`) and must emit the same requests (service, path,
     data: start instances, byte offsets and counts) and produce the same `tags`, `data_types`,
     `info['programs'|'tasks']` and `tags_json`, compared as whole trees (dictionaries as mappings, lists in order; type classes and
     `_struct_members` described structurally);
 (b) a malformed stream: the recorded frames with one mutation (truncated / flipped / dropped /
     duplicated frame, changed status) are replayed to the real driver and to the model: same
     outcome (result or exception), same requests, same dictionaries;
 (c) unit streams on the functions themselves: `_isolate_user_tags` predicates on generated names,
     `_create_tag` bit fields, `_parse_instance_attribute_list` on pages (whole and cut),
     `_parse_template_data_member_info`, `_parse_template_data` on generated definitions,
     `tags_json`'s `_copy_datatype` on generated dictionaries.

Oracle on the implementation (Spec side only: the target's `view`, i.e. Spec/Expect.abstract_view,
through harness/refview.py — never the model): after the upload `refview.diff_upload(view, drv)`
must be empty (no tag missing / duplicated / invented, data type, dimensions, external access,
alias flag, instance id, every reachable structure with its visible members, offsets, bits, array
lengths, nested definitions, hidden hosts absent from `attributes`, strings with the right
capacity, programs / tasks); the filtered symbol classes are absent and module I/O tags present;
`json.dumps(drv.tags_json)` succeeds; and the result is IDENTICAL across page / fragment policies
of the same project (compared directly)."""
import copy
import glob
import json
import logging
import os
import random
import signal
import socket
import struct

import framework as fw
import refview as RV
import scenarios as S
import target as T

EXTRA_MODELS = ["Target"]

ASSUMPTIONS = [
    "the reference target (coq/Spec/TargetLogix.v: symbol object 0x6B pages in ascending instance order, template object 0x6C "
    "attributes and definition bytes records + NUL-separated names + padding to definition_size*4-21) is my specification of a "
    "Logix controller, calibrated against the two real-controller uploads in /repo/tests/offline (thorough tier)",
    "names are ASCII; symbol names follow the Logix rules: a ':' occurs only in Program:/Routine:/Task:/Map:/Cxn: symbols and "
    "in module I/O tags Name[:slot]:Kind (kind beginning with I, O, C or S); a structure without ';' in its name has a "
    "predefined-range template id; a visible LEN/DATA pair with DATA a SINT array has LEN a DINT (a string type)",
    "info['modules'] is not part of the statement and is not modelled",
    "several uploads on one driver: the model threads the driver state (caches, info, _data_types) from call to call; "
    "get_tag_list(program=P) shows P's tags (drv.tags holds that scope only) with their definitions",
    "external access is compared only from firmware 18 on (attribute 10 does not exist before)",
]

logging.disable(logging.CRITICAL)


class Timeout(Exception):
    pass


def _alarm(sig, frm):
    raise Timeout()


class alarm:
    """`with alarm(s):` — the implementation may hang on bad input"""

    def __init__(self, seconds):
        self.seconds = seconds

    def __enter__(self):
        self.old = signal.signal(signal.SIGALRM, _alarm)
        self.left = signal.alarm(self.seconds)

    def __exit__(self, *a):
        signal.alarm(0)
        signal.signal(signal.SIGALRM, self.old)
        if self.left:
            signal.alarm(self.left)
        return False


# ------------------------------------------------------------------ canonical trees
def desc_tc(tc):
    """a type class described structurally (coq: tclass_desc)"""
    from pycomm3.cip.data_types import ArrayType
    if tc is None:
        return None
    if isinstance(tc, type) and issubclass(tc, ArrayType):
        return ["array", tc.length, desc_tc(tc.element_type)]
    name = getattr(tc, "__name__", None)
    if name == "FixedSizeString":
        return ["fstr", tc.size, tc.capacity]
    if name == "StructTag":
        return ["struct", tc.size, [[m.name, desc_tc(type(m)), tc._offsets[m]] for m in tc.members],
                {k: list(v) for k, v in tc.bits.items()}, ["set"] + sorted(tc.private)]
    return name


def _norm_set(items):
    if items and items[0] == ("S", "set"):
        return [items[0]] + sorted(items[1:], key=repr)
    return items


class Raw(tuple):
    """an already canonical tree"""


def canon(v):
    """a Python value of the uploaded dictionaries as a tree comparable with the model's <py> tokens"""
    if v is None:
        return None
    if isinstance(v, Raw):
        return tuple(v)
    if isinstance(v, bool):
        return ("B", v)
    if isinstance(v, int):
        return ("I", v)
    if isinstance(v, str):
        return ("S", v)
    if isinstance(v, dict):         # key order is not part of the statement: compared as a mapping
        return ("D", sorted([(canon(k), canon(x)) for k, x in v.items()], key=lambda kv: repr(kv[0])))
    if isinstance(v, list):
        return ("L", _norm_set([canon(x) for x in v]))
    if isinstance(v, tuple):         # _struct_members = ([(instance, offset)...], {bit member: (offset, bit)})
        members, bits = v
        return ("O", canon([[[m.name, desc_tc(type(m)), off] for m, off in members], {k: list(x) for k, x in bits.items()}]))
    if isinstance(v, type):
        return ("O", canon(desc_tc(v)))
    raise TypeError(f"cannot canonicalise {v!r}")


def _text(t):
    return t.decode("latin-1") if isinstance(t, (bytes, bytearray)) else str(t)


def parse_py(toks, i=0):
    k = str(toks[i])
    if k == "N":
        return None, i + 1
    if k == "T":
        return ("B", True), i + 1
    if k == "F":
        return ("B", False), i + 1
    if k == "I":
        return ("I", toks[i + 1]), i + 2
    if k == "S":
        return ("S", _text(toks[i + 1])), i + 2
    if k == "O":
        d, j = parse_py(toks, i + 1)
        return ("O", d), j
    if k == "L":
        n, j, out = toks[i + 1], i + 2, []
        for _ in range(n):
            v, j = parse_py(toks, j)
            out.append(v)
        return ("L", _norm_set(out)), j
    if k == "D":
        n, j, out = toks[i + 1], i + 2, []
        for _ in range(n):
            kk, j = parse_py(toks, j)
            v, j = parse_py(toks, j)
            out.append((kk, v))
        return ("D", sorted(out, key=lambda kv: repr(kv[0]))), j
    raise ValueError(f"bad py token {k!r} at {i}")


def py_tokens(c):
    """canonical tree -> <py> tokens (for copyjson)"""
    if c is None:
        return ["N"]
    t, a = c
    if t == "B":
        return ["T" if a else "F"]
    if t == "I":
        return ["I", str(a)]
    if t == "S":
        return ["S", fw.t_bytes(a.encode("latin-1"))]
    if t == "O":
        return ["O"] + py_tokens(a)
    if t == "L":
        return ["L", str(len(a))] + [x for e in a for x in py_tokens(e)]
    if t == "D":
        return ["D", str(len(a))] + [x for k, v in a for x in py_tokens(k) + py_tokens(v)]
    raise ValueError(t)


def first_diff(a, b, path="$"):
    """where two canonical trees differ (for reports)"""
    if type(a) != type(b):
        return f"{path}: {str(a)[:80]} / {str(b)[:80]}"
    if isinstance(a, tuple) and len(a) == 2 and a[0] in ("D", "L", "O", "B", "I", "S") and isinstance(b, tuple) and len(b) == 2:
        if a[0] != b[0]:
            return f"{path}: kind {a[0]} / {b[0]}"
        if a[0] == "D":
            if [k for k, _ in a[1]] != [k for k, _ in b[1]]:
                return f"{path}: keys {[k for k, _ in a[1]][:12]} / {[k for k, _ in b[1]][:12]}"
            for (k, x), (_, y) in zip(a[1], b[1]):
                if x != y:
                    return first_diff(x, y, f"{path}[{k[1] if k else None!r}]")
        if a[0] == "L":
            if len(a[1]) != len(b[1]):
                return f"{path}: lengths {len(a[1])} / {len(b[1])}"
            for i, (x, y) in enumerate(zip(a[1], b[1])):
                if x != y:
                    return first_diff(x, y, f"{path}[{i}]")
        if a[0] == "O":
            return first_diff(a[1], b[1], path + "!")
    return f"{path}: {str(a)[:80]} / {str(b)[:80]}" if a != b else None


def groups(toks):
    out, cur = [], []
    for t in toks:
        if isinstance(t, fw.Sym) and t == "|":
            out.append(cur)
            cur = []
        else:
            cur.append(t)
    out.append(cur)
    return out


# ------------------------------------------------------------------ scenarios
POLICY_PAGES = [[1], [2], [7], []]
POLICY_TMPL = [[1], [2], [7], []]
REVS = [16, 17, 18, 19, 20, 21, 24, 30, 32, 35]


def scenario_from_json(d):
    sc = S.Scenario()
    sc.templates = copy.deepcopy(d["templates"])
    sc.tags = copy.deepcopy(d["tags"])
    sc.policy = dict(sc.policy, **d.get("policy", {}))
    sc.cfg = dict(d.get("cfg", {}))
    for g in sc.data_tags():
        sc.mem[g["inst"]] = bytes(sc.tag_size(g))
    return sc


def scenario_to_json(sc):
    def clean(t):
        return {k: v for k, v in t.items() if not k.startswith("_") and k not in ("depth", "align8")}
    return {"templates": [clean(t) for t in sc.templates], "tags": [clean(g) for g in sc.tags],
            "policy": dict(sc.policy), "cfg": {k: v for k, v in sc.cfg.items() if isinstance(v, int)}}


def controller_only(sc):
    c = S.Scenario()
    c.templates = sc.templates
    c.tags = [g for g in sc.tags if g["prog"] is None]
    c.mem = {g["inst"]: sc.mem[g["inst"]] for g in c.data_tags()}
    c.policy = sc.policy
    c.cfg = sc.cfg
    return c


def load(tp, sc):
    tp.reset()
    tp.lines(sc.cfg_lines())
    tp.lines(sc.lines())


def hidden_by_rule(g):
    """the symbol classes the statement excludes, decided from the generator's own data"""
    n = g["name"]
    return (g["system"] or g["kind"] == "o" or n.startswith(("Program:", "Routine:", "Task:", "__"))
            or "Map:" in n or "Cxn:" in n)


def is_module_io(g):
    parts = g["name"].split(":")
    return g["kind"] != "o" and not g["system"] and len(parts) in (2, 3) and parts[-1][:1] in ("I", "O", "C", "S") \
        and "Map" not in parts[0] and "Cxn" not in parts[0] and not g["name"].startswith(("Program:", "Routine:", "Task:", "__"))


def variant_cls(page, tmpl, rev, arg):
    return f"page={'fit' if not page else 'x'.join(map(str, page))} tmpl={'fit' if not tmpl else 'x'.join(map(str, tmpl))}"


# ------------------------------------------------------------------ one upload against the live target
class Upload:
    """the real driver uploads from a live target; keeps what the oracle and the correspondence need"""

    def __init__(self, tp, sc, arg, via_open, rev):
        from pycomm3 import LogixDriver
        self.arg, self.via_open, self.rev, self.tp = arg, via_open, rev, tp
        self.error = None
        self.drv = None
        load(tp, sc)
        with alarm(60):
            try:
                if via_open:
                    self.drv = T.open_driver(LogixDriver, "10.0.0.1", tp, init_program_tags=(arg == "star"))
                    fs = self.drv.fakesock
                    mark = next((i for i, f in enumerate(fs.sent) if len(f) > 46 and f[0] == 0x70 and f[46] == 0x55), len(fs.sent))
                    self.result = list(self.drv.tags.values())
                else:
                    self.drv = T.open_driver(LogixDriver, "10.0.0.1", tp, init_tags=False)
                    fs = self.drv.fakesock
                    mark = len(fs.sent)
                    self.result = self.drv.get_tag_list(program={"star": "*", "none": None}.get(arg, arg))
            except Timeout:
                self.error = "TIMEOUT"
                return
            except Exception as e:      # noqa: BLE001
                self.error = f"{type(e).__name__}: {e} / {e.__cause__!r}"
                return
        fs = self.drv.fakesock
        self.frames = [r for r in fs.replies[mark:]]
        self.requests = []
        for f in fs.sent[mark:]:
            if len(f) > 48 and f[0] == 0x70:
                svc, words = f[46], f[47]
                self.requests.append((svc, bytes(f[48:48 + 2 * words]), bytes(f[48 + 2 * words:])))
            else:
                self.requests.append((-1, b"", bytes(f)))

    def trees(self, light=False):
        d = self.drv
        return driver_trees(d, light)

    def close(self):
        try:
            if self.drv is not None:
                self.drv.close()
        except Exception:             # noqa: BLE001
            pass


def light_ok(d):
    """every structure tag's definition IS the object listed in data_types under its name (then the
    light comparison — definitions in data_types only — loses nothing)"""
    for t in d.tags.values():
        if t.get("tag_type") == "struct":
            dt = t.get("data_type")
            if not isinstance(dt, dict) or d.data_types.get(dt.get("name")) is not dt or t.get("type_class") is None:
                return False
            tc = t["type_class"]
            if t.get("dim") and getattr(tc, "element_type", None) is not dt.get("type_class"):
                return False
            if not t.get("dim") and tc is not dt.get("type_class"):
                return False
    return True


def driver_trees(d, light=False):
    if light:
        tags = {}
        for n, t in d.tags.items():
            if t.get("tag_type") == "struct":
                tc = t.get("type_class")
                t = dict(t, data_type=None, type_class=Raw(("O", canon(["array", tc.length, None]))) if t.get("dim") else None)
            tags[n] = t
    else:
        tags = d.tags
    return {"tags": canon(tags), "dts": canon(d.data_types), "progs": canon(d.info.get("programs", {})),
            "tasks": canon(d.info.get("tasks", {}))}


def model_script(mp, rev, arg, frames, fuel=200000, detail=1):
    a = "none" if arg == "none" else "star" if arg == "star" else fw.t_bytes(arg.encode("latin-1"))
    line = f"script {rev} {fuel} {a} {detail}" + "".join(" | " + fw.t_bytes(f) for f in frames if f is not None)
    gs = groups(fw.parse_line(mp.ask_raw(line)))
    out = {"kind": str(gs[0][0]), "requests": [], "trees": {}}
    for g in gs[1:]:
        k = str(g[0])
        if k == "rq":
            out["requests"].append((g[1], bytes(g[2]), bytes(g[3])))
        elif k == "ser":
            out["ser"] = bool(g[1])
        else:
            out["trees"][k] = parse_py(g, 1)[0]
    return out


def compare_with_model(R, what, case, m, kind, requests, trees, json_tree=None, json_ok=None):
    ok = True
    if m["kind"] != kind:
        R.disagree(f"{what}: outcome", case, m["kind"], kind)
        return False
    if m["requests"] != requests:
        k = next((i for i, (a, b) in enumerate(zip(m["requests"], requests)) if a != b), min(len(m["requests"]), len(requests)))
        R.disagree(f"{what}: request #{k} (service, path, data)", case,
                   [len(m["requests"])] + [list(map(lambda x: x.hex() if isinstance(x, bytes) else x, r)) for r in m["requests"][k:k + 1]],
                   [len(requests)] + [list(map(lambda x: x.hex() if isinstance(x, bytes) else x, r)) for r in requests[k:k + 1]])
        ok = False
    if kind == "done":
        for k, t in trees.items():
            if m["trees"].get(k) != t:
                R.disagree(f"{what}: {k}", case, first_diff(m["trees"].get(k), t), "(model / implementation)")
                ok = False
        if json_tree is not None and m["trees"].get("json") != json_tree:
            R.disagree(f"{what}: tags_json", case, first_diff(m["trees"].get("json"), json_tree), "(model / implementation)")
            ok = False
        if json_ok is not None and m.get("ser") != json_ok:
            R.disagree(f"{what}: tags_json serialisable", case, m.get("ser"), json_ok)
            ok = False
    return ok


def oracle(R, sc, case, up, view, cls):
    """the property on the implementation, from the target's view only"""
    drv = up.drv
    star = up.arg == "star"
    diffs = RV.diff_upload(view, drv, program_tags=star)
    for d in diffs[:6]:
        R.fail("upload differs from the controller's abstract view", dict(case, diff=d), d, "no difference", cls)
    names = list(drv.tags)
    got = up.result
    if len({t["tag_name"] for t in got}) != len(got):
        R.fail("a tag is uploaded twice", case, sorted(t["tag_name"] for t in got), "distinct names", cls)
    for g in sc.tags:
        full = sc.full_name(g)
        if g["prog"] is not None and not star:
            continue
        if hidden_by_rule(g) and full in drv.tags:
            R.fail("a filtered symbol class is in tags", dict(case, tag=full), full, "absent", cls)
        if is_module_io(g) and full not in drv.tags:
            R.fail("a module I/O tag is missing", dict(case, tag=full), names[:20], full, cls)
    return json_view_check(R, drv, up.tp, sc, view, star, case, cls)


def member_request(rng, sc, drv):
    """a read request for a member of an uploaded structure tag (None: the project has none)"""
    cands = [g for g in sc.data_tags() if g["kind"] == "s" and not S._hidden_tag(g) and sc.full_name(g) in drv.tags
             and not sc.is_string(sc.template(g["code"]))]
    for _ in range(12):
        if not cands:
            return None
        req = S.gen_request(rng, sc, rng.choice(cands))[0]
        if req.count(".") > (1 if req.startswith("Program:") else 0):      # a member path, not the whole structure
            return req
    return None


def read_matches(drv, tp, req):
    """the real driver reads `req` from the live target and returns the reference value"""
    exp = RV.refread(tp, req)
    if exp is None:
        return None
    try:
        with alarm(20):
            res = drv.read(req)
    except Exception as e:            # noqa: BLE001
        return f"raised {e!r}"
    if not res:
        return f"failed: {res.error}"
    if not RV.same_value(exp["value"], res.value) or res.type != exp["type"]:
        return f"{res.value!r} ({res.type}) != {RV.to_python(exp['value'])!r} ({exp['type']})"
    return True


def json_view_check(R, drv, tp, sc, view, star, case, cls, rng=None):
    """json.dumps(drv.tags_json), twice — and reading the JSON view must not change what was uploaded:
    tags / data_types (type classes included) are the same objects' worth as before, still equal the
    abstract view, and a structure-member read still returns the controller's value"""
    rng = rng or random.Random(len(drv.tags) * 7919 + len(drv.data_types))
    before = driver_trees(drv)
    req = member_request(rng, sc, drv)
    base = read_matches(drv, tp, req) if req else None
    try:
        js = drv.tags_json
        json.dumps(js)
        js = drv.tags_json
        json.dumps(js)
    except Exception as e:            # noqa: BLE001
        R.fail("tags_json is not JSON-serialisable", case, repr(e), "json.dumps succeeds", cls)
        return None, False
    try:
        after = driver_trees(drv)
    except Exception as e:            # noqa: BLE001
        after = repr(e)
    if after != before:
        which = next((k for k in before if not isinstance(after, dict) or after.get(k) != before[k]), "?")
        R.fail("reading tags_json changed what was uploaded", dict(case, changed=which),
               first_diff(before[which], after[which]) if isinstance(after, dict) and which in before else str(after)[:200],
               "tags and data_types unchanged (type classes included)", cls)
    for d in RV.diff_upload(view, drv, program_tags=star)[:4]:
        R.fail("after tags_json the upload differs from the controller's abstract view", dict(case, diff=d), d, "no difference", cls)
    if req and base is True:
        R.count("structure-member read after tags_json", "checked")
        again = read_matches(drv, tp, req)
        if again is not True:
            R.fail("a structure-member read after tags_json does not return the controller's value", dict(case, request=req), again,
                   "the reference value (it was returned before tags_json was read)", cls)
    elif req:
        R.count("structure-member read after tags_json", "skipped: the read does not match the reference before tags_json either")
    return js, True


def run_project(R, tp, tpv, mp, sc, label, n_variants, rng, hist="uploads", detail_every=1):
    """one project under several policies / firmware majors / scopes; -> number of uploads"""
    base = scenario_to_json(sc)
    progs = sorted({g["prog"] for g in sc.tags if g["prog"] is not None})
    load(tpv, sc)
    view_star = RV.view(tpv)
    load(tpv, controller_only(sc))
    view_none = RV.view(tpv)
    seen = {}          # (arg, rev>=18) -> (canonical result, policy) : policy independence
    n = 0
    variants = []
    for k in range(n_variants):
        page = rng.choice(POLICY_PAGES + [[rng.randint(1, 30)], [rng.randint(1, 4) for _ in range(3)], [3, 0, 7]])
        tmpl = rng.choice(POLICY_TMPL + [[rng.randint(1, 200)], [16, 0, 5], [rng.randint(1, 9) for _ in range(3)]])
        if k < len(POLICY_PAGES):      # the named policies first: 1 / 2 / 7 / as many as fit
            page, tmpl = POLICY_PAGES[k], POLICY_TMPL[(k + rng.randint(0, 3)) % 4]
        variants.append((page, tmpl))
    rev_a, rev_b = rng.choice([18, 19, 20, 21, 24, 30, 32, 35]), rng.choice([16, 17])
    for k, (page, tmpl) in enumerate(variants):
        v = copy.deepcopy(sc)
        v.policy["page"], v.policy["tmpl"] = page, tmpl
        v.policy["arraybit"] = rng.choice([1, 1, 0])
        rev = rev_a if k % 4 != 3 else rng.choice([rev_b] + REVS)
        v.cfg["rev_major"] = rev
        v.cfg["accept_large_fo"] = rng.choice([1, 1, 0])
        arg = "star" if k % 3 != 2 else "none"
        via_open = rng.random() < 0.3
        case = {"label": label, "project": base, "policy": dict(v.policy), "rev": rev, "large": v.cfg["accept_large_fo"],
                "arg": arg, "via_open": via_open}
        cls = f"upload {variant_cls(page, tmpl, rev, arg)}"
        up = Upload(tp, v, arg, via_open, rev)
        n += 1
        R.case({"label": label, "policy": dict(v.policy), "rev": rev, "arg": arg, "n_tags": len(sc.tags), "n_templates": len(sc.templates)})
        R.count(hist, f"scope={arg} via={'open' if via_open else 'get_tag_list'}")
        R.count("page policy", "fit" if not page else "1" if page == [1] else "2" if page == [2] else "7" if page == [7] else "other")
        R.count("template fragment policy", "fit" if not tmpl else "1" if tmpl == [1] else "2" if tmpl == [2] else "7" if tmpl == [7] else "other")
        R.count("firmware major", rev)
        if up.error is not None:
            R.fail("the upload raised", case, up.error, "a result", cls)
            up.close()
            continue
        view = view_star if arg == "star" else view_none
        js, ok = oracle(R, sc, case, up, view, cls)
        full = (k % detail_every == 0) or not light_ok(up.drv)
        trees = up.trees(light=not full)
        R.count("correspondence detail", "full trees + tags_json" if full else "light (definitions compared in data_types)")
        R.count("tags per upload", min(len(up.drv.tags) // 10 * 10, 60))
        R.count("data types per upload", len(up.drv.data_types))
        R.count("requests per upload", min(len(up.requests) // 20 * 20, 200))
        # policy independence, directly
        key = (arg, rev >= 18)
        mine = dict(up.trees(), json=canon(js) if ok else None)
        if key in seen and seen[key][0] != mine:
            other = seen[key][1]
            which = next(k2 for k2 in mine if mine[k2] != seen[key][0][k2])
            R.fail("the result depends on the pagination / fragmentation policy", dict(case, other_policy=other),
                   first_diff(mine[which], seen[key][0][which]), "identical results", "policy-dependence")
        seen.setdefault(key, (mine, dict(v.policy)))
        # correspondence on the exact reply frames
        m = model_script(mp, rev, arg, up.frames, detail=1 if full else 0)
        R.corr_checked += 1
        compare_with_model(R, "upload", case, m, "done", up.requests, trees, canon(js) if (ok and full) else None, ok)
        up.close()
    return n


# ------------------------------------------------------------------ several uploads on one driver (project changes in between)
STALE_CLS = "reupload: data_types keeps a definition that is no longer in the controller"


def reid(rng, b, a):
    """give the templates of project `b` the template ids of project `a` (as far as there are any of
    the same id range): the controller now holds ANOTHER definition behind the same template id"""
    def pre(i):
        return i < 0x100 or i > 0xEFF
    pool = {True: [t["id"] for t in a.templates if pre(t["id"])], False: [t["id"] for t in a.templates if not pre(t["id"])]}
    for k in pool:
        rng.shuffle(pool[k])
    own = {t["id"] for t in b.templates}
    mapping = {}
    for t in b.templates:
        k = pre(t["id"])
        while pool[k]:
            i = pool[k].pop()
            if i not in own or i == t["id"]:
                mapping[t["id"]] = i
                own.add(i)
                break
    for t in b.templates:
        t["id"] = mapping.get(t["id"], t["id"])
        for mm in t["members"]:
            if mm["kind"] == "s":
                mm["code"] = mapping.get(mm["code"], mm["code"])
        for mm in t["members"]:      # hidden host names carry the id in the generator: keep them hosts
            pass
    for g in b.tags:
        if g["kind"] == "s":
            g["code"] = mapping.get(g["code"], g["code"])
    return len(mapping)


def sent_requests(frames):
    out = []
    for f in frames:
        if len(f) > 48 and f[0] == 0x70:
            svc, words = f[46], f[47]
            out.append((svc, bytes(f[48:48 + 2 * words]), bytes(f[48 + 2 * words:])))
        else:
            out.append((-1, b"", bytes(f)))
    return out


class _Stub:
    def __init__(self, tags, rev):
        self.tags, self.data_types, self.info, self.revision_major = tags, {}, {}, rev


def diff_program_call(view, drv, prog):
    """get_tag_list(program=P): drv.tags holds P's tags only; definitions are compared through the tags"""
    pre = f"Program:{prog}."
    v = dict(view, tags={n: t for n, t in view["tags"].items() if n.startswith(pre)})
    out = RV.diff_upload(v, _Stub(drv.tags, drv.revision_major), program_tags=True)
    return [d for d in out if not d.startswith(("data_types", "info["))]


def model_scriptseq(mp, rev, calls, fuel=200000, detail=1):
    line = f"scriptseq {rev} {fuel} {detail}"
    for arg, frames in calls:
        a = "none" if arg == "none" else "star" if arg == "star" else fw.t_bytes(arg.encode("latin-1"))
        line += " || " + a + "".join(" | " + fw.t_bytes(f) for f in frames if f is not None)
    gs = groups(fw.parse_line(mp.ask_raw(line)))
    out = {"kind": str(gs[0][0]), "requests": [], "trees": {}}
    for g in gs[1:]:
        k = str(g[0])
        if k == "rq":
            out["requests"].append((g[1], bytes(g[2]), bytes(g[3])))
        elif k == "ser":
            out["ser"] = bool(g[1])
        else:
            out["trees"][k] = parse_py(g, 1)[0]
    return out


def run_reupload(R, tp, tpv, mp, rng, label):
    """project A, then project A' behind the SAME template ids in the same live target, uploaded again by
    the SAME driver: every call must show the project the controller holds at that moment"""
    from pycomm3 import LogixDriver
    a = S.gen_scenario(rng, n_tags=rng.randint(3, 9), policies=False)
    b = S.gen_scenario(rng, n_tags=rng.randint(3, 9), policies=False)
    shared = reid(rng, b, a)
    rev = rng.choice([17, 18, 20, 21, 24, 32])
    for sc in (a, b):
        sc.cfg["rev_major"] = rev
        sc.policy["page"] = rng.choice([[], [2], [5]])
        sc.policy["tmpl"] = rng.choice([[], [40], [9]])
    flow = rng.choice(["get_tag_list twice", "get_tag_list twice", "open close open", "program calls"])
    case = {"label": label, "flow": flow, "rev": rev, "project": scenario_to_json(a), "project2": scenario_to_json(b), "shared_ids": shared}
    R.case({"label": label, "flow": flow, "shared": shared})
    R.count("re-upload flows", flow)
    R.count("re-upload: template ids holding another definition", min(shared, 8))
    load(tpv, b)
    view_b = RV.view(tpv)
    load(tpv, controller_only(b))
    view_b_none = RV.view(tpv)
    load(tp, a)
    calls = []              # (arg, first sent index, last) for the correspondence
    steps = []

    def oracle_full(drv, arg, where):
        view = view_b if arg == "star" else view_b_none
        for d in RV.diff_upload(view, drv, program_tags=(arg == "star"))[:8]:
            if d.startswith("data_types[") and d.endswith("not a structure reachable from the user tags"):
                R.fail("data_types lists a structure the controller no longer has", dict(case, diff=d, step=where), d, "no difference", STALE_CLS)
            else:
                R.fail("a later upload does not show the controller's current project", dict(case, diff=d, step=where), d, "no difference",
                       "reupload " + flow)
        json_view_check(R, drv, tp, b, view, arg == "star", dict(case, step=where), "reupload " + flow, rng)

    drv = None
    try:
        with alarm(90):
            if flow == "open close open":
                drv = T.open_driver(LogixDriver, "10.0.0.1", tp)
                fs = drv.fakesock
                m0 = next(i for i, f in enumerate(fs.sent) if len(f) > 46 and f[0] == 0x70 and f[46] == 0x55)
                e0 = len(fs.sent)
                calls.append(("star", m0, e0))
                drv.close()
                tp.lines(b.cfg_lines())
                tp.lines(b.lines())
                n1 = len(fs.sent)
                drv.open()
                m1 = next(i for i, f in enumerate(fs.sent) if i >= n1 and len(f) > 46 and f[0] == 0x70 and f[46] == 0x55)
                calls.append(("star", m1, len(fs.sent)))
                oracle_full(drv, "star", "second open()")
            elif flow == "get_tag_list twice":
                arg1, arg2 = rng.choice(["star", "none"]), rng.choice(["star", "star", "none"])
                drv = T.open_driver(LogixDriver, "10.0.0.1", tp, init_tags=False)
                fs = drv.fakesock
                for k, (sc, arg) in enumerate(((a, arg1), (b, arg2))):
                    if k == 1:
                        tp.lines(b.lines())
                    m = len(fs.sent)
                    drv.get_tag_list(program={"star": "*", "none": None}[arg])
                    calls.append((arg, m, len(fs.sent)))
                oracle_full(drv, arg2, "second get_tag_list")
            else:
                drv = T.open_driver(LogixDriver, "10.0.0.1", tp, init_tags=False)
                fs = drv.fakesock
                for k, sc in enumerate((a, b)):
                    if k == 1:
                        tp.lines(b.lines())
                    m = len(fs.sent)
                    drv.get_tag_list(program=None)
                    calls.append(("none", m, len(fs.sent)))
                    for prog in sorted({g["prog"] for g in sc.tags if g["prog"] is not None}):
                        m = len(fs.sent)
                        drv.get_tag_list(program=prog)
                        calls.append((prog, m, len(fs.sent)))
                        if k == 1:
                            for d in diff_program_call(view_b, drv, prog)[:6]:
                                R.fail("a later upload does not show the controller's current project", dict(case, diff=d, step=f"get_tag_list({prog!r})"),
                                       d, "no difference", "reupload " + flow)
                            R.count("re-upload: program-scope calls checked", 1)
    except Timeout:
        R.fail("the upload hangs", case, "TIMEOUT", "a result", "reupload " + flow)
        return
    except Exception as e:          # noqa: BLE001
        R.fail("the upload raised", case, f"{type(e).__name__}: {e} / {e.__cause__!r}", "a result", "reupload " + flow)
        return
    # correspondence: the model runs the same calls on one state, fed the frames each call received
    fs = drv.fakesock
    m = model_scriptseq(mp, rev, [(arg, fs.replies[i:j]) for arg, i, j in calls])
    R.corr_checked += 1
    requests = [r for _, i, j in calls for r in sent_requests(fs.sent[i:j])]
    try:
        js = drv.tags_json
        json.dumps(js)
        jt, jok = canon(js), True
    except Exception:               # noqa: BLE001
        jt, jok = None, False
    compare_with_model(R, "re-upload (" + flow + ")", case, m, "done", requests, driver_trees(drv), jt, jok)
    try:
        drv.close()
    except Exception:               # noqa: BLE001
        pass


# ------------------------------------------------------------------ malformed stream (replay)
class ReplaySocket:
    def __init__(self, frames):
        self.frames = list(frames)
        self.sent = []

    def connect(self, *a):
        pass

    def send(self, msg, timeout=0):
        self.sent.append(bytes(msg))
        return len(msg)

    def receive(self, timeout=0):
        if not self.frames:
            raise socket.timeout("script exhausted")
        return self.frames.pop(0)

    def close(self):
        pass


def replay_driver(rev, frames):
    from pycomm3 import LogixDriver
    d = LogixDriver("10.0.0.1", init_tags=False, init_program_tags=False)
    d._target_is_connected = True
    d._connection_opened = True
    d._session = 0x11223344
    d._target_cid = b"\x01\x02\x03\x04"
    d._info = {"revision": {"major": rev, "minor": 1}}
    d._sock = ReplaySocket(frames)
    return d


def _non_ascii(x, depth=0):
    if isinstance(x, str):
        return any(ord(c) > 127 for c in x)
    if isinstance(x, dict) and depth < 8:
        return any(_non_ascii(k, depth + 1) or (k not in ("type_class", "_struct_members") and _non_ascii(v, depth + 1)) for k, v in x.items())
    if isinstance(x, list) and depth < 8:
        return any(_non_ascii(v, depth + 1) for v in x)
    return False


def outside_model(d):
    """the driver met a non-ASCII program, template or member name: bytes.decode(errors="replace") and
    str.encode() of such names are not modelled (ASSUMPTIONS)"""
    return _non_ascii(d.info.get("programs", {})) or _non_ascii(d.data_types)


def run_replay(R, mp, rev, arg, frames, case, what):
    """the same frames to the real driver and to the model"""
    d = replay_driver(rev, frames)
    sock = d._sock
    kind, trees, js, jok = "done", {}, None, None
    try:
        with alarm(20):
            d.get_tag_list(program={"star": "*", "none": None}.get(arg, arg))
        trees = {"tags": canon(d.tags), "dts": canon(d.data_types), "progs": canon(d.info.get("programs", {})),
                 "tasks": canon(d.info.get("tasks", {}))}
        try:
            j = d.tags_json
            json.dumps(j)
            js, jok = canon(j), True
        except Exception:             # noqa: BLE001
            jok = False
    except Timeout:
        kind = "oof"
    except Exception:                 # noqa: BLE001
        kind = "fail"
    requests = []
    for f in sock.sent:
        svc, words = f[46], f[47]
        requests.append((svc, bytes(f[48:48 + 2 * words]), bytes(f[48 + 2 * words:])))
    if outside_model(d):
        R.count("malformed stream outcome", "outside the model (non-ASCII template / program name)")
        return kind
    m = model_script(mp, rev, arg, frames, fuel=5000)
    R.corr_checked += 1
    R.count("malformed stream outcome", kind)
    compare_with_model(R, what, case, m, kind, requests, trees, js, jok)
    return kind


def mutate_frames(rng, frames):
    fs = [bytes(f) for f in frames if f is not None]
    if not fs:
        return fs, "empty"
    i = rng.randrange(len(fs))
    f = bytearray(fs[i])
    r = rng.random()
    if r < 0.15:
        del fs[i]
        return fs, "drop a frame"
    if r < 0.25:
        fs.insert(i, fs[i])
        return fs, "duplicate a frame"
    if r < 0.40 and len(f) > 50:
        cut = rng.randint(44, len(f) - 1)
        fs[i] = bytes(f[:cut])
        return fs, "truncate a frame" if cut >= 50 else "truncate into the envelope"
    if r < 0.55 and len(f) > 48:
        f[48] = rng.choice([0, 6, 6, 4, 5, 0x1E, rng.randrange(256)])
        fs[i] = bytes(f)
        return fs, "change the status"
    if r < 0.62 and len(f) > 46:
        f[46] = rng.choice([0xD5, 0x83, 0xCC, 0x55, rng.randrange(256)])
        fs[i] = bytes(f)
        return fs, "change the reply service"
    if r < 0.68 and len(f) > 11:
        f[8 + rng.randrange(4)] ^= 1 << rng.randrange(8)
        fs[i] = bytes(f)
        return fs, "encapsulation status"
    if r < 0.74 and len(f) > 50:
        fs = fs[:i + 1]
        return fs, "end of script"
    if len(f) > 50:
        for _ in range(rng.choice([1, 1, 2, 4])):
            p = rng.randrange(50, len(f))
            f[p] = rng.choice([f[p] ^ (1 << rng.randrange(8)), 0, 0xFF, 0x3B, 0x5F, 0x3A])
            if f[46] == 0xCC:          # a template definition: names stay ASCII (bytes.decode of other bytes is not modelled)
                f[p] &= 0x7F
        if rng.random() < 0.3:
            f += bytes(rng.randrange(128 if f[46] == 0xCC else 256) for _ in range(rng.randint(1, 9)))
        fs[i] = bytes(f)
        return fs, "flip data bytes"
    return fs, "unchanged"


# ------------------------------------------------------------------ unit streams
def unit_driver(rev=32):
    from pycomm3 import LogixDriver
    d = LogixDriver("10.0.0.1", init_tags=False, init_program_tags=False)
    d._info = {"revision": {"major": rev, "minor": 1}, "programs": {}, "tasks": {}, "modules": {}}
    d._cache = {"tag_name:id": {}, "id:struct": {}, "handle:id": {}, "id:udt": {}}
    return d


_IDENT = "ABCXYZabcz_019"


def gen_name(rng):
    def ident(n=None):
        return "".join(rng.choice(_IDENT) for _ in range(n or rng.randint(1, 8)))
    r = rng.random()
    if r < 0.12:
        return ident()
    if r < 0.22:
        return rng.choice(["Program:", "Routine:", "Task:"]) + ident()
    if r < 0.30:
        return rng.choice(["Map:", "Cxn:", "xMap:", "aCxn:"]) + ident()
    if r < 0.42:
        return ident() + ":" + str(rng.randint(0, 17)) + ":" + rng.choice(["I", "O", "C", "S", "I1", "Ox"])
    if r < 0.50:
        return ident() + ":" + rng.choice(["I", "O", "C", "S"])
    if r < 0.58:
        return "__" + ident()
    if r < 0.66:
        return "_" + ident()
    if r < 0.74:      # near misses of the prefixes
        return rng.choice(["Program", "program:", "Routine", "Task", "Tasks:", "PROGRAM:", "Map", "Cxn", "Prog:"]) + ident(3)
    if r < 0.84:      # other names with ':'
        return ident(3) + ":" + rng.choice(["", "x", "A", "i", "o", "9", ":"]) + ident(2)
    if r < 0.90:      # repeated prefixes
        p = rng.choice(["Program:", "Routine:", "Task:"])
        return p + ident(2) + p + ident(2)
    alphabet = ":_IOCSMapCxnProgramRoutineTask. 0a"
    return "".join(rng.choice(alphabet) for _ in range(rng.randint(0, 14)))


def unit_classify(R, mp, rng, n):
    d = unit_driver()
    lines, cases = [], []
    for _ in range(n):
        name = gen_name(rng)
        stype = rng.choice([0xC4, 0x10C4, 0xC1, 0x2C4, 0x1000 | rng.randrange(1 << 16), rng.randrange(1 << 16)]) & 0x7FFF
        program = rng.choice([None, None, "P1"])
        cases.append((name, stype, program))
        lines.append(f"classify {fw.t_bytes(name.encode('latin-1'))} {stype}")
    outs = mp.batch(lines)
    for (name, stype, program), out in zip(cases, outs):
        a = fw.parse_line(out)
        d._info = {"revision": {"major": 32, "minor": 1}, "programs": {"P1": {"instance_id": 1, "routines": []}}, "tasks": {}, "modules": {}}
        raw = {"instance_id": 7, "tag_name": name, "symbol_type": stype, "symbol_address": 0, "symbol_object_address": 0,
               "software_control": 0, "external_access": "Read/Write", "dimensions": [0, 0, 0]}
        try:
            kept = d._isolate_user_tags([raw], program)
        except Exception as e:         # noqa: BLE001
            R.disagree("_isolate_user_tags raised", {"name": name, "stype": stype}, a, repr(e))
            continue
        progs = [k for k in d._info["programs"] if k != "P1"] or (["P1"] if d._info["programs"]["P1"]["instance_id"] == 7 else [])
        if progs:
            impl = [0, progs[0]]
        elif d._info["programs"]["P1"]["routines"]:
            impl = [1, d._info["programs"]["P1"]["routines"][0]]
        elif d._info["tasks"]:
            impl = [2, list(d._info["tasks"])[0]]
        elif kept:
            impl = [4, "-"]
        else:
            impl = [3, "-"]
        model = [a[0], _text(a[1])]
        if model[0] == 1 and program is None:
            model = [3, "-"]               # a routine symbol outside a program scope is only logged
        R.corr_checked += 1
        R.case(("classify", name, stype & 0x1000, program))
        R.count("classify", ["program", "routine", "task", "skip", "keep"][impl[0]])
        if model != impl:
            R.disagree("_isolate_user_tags class of a symbol", {"name": name, "stype": stype, "program": program}, model, impl)


def unit_createtag(R, mp, rng, n):
    lines, cases = [], []
    for _ in range(n):
        rev = rng.choice(REVS)
        code = rng.choice([0xC1, 0xC2, 0xC3, 0xC4, 0xC5, 0xC6, 0xC7, 0xC8, 0xC9, 0xCA, 0xCB, 0xD0, 0xD1, 0xD2, 0xD3, 0xD4,
                           0xDA, 0xDC, 0x00, rng.randrange(256)])
        stype = code | (rng.randrange(8) << 8) | (rng.randrange(4) << 13) | (rng.choice([0, 0, 0x800]))
        dims = [rng.choice([0, 1, 2, 3, 7, 100, 65536, rng.randrange(1 << 32)]) for _ in range(3)]
        swc = rng.choice([0, 1 << 26, rng.randrange(1 << 32), (1 << 32) - 1, (1 << 26) - 1])
        access = rng.choice([-1, 0, 1, 2, 3, 4, 255])
        name = rng.choice(["Tag", "Program:P.x", "a_b9"])
        inst, addr, oaddr = rng.randrange(1 << 32), rng.randrange(1 << 32), rng.randrange(1 << 32)
        cases.append((rev, name, inst, stype, addr, oaddr, swc, access, dims))
        lines.append(f"createtag {rev} {fw.t_bytes(name.encode())} {inst} {stype} {addr} {oaddr} {swc} {access} {dims[0]} {dims[1]} {dims[2]}")
    outs = mp.batch(lines)
    from pycomm3.cip.status_info import EXTERNAL_ACCESS
    d = unit_driver()
    for (rev, name, inst, stype, addr, oaddr, swc, access, dims), out in zip(cases, outs):
        raw = {"instance_id": inst, "tag_name": name, "symbol_type": stype, "symbol_address": addr, "symbol_object_address": oaddr,
               "software_control": swc, "external_access": EXTERNAL_ACCESS.get(None if access < 0 else access, "Unknown"),
               "dimensions": list(dims)}
        try:
            impl = canon(d._create_tag(name, raw))
        except Exception as e:         # noqa: BLE001
            impl = ("raised", repr(e))
        model = parse_py(fw.parse_line(out))[0] if not out.startswith(("fail", "struct", "ERR")) else out
        R.corr_checked += 1
        R.case(("createtag", stype, tuple(dims), swc & (1 << 26), access))
        R.count("createtag dims", (stype >> 13) & 3)
        if model != impl:
            R.disagree("_create_tag (atomic symbol)", {"stype": stype, "dims": dims, "swc": swc, "access": access},
                       first_diff(model, impl) if isinstance(model, tuple) and isinstance(impl, tuple) else str(model)[:200], str(impl)[:200])


class FakeResponse:
    def __init__(self, status, data):
        self.service_status, self.data = status, data


def gen_entry(rng, rev, inst=None, name=None):
    name = name if name is not None else gen_name(rng)[:40]
    nb = name.encode("latin-1")
    b = struct.pack("<I", inst if inst is not None else rng.randrange(1 << 32)) + struct.pack("<H", len(nb)) + nb
    b += struct.pack("<H", rng.randrange(1 << 16)) + struct.pack("<III", *(rng.randrange(1 << 32) for _ in range(3)))
    b += struct.pack("<III", *(rng.choice([0, 1, 5, rng.randrange(1 << 32)]) for _ in range(3)))
    if rev >= 18:
        b += bytes([rng.choice([0, 1, 2, 3, 4, 255])])
    return b


def unit_parsepage(R, mp, rng, n):
    lines, cases = [], []
    for _ in range(n):
        rev = rng.choice(REVS)
        status = rng.choice([0, 6, 6, 5, 0x1E])
        data = b"".join(gen_entry(rng, rev) for _ in range(rng.choice([0, 1, 1, 2, 3, 8])))
        r = rng.random()
        kind = "whole"
        if r < 0.25 and data:
            data = data[:rng.randrange(len(data))]
            kind = "cut"
        elif r < 0.35:
            data += bytes(rng.randrange(256) for _ in range(rng.randint(1, 5)))
            kind = "trailing bytes"
        elif r < 0.42 and data:
            p = rng.randrange(len(data))
            data = data[:p] + bytes([rng.randrange(256)]) + data[p + 1:]
            kind = "one byte changed"
        cases.append((rev, status, data, kind))
        lines.append(f"parsepage {rev} {status} {fw.t_bytes(data)}")
    outs = mp.batch(lines)
    for (rev, status, data, kind), out in zip(cases, outs):
        d = unit_driver(rev)
        tl = []
        try:
            nxt = d._parse_instance_attribute_list(FakeResponse(status, data), tl)
            impl = [nxt] + [[t["instance_id"], t["tag_name"], t["symbol_type"], t["symbol_address"], t["symbol_object_address"],
                             t["software_control"], t["external_access"]] + t["dimensions"] for t in tl]
        except Exception:              # noqa: BLE001
            impl = "fail"
        gs = groups(fw.parse_line(out))
        if str(gs[0][0]) == "fail":
            model = "fail"
        else:
            model = [gs[0][1]] + [[g[0], _text(g[1]), g[2], g[3], g[4], g[5], _text(g[6])] + list(g[7:]) for g in gs[1:]]
        R.corr_checked += 1
        R.case(("parsepage", rev >= 18, status, data))
        R.count("parsepage", kind + (" -> fail" if impl == "fail" else ""))
        if model != impl:
            R.disagree("_parse_instance_attribute_list", {"rev": rev, "status": status, "data": data, "kind": kind}, str(model)[:300], str(impl)[:300])


def unit_memberinfo(R, mp, rng, n):
    lines, cases = [], []
    for _ in range(n):
        code = rng.choice([0xC1, 0xC2, 0xC3, 0xC4, 0xC5, 0xC6, 0xC7, 0xC8, 0xC9, 0xCA, 0xCB, 0xD0, 0xD3, 0xDA, 0xDC, 0, rng.randrange(256)])
        typ = code | rng.choice([0, 0, 0x2000, 0x4000, 0x100, 0x800, 0x1000, 0x8000, rng.randrange(1 << 16) & 0xFF00])
        info = rng.choice([0, 1, 7, 31, 255, rng.randrange(1 << 16)])
        chunk = struct.pack("<HHI", info, typ, rng.randrange(1 << 32))
        if rng.random() < 0.1:
            chunk = chunk[:rng.randrange(8)]
        cases.append(chunk)
        lines.append(f"memberinfo {fw.t_bytes(chunk)}")
    outs = mp.batch(lines)
    d = unit_driver()
    for chunk, out in zip(cases, outs):
        try:
            impl = canon(d._parse_template_data_member_info(chunk))
            if impl[1][1][1] == ("S", "struct"):
                impl = "struct"
        except Exception as e:         # noqa: BLE001
            impl = "fail" if len(chunk) < 8 else "struct"          # a structure member needs the peer: ResponseError
        model = out if out in ("fail", "struct") else parse_py(fw.parse_line(out))[0]
        R.corr_checked += 1
        R.case(("memberinfo", chunk))
        R.count("memberinfo", "short" if len(chunk) < 8 else "struct" if impl == "struct" else "elementary")
        if model != impl:
            R.disagree("_parse_template_data_member_info", {"chunk": chunk}, str(model)[:300], str(impl)[:300])


_MEMBER_NAMES = ["LEN", "DATA", "CTL", "Control", "ZZZZZZZZZZhost0", "ZZZZZZZZZ9", "__x", "_x", "", "", "Val", "a;b", "EN", "DN", "Pt00"]


def gen_tmpldata(rng):
    count = rng.choice([0, 1, 2, 2, 3, 5, 9])
    recs, names = b"", []
    r = rng.random()
    stringish = r < 0.25
    for k in range(count):
        if stringish and k < 2:
            code, info = ((0xC4, 0) if k == 0 else (rng.choice([0xC2, 0xC2, 0xC6, 0x20C2]), rng.choice([0, 1, 82, 500])))
            if rng.random() < 0.15:
                code = rng.choice([0xC3, 0xC8])
            names.append(["LEN", "DATA"][k] if rng.random() < 0.9 else rng.choice(_MEMBER_NAMES))
        else:
            code = rng.choice([0xC1, 0xC1, 0xC2, 0xC3, 0xC4, 0xC8, 0xCA, 0xD3, 0x20C4, 0x20D3, 0xDA])
            info = rng.choice([0, 0, 1, 3, 7, 40])
            names.append(rng.choice(_MEMBER_NAMES + ["m%d" % k, "b%d" % k]))
        recs += struct.pack("<HHI", info, code, rng.choice([0, 1, 3, 4, 8, 100, rng.randrange(1 << 32)]))
    tid = rng.choice([0x100, 0x234, 0xEFF, 0xFF, 0xF00, 0xFCE, 1, 0x0D3])
    tname = rng.choice(["MyType", "ASCIISTRING82", "STRING20", "TIMER", "AB:Mod_I:I:0", "T"])
    r = rng.random()
    if r < 0.6:
        head = tname + ";n" + "%X" % rng.randrange(1 << 20)
    elif r < 0.9:
        head = tname
    else:
        head = ""
    blob = recs + b"\x00".join(x.encode() for x in [head] + names) + b"\x00"
    r = rng.random()
    if r < 0.5:
        blob += bytes(rng.randint(0, 7))
    elif r < 0.6:
        blob = blob[:rng.randrange(len(blob) + 1)]
    size = rng.choice([4, 8, 88, 260, 12, rng.randrange(1, 4000)])
    stype = rng.choice([0x8000, 0xA000, 0]) | tid
    return stype, rng.randrange(1, 500), size, count, rng.randrange(1 << 16), blob


def unit_tmpldata(R, mp, rng, n):
    lines, cases = [], []
    for _ in range(n):
        c = gen_tmpldata(rng)
        cases.append(c)
        lines.append("tmpldata %d %d %d %d %d %s" % (c[0], c[1], c[2], c[3], c[4], fw.t_bytes(c[5])))
    outs = mp.batch(lines)
    d = unit_driver()
    for (stype, defsize, size, count, handle, blob), out in zip(cases, outs):
        tmpl = {"object_definition_size": defsize, "structure_size": size, "member_count": count, "structure_handle": handle}
        try:
            dt = d._parse_template_data(blob, tmpl, stype)
            impl = canon(dt)
            what = "string" if "string" in dt else "struct"
        except Exception:              # noqa: BLE001
            impl, what = "fail", "fail"
        model = out if out == "fail" else parse_py(fw.parse_line(out))[0]
        R.corr_checked += 1
        R.case(("tmpldata", stype, size, count, blob))
        R.count("tmpldata", what)
        if model != impl:
            R.disagree("_parse_template_data", {"stype": stype, "size": size, "count": count, "data": blob},
                       first_diff(model, impl) if isinstance(model, tuple) and isinstance(impl, tuple) else str(model)[:200], str(impl)[:200])


def gen_pydict(rng, depth=0):
    """dictionaries shaped like tags / data types, with type classes sprinkled at unusual places too"""
    from pycomm3.cip import DINT, SINT
    d = {}
    keys = ["tag_name", "dim", "type_class", "_struct_members", "data_type", "internal_tags", "template", "attributes", "x"]
    for k in rng.sample(keys, rng.randint(1, len(keys))):
        if k == "type_class":
            d[k] = rng.choice([DINT, SINT, None])
        elif k == "_struct_members":
            d[k] = ([(DINT("a"), 0)], {"b": (1, 2)})
        elif k == "data_type":
            d[k] = gen_pydict(rng, depth + 1) if depth < 3 and rng.random() < 0.6 else rng.choice(["DINT", None])
        elif k == "internal_tags":
            d[k] = {("m%d" % i): gen_pydict(rng, depth + 1) for i in range(rng.randint(0, 3))} if depth < 3 else {}
        elif k == "template":
            d[k] = {"structure_size": rng.randrange(100)}
        elif k == "attributes":
            d[k] = ["a", "b"][:rng.randint(0, 2)]
        elif k == "x" and rng.random() < 0.15:
            d[k] = DINT                   # a type class under another key: tags_json keeps it
        else:
            d[k] = rng.choice([0, 1, "s", True, None, [1, 2]])
    return d


def unit_copyjson(R, mp, rng, n):
    from pycomm3 import LogixDriver
    lines, cases = [], []
    for _ in range(n):
        src = gen_pydict(rng)
        cases.append(src)
        lines.append("copyjson " + " ".join(py_tokens(canon(src))))
    outs = mp.batch(lines)
    d = unit_driver()
    for src, out in zip(cases, outs):
        d._tags = {"t": src}
        j = d.tags_json["t"]
        try:
            json.dumps(j)
            ser = True
        except TypeError:
            ser = False
        toks = fw.parse_line(out)
        model, i = parse_py(toks)
        R.corr_checked += 1
        R.case(("copyjson", repr(canon(src))))
        R.count("copyjson", "serialisable" if ser else "not serialisable")
        if model != canon(j) or bool(toks[i]) != ser:
            R.disagree("tags_json._copy_datatype", {"src": repr(src)[:300]}, [first_diff(model, canon(j)), bool(toks[i])], ["", ser])


# ------------------------------------------------------------------ corpus
def corpus_cases():
    out = []
    for f in sorted(glob.glob(os.path.join(fw.VERIF, "corpus", "C05", "*.json"))):
        try:
            out.append((os.path.basename(f), json.load(open(f))))
        except Exception:             # noqa: BLE001
            pass
    return out


# ------------------------------------------------------------------ calibration (thorough)
def calibration(R):
    import importlib
    sm = importlib.import_module("target_logix_smoke")
    obs = sm.Obs()
    ok = True
    for f in ("all_tags.json", "controller_tags.json"):
        p = os.path.join(fw.REPO, "tests", "offline", f)
        ok = sm.calibrate(obs, p) and ok
    R.notes.append("calibration of the target against the real-controller fixtures: " + ("OK" if ok else "FAILED: " + json.dumps(dict(obs.c))[:600]))
    signal.signal(signal.SIGALRM, _alarm)


# ------------------------------------------------------------------ entry points
def run(R, escalate=False):
    R.rule = ("real LogixDriver.get_tag_list/open against the live reference target on random projects x page policies "
              "(1, 2, 7, as many as fit, random) x template-fragment policies x firmware majors x scopes: "
              "refview.diff_upload(abstract_view, driver) == [], filtered classes absent, module I/O kept, json.dumps(tags_json), "
              "identical results across policies; the model fed the exact reply frames must emit the same requests and "
              "produce the same dictionaries; mutated frame scripts and unit streams for every modelled function")
    thorough = R.tier == "thorough" or escalate
    rng = R.rng
    mp = fw.ModelProc("C05")
    tp = T.TargetProc("target")
    tpv = T.TargetProc("target")
    recorded = []
    try:
        # corpus first
        for name, c in corpus_cases():
            if c.get("kind") == "scenario":
                sc = scenario_from_json(c)
                run_project(R, tp, tpv, mp, sc, "corpus:" + name, 4, random.Random(1), hist="corpus uploads")
            elif c.get("kind") == "reupload":
                run_reupload(R, tp, tpv, mp, random.Random(c["seed"]), "corpus:" + name)
            elif c.get("kind") == "frames":
                run_replay(R, mp, c["rev"], c["arg"], [bytes.fromhex(x) for x in c["frames"]], {"corpus": name}, "corpus replay")
        n_projects = 380 if thorough else 28
        n_variants = 6 if thorough else 5
        for k in range(n_projects):
            seed = rng.randrange(1 << 30)
            prng = random.Random(seed)
            # the fine-grained policies make thousands of requests per upload: mostly small projects in the quick tier
            small = (not thorough and k % 4 != 0) or (thorough and k % 3 == 0)
            sc = S.gen_scenario(prng, n_tags=prng.randint(3, 12)) if small else S.gen_scenario(prng)
            if prng.random() < 0.35:
                decorate(prng, sc)
            if prng.random() < 0.4:
                collide_handles(prng, sc)
                R.count("project_features", "structure handles shared by different templates")
            run_project(R, tp, tpv, mp, sc, f"seed {seed}", n_variants, prng, detail_every=5)
            if k % 2 == 0 and len(recorded) < 40:        # frame scripts of small projects for the malformed stream
                v = S.gen_scenario(prng, n_tags=prng.randint(2, 6))
                v.policy["page"] = prng.choice([[3], [], [8]])
                v.policy["tmpl"] = prng.choice([[40], [], [120]])
                rev = prng.choice(REVS)
                v.cfg["rev_major"] = rev
                up = Upload(tp, v, "star", False, rev)
                if up.error is None:
                    recorded.append((rev, up.frames, seed))
                up.close()
        # several uploads on one driver, the controller's project changing in between
        for k in range(400 if thorough else 14):
            seed = rng.randrange(1 << 30)
            run_reupload(R, tp, tpv, mp, random.Random(seed), f"reupload seed {seed}")
        # malformed stream
        n_mut = 6000 if thorough else 220
        for k in range(n_mut):
            rev, frames, seed = recorded[k % len(recorded)]
            fs, what = mutate_frames(rng, frames)
            R.count("malformed stream mutation", what)
            R.case(("replay", seed, what, k), nontrivial=True)
            run_replay(R, mp, rev, rng.choice(["star", "star", "none"]), fs, {"seed": seed, "mutation": what, "rev": rev,
                                                                            "frames": [f.hex() for f in fs]}, "replay")
        # unit streams
        m = 10 if thorough else 1
        unit_classify(R, mp, rng, 1500 * m)
        unit_createtag(R, mp, rng, 600 * m)
        unit_parsepage(R, mp, rng, 500 * m)
        unit_memberinfo(R, mp, rng, 500 * m)
        unit_tmpldata(R, mp, rng, 800 * m)
        unit_copyjson(R, mp, rng, 300 * m)
        if thorough:
            calibration(R)
    finally:
        for p in (mp, tp, tpv):
            try:
                p.close()
            except Exception:         # noqa: BLE001
                pass


def decorate(rng, sc):
    """boundary material the plain generator does not produce: a nested structure whose template id
    equals an elementary type code, BOOL tags with bit positions, 3-dimensional structure arrays,
    empty program scopes, long names"""
    # names that resemble the filtered classes but are ordinary user tags (and must be uploaded)
    inst = max([g["inst"] for g in sc.tags] + [0])
    have = {g["name"].lower() for g in sc.tags}
    progs = sorted({g["prog"] for g in sc.tags if g["prog"] is not None})
    for nm in rng.sample(["_single", "_", "Programs", "Program", "Tasks", "Task_1", "Routine", "Mapx", "Map", "CxnCount", "a__b", "x_",
                          "IO", "Cx", "TaskMap", "ProgramCxn"], rng.randint(2, 6)):
        if nm.lower() in have:
            continue
        inst += rng.randint(1, 3)
        g = {"name": nm, "inst": inst, "prog": rng.choice([None] + progs), "kind": "a", "code": rng.choice([0xC4, 0xC2, 0xCA]),
             "dims": rng.choice([[], [3]]), "bitpos": 0, "system": False, "access": rng.choice([0, 2]), "attr3": 3, "attr5": 4,
             "attr6": 1 << 26}
        sc.tags.append(g)
        sc.mem[inst] = bytes(sc.tag_size(g))
    # module I/O tags of every kind (Name:slot:Kind and Name:Kind with Kind I / O / C / S)
    mods = [t for t in sc.templates if t["tail"] is None and ":" in t["name"]]
    if mods:
        for nm in rng.sample(["Local:%d:C" % rng.randint(0, 16), "Local:%d:O" % rng.randint(0, 16), "Drive:S", "Rack7:C", "Enet:I",
                              "Slot:%d:S" % rng.randint(0, 9)], rng.randint(1, 4)):
            if nm.lower() in have:
                continue
            have.add(nm.lower())
            inst += rng.randint(1, 3)
            g = {"name": nm, "inst": inst, "prog": None, "kind": "s", "code": mods[0]["id"], "dims": [], "bitpos": 0, "system": False,
                 "access": 0, "attr3": 5, "attr5": 6, "attr6": 1 << 26}
            sc.tags.append(g)
            sc.mem[inst] = bytes(sc.tag_size(g))
    used = {t["id"] for t in sc.templates}
    for tid in (0x0D3, 0x0C4, 0x0C1):
        if tid not in used and rng.random() < 0.5:
            t = S.gen_udt(rng, sc, S.Namer(rng), tid, rng.randrange(1, 65536), 1)
            t["tail"] = None
            t["name"] = "Pre%X" % tid
            if any(x["handle"] == t["handle"] for x in sc.templates):
                continue
            sc.templates.append(t)
            host = S.gen_udt(rng, sc, S.Namer(rng), next(i for i in range(0x300, 0xE00) if i not in used), rng.randrange(1, 65536), 3)
            off = (host["size"] + 7) // 8 * 8
            host["members"].append({"name": "Nested%X" % tid, "kind": "s", "code": tid, "arr": rng.choice([0, 2]), "off": off, "bit": 0, "hidden": False})
            host["size"] = off + t["size"] * 2 + (8 - (t["size"] * 2) % 8) % 8
            host["name"] = "Host%X" % tid
            sc.templates.append(host)
            used |= {tid, host["id"]}
            inst = max(g["inst"] for g in sc.tags) + 1
            g = {"name": "TagHost%X" % tid, "inst": inst, "prog": None, "kind": "s", "code": host["id"], "dims": rng.choice([[], [2], [2, 1, 3]]),
                 "bitpos": 0, "system": False, "access": 0, "attr3": 1, "attr5": 2, "attr6": 1 << 26}
            sc.tags.append(g)
            sc.mem[inst] = bytes(sc.tag_size(g))


def collide_handles(rng, sc):
    """the structure handle is a 16-bit checksum of the definition: different templates may report the same one
    (the property quantifies over all projects; a client must key definitions by template instance, not by handle)"""
    ts = [t for t in sc.templates]
    if len(ts) < 2:
        return
    for _ in range(rng.randint(1, 3)):
        a, b = rng.sample(ts, 2)
        b["handle"] = a["handle"]


def replay(R, rp):
    """re-run a failing case recorded in evidence/replays (or a known_findings replay)"""
    f = rp.get("failure", rp)
    case = f.get("case", f)
    mp = fw.ModelProc("C05")
    tp = T.TargetProc("target")
    tpv = T.TargetProc("target")
    try:
        if case.get("kind") == "reupload" or "flow" in case:
            seed = case.get("seed")
            if seed is None:
                seed = int(str(case.get("label", "0")).split()[-1])
            run_reupload(R, tp, tpv, mp, random.Random(seed), f"reupload seed {seed}")
        elif "project" in case:
            sc = scenario_from_json(dict(case["project"], policy=case.get("policy", {})))
            sc.cfg["rev_major"] = case.get("rev", 32)
            sc.cfg["accept_large_fo"] = case.get("large", 1)
            rev = case.get("rev", 32)
            load(tpv, sc if case.get("arg", "star") == "star" else controller_only(sc))
            view = RV.view(tpv)
            up = Upload(tp, sc, case.get("arg", "star"), case.get("via_open", False), rev)
            R.case(case)
            if up.error is not None:
                R.fail("the upload raised", case, up.error, "a result", "replay")
            else:
                oracle(R, sc, case, up, view, "replay")
                m = model_script(mp, rev, case.get("arg", "star"), up.frames)
                R.corr_checked += 1
                js = up.drv.tags_json
                compare_with_model(R, "upload", case, m, "done", up.requests, up.trees())
            up.close()
        elif "frames" in case:
            run_replay(R, mp, case.get("rev", 32), case.get("arg", "star"), [bytes.fromhex(x) for x in case["frames"]], case, "replay")
    finally:
        for p in (mp, tp, tpv):
            p.close()
