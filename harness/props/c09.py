"""C09 — emitted CIP paths denote the addressed object.

Correspondence: Model/Path.v (extracted) vs the real encoders (LogicalSegment / PortSegment /
DataSegment .encode, EPATH.encode, request_path, tag_request_path, _find_tag_index, int(),
ipaddress.ip_address) on the same generated inputs, results AND exception classes.

Oracle on the IMPLEMENTATION (no model involved): the bytes the real code emits are given to the
extracted strict parser of Spec/EPathParser.v (`parse`), and the answer must be exactly the intended
sequence of names and numbers, which this file computes from the input it generated (segment
descriptions, the tag AST, the hop list) with its own few lines of Python; plus even length, word
count prefix and pad byte checked here directly.  Driver-level observation: the route_path /
request path bytes CIPDriver.generic_message, _forward_open, _forward_close and get_module_info hand
to their request packets (send() replaced by a recorder)."""
import ipaddress
import json
import os

import framework as fw

ASSUMPTIONS = [
    "ASCII text: str.isnumeric/int()/str.encode are modelled for ASCII (UTF-8 for names); non-ASCII digits and spaces are outside the generators",
    "link address strings are decimal slots or IPv4 dotted quads; IPv6 text (accepted by ipaddress.ip_address) is outside the model and the generators",
    "32-bit logical format is read for logical types class/instance/member/connection point/attribute (the CIP restriction of the 32-bit format to instance and connection point is not enforced by the parser, Logix uses 32-bit member ids)",
    "attribute=0 / b'' of request_path means 'no attribute' (the documented default)",
    "the reference target's log of received request paths (DESIGN C09 tie) is not part of this vertical yet: driver-level observation is limited to the path bytes CIPDriver hands to its request packets",
]

EXC = {"DataError": 1, "BufferEmptyError": 2, "CommError": 3, "RequestError": 4, "ResponseError": 5,
       "TypeError": 10, "ValueError": 11, "KeyError": 12, "IndexError": 13, "error": 14, "OverflowError": 15,
       "AttributeError": 16, "StopIteration": 17, "UnicodeEncodeError": 18, "UnicodeError": 18,
       "ZeroDivisionError": 19, "NotImplementedError": 20, "AddressValueError": 11}

# ---- the documented vocabulary (independent of the code's tables)
LTYPES = {"class_id": 0, "instance_id": 1, "member_id": 2, "connection_point": 3, "attribute_id": 4}
PORT_NAMES = {"backplane": 1, "bp": 1, "enet": 2, "dhrio-a": 2, "dhrio-b": 3, "dnet": 2, "cnet": 2,
              "dh485-a": 2, "dh485-b": 3}
SYMBOL_CLASS = 0x6B
KNOWN_32 = "logical-32bit-format-bits"
KNOWN_P15 = "port-above-14-no-extended-port"


# ------------------------------------------------------------------ JSON <-> values
def jv(v):
    return {"b": v.hex()} if isinstance(v, (bytes, bytearray)) else v


def vj(v):
    return bytes.fromhex(v["b"]) if isinstance(v, dict) else v


def seg_j(s):
    return [jv(x) for x in s]


def seg_v(s):
    return tuple(vj(x) for x in s)


def zexp(z):
    """[pre, n, post] -> pre + "0"*n + post : long decimal strings are kept short in cases and on the
    co-process line (Base/Proto's line parser is quadratic in the token length)"""
    return z[0] + "0" * z[1] + z[2]


def idx_str(d):
    return zexp(d) if isinstance(d, list) else d


def case_text(c, field):
    return zexp(c["z"]) if c.get("z") is not None else c[field]


# ------------------------------------------------------------------ implementation side
def mk_obj(seg):
    from pycomm3.cip.data_types import LogicalSegment, PortSegment, DataSegment
    k = seg[0]
    if k == "L":
        return LogicalSegment(seg[2], seg[1])
    if k == "P":
        return PortSegment(seg[1], seg[2])
    if k in ("S", "D"):
        return DataSegment(seg[1])
    if k == "R":
        return seg[1]
    raise ValueError(k)


def guarded(fn):
    try:
        r = fn()
    except Exception as e:  # the class is part of the correspondence
        return ("err", EXC.get(type(e).__name__, "foreign:" + type(e).__name__))
    if r is None:
        return ("none",)
    return ("ok", r)


def impl_case(c):
    from pycomm3.cip.data_types import PADDED_EPATH, PACKED_EPATH
    from pycomm3.packets import util
    k = c["k"]
    if k == "seg":
        seg = seg_v(c["seg"])
        return guarded(lambda: (lambda o: type(o).encode(o, padded=c["padded"]))(mk_obj(seg)))
    if k == "segz":
        seg = ("P", c["port"], zexp(c["z"]))
        return guarded(lambda: (lambda o: type(o).encode(o, padded=True))(mk_obj(seg)))
    if k == "epath":
        cls = PADDED_EPATH if c["padded"] else PACKED_EPATH
        segs = [seg_v(s) for s in c["segs"]]
        return guarded(lambda: cls.encode([mk_obj(s) for s in segs], length=c["length"], pad_length=c["pad_length"]))
    if k == "reqpath":
        if c["attr"] is None:
            return guarded(lambda: util.request_path(vj(c["cls"]), vj(c["inst"])))
        return guarded(lambda: util.request_path(vj(c["cls"]), vj(c["inst"]), vj(c["attr"])))
    if k == "tag":
        info = {"tag_name": "x", "dim": 0}
        if c["inst"] != "absent":
            info["instance_id"] = c["inst"]
        return guarded(lambda: util.tag_request_path(case_text(c, "tag"), info, c["use"]))
    if k == "findidx":
        return guarded(lambda: util._find_tag_index(c["tag"]))
    if k == "pyint":
        return guarded(lambda: int(case_text(c, "s")))
    if k == "ipok":
        def f():
            try:
                return isinstance(ipaddress.ip_address(c["s"]), ipaddress.IPv4Address)
            except ValueError:
                return False
        return guarded(f)
    raise ValueError(k)


# ------------------------------------------------------------------ model side (token lines)
def link_toks(l):
    if isinstance(l, bool):
        raise ValueError("bool")
    if isinstance(l, int):
        return ["i", fw.t_int(l)]
    if isinstance(l, str):
        return ["s", fw.t_text(l)]
    return ["b", fw.t_bytes(l)]


def seg_toks(seg):
    k = seg[0]
    if k == "L":
        v = seg[2]
        return ["L", fw.t_text(seg[1])] + (["i", fw.t_int(v)] if isinstance(v, int) else ["b", fw.t_bytes(v)])
    if k == "P":
        p = seg[1]
        return ["P"] + (["n", fw.t_int(p)] if isinstance(p, int) else ["s", fw.t_text(p)]) + link_toks(seg[2])
    if k == "S":
        return ["S", fw.t_text(seg[1])]
    if k == "D":
        return ["D", fw.t_bytes(seg[1])]
    if k == "R":
        return ["R", fw.t_bytes(seg[1])]
    raise ValueError(k)


def lval_toks(v):
    return ["i", fw.t_int(v)] if isinstance(v, int) else ["b", fw.t_bytes(v)]


def model_line(c):
    k = c["k"]
    b = lambda x: "1" if x else "0"
    if k == "seg":
        return " ".join(["eseg", b(c["padded"])] + seg_toks(seg_v(c["seg"])))
    if k == "epath":
        t = ["epath", b(c["padded"]), b(c["length"]), b(c["pad_length"])]
        for s in c["segs"]:
            t += seg_toks(seg_v(s))
        return " ".join(t)
    if k == "reqpath":
        t = ["reqpath"] + lval_toks(vj(c["cls"])) + lval_toks(vj(c["inst"]))
        t += ["none"] if c["attr"] is None else lval_toks(vj(c["attr"]))
        return " ".join(t)
    if k == "segz":
        p, z = c["port"], c["z"]
        return " ".join(["esegz", fw.t_int(z[1])] + (["n", fw.t_int(p)] if isinstance(p, int) else ["s", fw.t_text(p)]) + [fw.t_text(z[0]), fw.t_text(z[2])])
    if k == "tag":
        inst = c["inst"]
        it = "none" if inst in ("absent", None) else fw.t_int(inst)
        if c.get("z") is not None:
            z = c["z"]
            return " ".join(["tagpathz", fw.t_int(z[1]), fw.t_text(z[0]), fw.t_text(z[2]), it, b(c["use"])])
        return " ".join(["tagpath", fw.t_text(c["tag"]), it, b(c["use"])])
    if k == "findidx":
        return " ".join(["findidx", fw.t_text(c["tag"])])
    if k == "pyint":
        if c.get("z") is not None:
            z = c["z"]
            return " ".join(["pyintz", fw.t_int(z[1]), fw.t_text(z[0]), fw.t_text(z[2])])
        return " ".join(["pyint", fw.t_text(c["s"])])
    if k == "ipok":
        return " ".join(["ipok", fw.t_text(c["s"])])
    raise ValueError(k)


def canon_impl(c, r):
    """the implementation's result in the shape of the parsed model answer"""
    k = c["k"]
    if r[0] == "err":
        return [fw.Sym("err"), r[1]]
    if r[0] == "none":
        return [fw.Sym("none")]
    v = r[1]
    if k == "findidx":
        return [v[0], len(v[1])] + list(v[1])
    if k == "pyint":
        return [fw.Sym("ok"), v]
    if k == "ipok":
        return [1 if v else 0]
    return [fw.Sym("ok"), bytes(v)]


# ------------------------------------------------------------------ the intended reading
def digits_ok(s):
    return isinstance(s, str) and s != "" and all("0" <= ch <= "9" for ch in s)


def dotted_quad(s):
    parts = s.split(".")
    return len(parts) == 4 and all(digits_ok(p) and len(p) <= 3 and (p == "0" or p[0] != "0") and int(p) <= 255 for p in parts)


def read_seg(seg):
    """what the caller asks for: ("L", type number, value) | ("P", port, link bytes) | ("S", name bytes); None = no reading"""
    k = seg[0]
    if k == "L":
        lt = LTYPES.get(seg[1])
        v = seg[2]
        if lt is None or isinstance(v, bool):
            return None
        if isinstance(v, int):
            return ("L", lt, v) if 0 <= v < 2 ** 32 else None
        if isinstance(v, bytes) and len(v) in (1, 2, 4):
            return ("L", lt, int.from_bytes(v, "little"))
        return None
    if k == "P":
        p, l = seg[1], seg[2]
        if isinstance(p, bool) or isinstance(l, bool):
            return None
        if isinstance(p, int):
            pn = p if 1 <= p <= 65535 else None
        else:
            pn = PORT_NAMES.get(p)
        if pn is None:
            return None
        if isinstance(l, int):
            lk = bytes([l]) if 0 <= l <= 255 else None
        elif isinstance(l, str):
            if digits_ok(l):
                lk = bytes([int(l)]) if len(l) <= 4300 and int(l) <= 255 else None
            elif dotted_quad(l):
                lk = l.encode("ascii")
            else:
                lk = None
        else:
            lk = bytes(l) if 1 <= len(l) <= 255 else None
        return None if lk is None else ("P", pn, lk)
    if k == "S":
        n = seg[1]
        if isinstance(n, str) and 1 <= len(n) <= 255 and all(ord(ch) < 128 for ch in n):
            return ("S", n.encode("ascii"))
        return None
    return None


def read_all(segs):
    out = []
    for s in segs:
        r = read_seg(s)
        if r is None:
            return None
        out.append(r)
    return out


def size_of(reading):
    """bytes a padded EPATH needs for this reading (CIP Vol 1 C-1.4)"""
    n = 0
    for r in reading:
        if r[0] == "L":
            n += 2 if r[2] < 256 else 4 if r[2] < 65536 else 6
        elif r[0] == "P":
            ext = 2 if r[1] > 14 else 0
            k = len(r[2])
            n += 2 + ext if k == 1 else 2 + ext + k + (k % 2)
        else:
            k = len(r[1])
            n += 2 + k + (k % 2)
    return n


NAME_BAD = set(".[:")


def tag_reading(ast, inst, use):
    """the documented meaning of a tag string given as its AST; None when outside the documented syntax"""
    prog, levels = ast["program"], ast["levels"]
    if not levels:
        return None

    def name_ok(n, lim=255):
        return 1 <= len(n) <= lim and all(ord(ch) < 128 and ch not in NAME_BAD for ch in n)

    if prog is not None and not name_ok(prog, 247):
        return None
    for n, idx in levels:
        if not name_ok(n):
            return None
        for d in map(idx_str, idx):
            if not digits_ok(d) or len(d) > 4300 or int(d) >= 2 ** 32:
                return None
    members = lambda idx: [("L", 2, int(idx_str(d))) for d in idx]
    lv = lambda l: [("S", l[0].encode("ascii"))] + members(l[1])
    if prog is not None:
        return [("S", ("Program:" + prog).encode("ascii"))] + [x for l in levels for x in lv(l)]
    if use and isinstance(inst, int) and not isinstance(inst, bool) and inst != 0:
        if not 0 <= inst < 2 ** 32:
            return None
        return [("L", 0, SYMBOL_CLASS), ("L", 1, inst)] + members(levels[0][1]) + [x for l in levels[1:] for x in lv(l)]
    return [x for l in levels for x in lv(l)]


def render_tag(ast):
    parts = []
    if ast["program"] is not None:
        parts.append("Program:" + ast["program"])
    for n, idx in ast["levels"]:
        parts.append(n + ("[" + ",".join(map(idx_str, idx)) + "]" if idx else ""))
    return ".".join(parts)


def reading_toks(reading):
    t = [fw.Sym("some"), len(reading)]
    for r in reading:
        if r[0] == "L":
            t += [fw.Sym("L"), r[1], r[2]]
        elif r[0] == "P":
            t += [fw.Sym("P"), r[1], r[2]]
        else:
            t += [fw.Sym("S"), r[1]]
    return t


def intended(c):
    """(reading, counted, pad_length) for the cases that have an intended reading, else None"""
    k = c["k"]
    if k == "seg":
        if not c["padded"]:
            return None
        r = read_seg(seg_v(c["seg"]))
        return None if r is None else ([r], False, False)
    if k == "segz":
        r = read_seg(("P", c["port"], zexp(c["z"])))
        return None if r is None else ([r], False, False)
    if k == "epath":
        if not c["padded"]:
            return None
        r = read_all([seg_v(s) for s in c["segs"]])
        return None if r is None else (r, c["length"], c["pad_length"] and c["length"])
    if k == "reqpath":
        segs = [("L", "class_id", vj(c["cls"])), ("L", "instance_id", vj(c["inst"]))]
        a = None if c["attr"] is None else vj(c["attr"])
        if a is not None and a != b"":
            if a == 0:
                return None     # attribute 0: reserved id, read as "no attribute" by the code; not judged
            segs.append(("L", "attribute_id", a))
        r = read_all(segs)
        return None if r is None else (r, True, False)
    if k == "tag":
        if c.get("ast") is None or render_tag(c["ast"]) != case_text(c, "tag"):
            return None
        r = tag_reading(c["ast"], None if c["inst"] == "absent" else c["inst"], c["use"])
        return None if r is None else (r, True, False)
    return None


def has32(reading):
    return any(r[0] == "L" and r[2] >= 65536 for r in reading)


def hasp15(c):
    segs = c.get("segs") or ([c["seg"]] if "seg" in c else [])
    return any(s[0] == "P" and isinstance(s[1], int) and 15 <= s[1] <= 65535 for s in segs)


def strip_count(out, counted, pad_length):
    """-> (body, problem)"""
    if not counted:
        return out, None
    if len(out) < 1:
        return None, "no word-count byte"
    w, body = out[0], out[1:]
    if pad_length:
        if len(body) < 1 or body[0] != 0:
            return None, "pad byte after the word count missing or not zero"
        body = body[1:]
    if len(body) % 2:
        return None, "odd path length"
    if len(body) != 2 * w:
        return None, f"word count {w} but {len(body)} path bytes"
    return body, None


# ------------------------------------------------------------------ judging one batch
class Judge:
    def __init__(self, R, mp):
        self.R, self.mp = R, mp
        self.known_seen = {}

    def fail(self, what, c, observed, expected, cls):
        R = self.R
        if cls in (KNOWN_32, KNOWN_P15):
            n = self.known_seen.get(cls, 0)
            self.known_seen[cls] = n + 1
            R.count("known_finding_hits", cls)
            if n >= 3:       # keep room in the failure list for anything new
                return
        R.fail(what, c, observed, expected, cls)

    def classify(self, c, reading, counted, pad_length, out, what):
        """known-finding classes are as narrow as the defects: the failure must be EXACTLY the
        known one (checked by reading 0b11 as the 32-bit format / by substituting the port)"""
        h32, hp = has32(reading), hasp15(c)
        if h32 and not hp and out is not None:
            body, prob = strip_count(out, counted, pad_length)
            if prob is None:
                got = self.mp.ask("parsex", fw.t_bytes(body))
                if got == reading_toks(reading):
                    return KNOWN_32
        if hp and not h32:
            c2 = json.loads(json.dumps(c))
            segs2 = c2.get("segs") or [c2["seg"]]
            for s in segs2:
                if s[0] == "P" and isinstance(s[1], int) and 15 <= s[1] <= 65535:
                    s[1] = 1
            r2 = impl_case(c2)
            i2 = intended(c2)
            if r2[0] == "ok" and i2 is not None:
                body, prob = strip_count(bytes(r2[1]), i2[1], i2[2])
                if prob is None and self.mp.ask("parse", fw.t_bytes(body)) == reading_toks(i2[0]):
                    return KNOWN_P15
        return f"{c['k']}:{what}"

    def run(self, cases, label):
        R, mp = self.R, self.mp
        lines, meta = [], []
        for c in cases:
            r = impl_case(c)
            lines.append(model_line(c))
            meta.append(("m", c, r, None))
            it = intended(c)
            nontrivial = r[0] == "ok"
            R.case([label, c], nontrivial=True)
            R.count("kind", c["k"])
            R.count("impl_outcome", r[0] if r[0] != "err" else f"err:{r[1]}")
            R.count("has_intended_reading", it is not None)
            if it is None:
                continue
            reading, counted, pad_length = it
            R.evaluations += 1
            size = size_of(reading)
            R.count("intended_size_words", min(size // 2 // 32 * 32, 256))
            fits = size // 2 <= 255 or not counted
            if r[0] == "err":
                if not fits:
                    R.count("oracle", "rejected: does not fit the word count")
                    continue
                what = "in-range path not emitted"
                self.fail(what, c, f"exception code {r[1]}", "a padded EPATH", self.classify(c, reading, counted, pad_length, None, what))
                continue
            if r[0] == "none":
                self.fail("tag_request_path returned None", c, None, "a padded EPATH", f"{c['k']}:none")
                continue
            out = bytes(r[1])
            if not fits:
                self.fail("a path longer than 255 words was emitted", c, out[:8], "DataError", f"{c['k']}:oversize-emitted")
                continue
            body, prob = strip_count(out, counted, pad_length)
            if prob is not None or len(body) % 2:
                what = prob or "odd path length"
                self.fail(what, c, out, "even length, correct word count, zero pad", self.classify(c, reading, counted, pad_length, out, "framing"))
                continue
            lines.append("parse " + fw.t_bytes(body))
            meta.append(("p", c, r, (reading, counted, pad_length, out)))
        outs = mp.batch(lines)
        for (kind, c, r, extra), o in zip(meta, outs):
            got = fw.parse_line(o)
            if kind == "m":
                R.corr_checked += 1
                exp = canon_impl(c, r)
                if got != exp:
                    R.disagree(f"{c['k']}", c, got, exp)
            else:
                reading, counted, pad_length, out = extra
                exp = reading_toks(reading)
                R.count("oracle", "parsed back" if got == exp else "NOT parsed back")
                if got != exp:
                    what = "emitted path does not parse back to the intended names and numbers"
                    self.fail(what, c, {"bytes": out, "parsed": got}, exp, self.classify(c, reading, counted, pad_length, out, "reading"))


# ------------------------------------------------------------------ generators
BOUNDS = [0, 1, 2, 127, 128, 254, 255, 256, 257, 4095, 32767, 32768, 65534, 65535, 65536, 65537, 2 ** 24 - 1, 2 ** 24,
          2 ** 31 - 1, 2 ** 31, 2 ** 32 - 2, 2 ** 32 - 1]
OUT_OF_RANGE = [2 ** 32, 2 ** 32 + 1, 2 ** 40, -1, -255, -256, -65536]


def rnd_value(rng):
    k = rng.random()
    if k < 0.3:
        return rng.randrange(0, 256)
    if k < 0.6:
        return rng.randrange(256, 65536)
    if k < 0.7:
        return rng.choice(BOUNDS)
    return rng.randrange(65536, 2 ** 32)


def rnd_small(rng):
    """a value below 2^16 with the 8/16-bit boundary well represented"""
    k = rng.random()
    if k < 0.4:
        return rng.randrange(0, 256)
    if k < 0.55:
        return rng.choice([0, 1, 254, 255, 256, 257, 65534, 65535])
    return rng.randrange(256, 65536)


IDENT = "ABCDEFGHIJKLMNOPQRSTUVWXYZabcdefghijklmnopqrstuvwxyz0123456789_"


def rnd_name(rng, maxlen=40):
    n = rng.choice([1, 2, 3, 4, 5, 6, 7, 8, 9, 10, 11, 12, 20, 21, 39, 40]) if maxlen >= 40 else rng.randrange(1, maxlen + 1)
    if rng.random() < 0.03:
        n = rng.choice([254, 255, 128, 129])
    alphabet = IDENT if rng.random() < 0.9 else IDENT + " ],-+*/#"
    return "".join(rng.choice(alphabet) for _ in range(n))


def rnd_index(rng, allow32):
    k = rng.random()
    if k < 0.45:
        v = rng.randrange(0, 256)
    elif k < 0.6:
        v = rng.choice([0, 255, 256, 65535])
    elif k < 0.9 or not allow32:
        v = rng.randrange(256, 65536)
    else:
        v = rng.choice([65536, 65537, 2 ** 31, 2 ** 32 - 1, rng.randrange(65536, 2 ** 32)])
    s = str(v)
    if rng.random() < 0.05:
        s = "0" * rng.randrange(1, 4) + s
    return s


def rnd_tag_ast(rng, allow32):
    prog = rnd_name(rng, 40) if rng.random() < 0.3 else None
    nlev = rng.choice([1, 1, 1, 2, 2, 3, 4, 6])
    levels = []
    for _ in range(nlev):
        nidx = rng.choice([0, 0, 0, 1, 1, 2, 3])
        levels.append([rnd_name(rng), [rnd_index(rng, allow32) for _ in range(nidx)]])
    return {"program": prog, "levels": levels}


def rnd_inst(rng, allow32):
    k = rng.random()
    if k < 0.25:
        return "absent"
    if k < 0.3:
        return None
    if k < 0.4:
        return 0
    if k < 0.7:
        return rng.randrange(1, 256)
    if k < 0.95 or not allow32:
        return rng.choice([255, 256, 65535, rng.randrange(256, 65536)])
    return rng.choice([65536, 2 ** 32 - 1, rng.randrange(65536, 2 ** 32)])


def tag_case(ast, inst, use):
    return {"k": "tag", "tag": render_tag(ast), "inst": inst, "use": use, "ast": ast}


def mutate_tag(rng, s):
    """single-character edits and the spellings int() accepts: correspondence only"""
    k = rng.random()
    if k < 0.25 and s:
        i = rng.randrange(len(s))
        return s[:i] + s[i + 1:]
    if k < 0.5:
        i = rng.randrange(len(s) + 1)
        return s[:i] + rng.choice("[].,: _+-0a\t") + s[i:]
    if k < 0.7 and "[" in s:
        i = s.index("[") + 1
        return s[:i] + rng.choice([" ", "+", "-", "0", "1_", "_", "\t", "\x1c"]) + s[i:]
    if k < 0.85 and "]" in s:
        i = s.rindex("]")
        return s[:i] + rng.choice([" ", "_0", "_", ",", ",7", "\n"]) + s[i:]
    return s + rng.choice([".", "[", "]", "[]", "[1", ".a", "..b", "[1,2,3,4]", "é", "\ud800"])


IP_SAMPLES = ["1.2.3.4", "10.0.0.1", "10.10.0.1", "10.10.10.1", "10.10.10.10", "192.168.1.1", "192.168.10.1", "192.168.100.1",
              "192.168.100.10", "192.168.100.100", "255.255.255.255", "0.0.0.0", "100.100.100.10"]
IP_BAD = ["1.2.3", "1.2.3.256", "01.2.3.4", "1.2.3.4.5", "a.b.c.d", "1..2.3", "1.2.3.4 ", "", " ", "1.2.3.-4", "1,2", "0x1.2.3.4", "1.2.3.0004"]


def rnd_ip(rng):
    return ".".join(str(rng.choice([0, 1, 9, 10, 99, 100, 255, rng.randrange(256)])) for _ in range(4))


def rnd_port(rng, mode):
    """mode 'ok': named ports and 1..14; 'p15': a port above 14 (extended port identifier); 'any'"""
    k = rng.random()
    if mode == "p15":
        return rng.choice([15, 16, 17, 30, 31, 32, 33, 63, 64, 128, 145, 255, 256, 257, 300, 4095, 65534, 65535,
                           rng.randrange(15, 256), rng.randrange(256, 65536)])
    if k < 0.45:
        return rng.choice(list(PORT_NAMES))
    if k < 0.95 or mode == "ok":
        return rng.choice([1, 2, 3, 14, rng.randrange(1, 15)])
    return rng.choice([0, -1, -16, 65536, 65537, 2 ** 32, "nope", "BP", "", "Enet"])


def rnd_link(rng, mode):
    k = rng.random()
    if k < 0.3:
        return rng.choice([0, 1, 2, 16, 17, 255, rng.randrange(256)])
    if k < 0.5:
        return str(rng.choice([0, 1, 9, 10, 99, 100, 255, rng.randrange(256)]))
    if k < 0.8:
        return rng.choice(IP_SAMPLES) if rng.random() < 0.5 else rnd_ip(rng)
    if k < 0.9 or mode == "ok":
        n = rng.choice([1, 1, 2, 3, 4, 5, 8])
        return rng.randbytes(n)
    return rng.choice([256, -1, 1000, "256", "007", "0255", "1_0", " 1", "-1", b"", rng.randbytes(255), rng.randbytes(256)] + IP_BAD)


def rnd_route(rng, mode, nmax=4):
    n = rng.choice([0, 1, 1, 2, 2, 3, nmax])
    hops = [["P", rnd_port(rng, "ok" if mode == "p15" else mode), rnd_link(rng, "ok" if mode == "p15" else mode)] for _ in range(n)]
    if mode == "p15":
        hops.insert(rng.randrange(len(hops) + 1), ["P", rnd_port(rng, "p15"), rnd_link(rng, "ok")])
    return hops


def rnd_logical(rng, allow32, bad=False):
    t = rng.choice(list(LTYPES))
    if bad and rng.random() < 0.4:
        t = rng.choice(["special", "service_id", "class", "CLASS_ID", "", "member"])
    if rng.random() < 0.15:
        n = rng.choice([1, 2] + ([4] if allow32 else []) + ([0, 3, 5, 8] if bad else []))
        v = rng.randbytes(n)
    elif bad and rng.random() < 0.4:
        v = rng.choice(OUT_OF_RANGE)
    else:
        v = rnd_value(rng) if allow32 else rnd_small(rng)
    return ["L", t, v]


def rnd_segs(rng, flavour):
    """flavour: 'ok16' in range without 32-bit values and without ports >= 15; 'ok32' with 32-bit logical
    values (no ports >= 15); 'p15' with one port above 14 (no 32-bit values); 'bad' anything"""
    n = rng.choice([0, 1, 2, 2, 3, 4, 6, 9])
    segs = []
    for _ in range(n):
        k = rng.random()
        if k < 0.45:
            segs.append(rnd_logical(rng, flavour in ("ok32", "bad"), bad=(flavour == "bad")))
        elif k < 0.7:
            segs.append(["S", rnd_name(rng)])
        elif k < 0.95 or flavour != "bad":
            segs += rnd_route(rng, "any" if flavour == "bad" else "ok", 2)[:2]
        else:
            segs.append(rng.choice([["D", rng.randbytes(rng.randrange(0, 6))], ["R", rng.randbytes(rng.randrange(0, 6))],
                                    ["S", ""], ["S", "é"], ["S", "x" * 256], ["S", "\ud800"]]))
    if flavour == "p15":
        segs.insert(rng.randrange(len(segs) + 1), ["P", rnd_port(rng, "p15"), rnd_link(rng, "ok")])
    return [seg_j(s) for s in segs]


def gen_cases(R, thorough, deep=False):
    """thorough: exhaustive small domains + 8-10x the random budget (also used when a proof or the
    correspondence broke); deep (the thorough tier proper): 4x more random cases on top"""
    rng = R.rng
    groups = []
    X = 4 if deep else 1

    # ---- logical segments: format boundaries, exhaustive ranges, random 32-bit
    cs = []
    types = list(LTYPES) + ["special", "service_id", "nope"]
    for t in types:
        for v in BOUNDS + OUT_OF_RANGE:
            for padded in (True, False):
                cs.append({"k": "seg", "padded": padded, "seg": ["L", t, v]})
        for b in (b"", b"\x6b", b"\x01\x02", b"\x01\x02\x03", b"\x00\x00\x01\x00", b"\x01\x02\x03\x04\x05"):
            cs.append({"k": "seg", "padded": True, "seg": seg_j(["L", t, b])})
    groups.append(("logical-boundaries", cs))
    cs = []
    top = 65536 + 64 if thorough else 1024
    for t in LTYPES:
        for v in range(0, top):
            cs.append({"k": "seg", "padded": True, "seg": ["L", t, v]})
        if not thorough:
            for v in range(1024, 65536 + 300, 61):
                cs.append({"k": "seg", "padded": True, "seg": ["L", t, v]})
            for v in range(65536 - 40, 65536 + 40):
                cs.append({"k": "seg", "padded": True, "seg": ["L", t, v]})
    if thorough:
        for v in range(0, 65536 + 64):
            cs.append({"k": "seg", "padded": False, "seg": ["L", "member_id", v]})
    groups.append(("logical-exhaustive", cs))
    cs = []
    for _ in range(20000 * X if thorough else 1500):
        cs.append({"k": "seg", "padded": rng.random() < 0.85, "seg": ["L", rng.choice(list(LTYPES)), rng.randrange(65536, 2 ** 32)]})
    groups.append(("logical-random-32bit", cs))

    # ---- port / data segments alone
    cs = []
    for p in list(PORT_NAMES) + list(range(0, 18)) + [31, 32, 33, 63, 64, 127, 128, 145, 255, 256, 257, 4095, 65534, 65535, 65536, -1, -16, "nope", ""]:
        for l in [0, 1, 255, 256, -1, "0", "5", "255", "256", "007", "1.2.3.4", "10.10.10.10", "192.168.100.100", "192.168.1.10", "1.2.3", b"", b"\x05",
                  b"\x01\x02", b"\x01\x02\x03"]:
            cs.append({"k": "seg", "padded": True, "seg": seg_j(["P", p, l])})
    for p in range(0, 65537 + 3, 1 if thorough else 97):      # every port number (thorough) with a slot and an address
        cs.append({"k": "seg", "padded": True, "seg": ["P", p, p % 256]})
        if thorough or p % 2:
            cs.append({"k": "seg", "padded": True, "seg": ["P", p, rng.choice(IP_SAMPLES)]})
    if deep:       # every port number 0..300 with every slot
        for p in range(0, 301):
            for l in range(0, 256):
                cs.append({"k": "seg", "padded": True, "seg": ["P", p, l]})
    for ip in IP_SAMPLES + IP_BAD:
        cs.append({"k": "seg", "padded": True, "seg": ["P", "enet", ip]})
        cs.append({"k": "ipok", "s": ip})
    for _ in range(4000 * X if thorough else 300):
        ip = rnd_ip(rng)
        cs.append({"k": "seg", "padded": True, "seg": ["P", rng.choice([1, 2, "enet", 14]), ip]})
        if rng.random() < 0.3:
            i = rng.randrange(len(ip) + 1)
            cs.append({"k": "ipok", "s": ip[:i] + rng.choice("0.9 a") + ip[i:]})
    for n in list(range(0, 12)) + [127, 128, 253, 254, 255, 256, 300]:
        cs.append({"k": "seg", "padded": True, "seg": ["S", "n" * n]})
        cs.append({"k": "seg", "padded": False, "seg": ["S", "n" * n]})
        cs.append({"k": "seg", "padded": True, "seg": seg_j(["D", b"\x07" * n])})
    for s in ["é", "aé", "€", "\U0001f600", "\ud800", "a\x00b", "a b"]:
        cs.append({"k": "seg", "padded": True, "seg": ["S", s]})
    groups.append(("port-and-data-segments", cs))

    # ---- whole paths
    for flavour, n in (("ok16", 1500), ("ok32", 400), ("p15", 150), ("bad", 600)):
        cs = []
        for _ in range(n * (8 * X if thorough else 1)):
            cs.append({"k": "epath", "padded": rng.random() < 0.9, "length": rng.random() < 0.8, "pad_length": rng.random() < 0.4,
                       "segs": rnd_segs(rng, flavour)})
        groups.append((f"epath-{flavour}", cs))
    cs = []
    # the shapes the drivers build: symbol-class/instance (tag list), program + symbol class, routes + message router
    for inst in BOUNDS[:16]:
        cs.append({"k": "epath", "padded": True, "length": True, "pad_length": False,
                   "segs": [seg_j(["L", "class_id", b"\x6b"]), ["L", "instance_id", inst]]})
        cs.append({"k": "epath", "padded": True, "length": True, "pad_length": False,
                   "segs": [["S", "Program:MainProgram"], seg_j(["L", "class_id", b"\x6b"]), ["L", "instance_id", inst]]})
    for _ in range(1500 * X if thorough else 200):
        route = rnd_route(rng, "ok")
        cs.append({"k": "epath", "padded": True, "length": True, "pad_length": rng.random() < 0.5,
                   "segs": [seg_j(s) for s in route] + [seg_j(["L", "class_id", b"\x02"]), ["L", "instance_id", 1]]})
    # around the 255-word limit of the count byte
    for total in list(range(500, 524, 2)):
        k = (total - 2) // 12
        segs = [["S", "abcdefghij"]] * k
        rest = total - 12 * k
        segs = segs + [["L", "member_id", 5]] * (rest // 2)
        cs.append({"k": "epath", "padded": True, "length": True, "pad_length": False, "segs": segs})
        cs.append({"k": "epath", "padded": True, "length": False, "pad_length": False, "segs": segs})
    groups.append(("epath-driver-shapes-and-limit", cs))

    # ---- request_path
    cs = []
    vals = [0, 1, 2, 0x6B, 255, 256, 0x1234, 65535]
    for c in vals + [b"\x6b", b"\x02", b"\x00\x01"]:
        for i in vals + [65536, 2 ** 32 - 1, b"\x01", b"\x00\x01", b""]:
            for a in [None, b"", 0, 1, 5, 255, 256, 65535, b"\x01", b"\x00"]:
                cs.append({"k": "reqpath", "cls": jv(c), "inst": jv(i), "attr": jv(a)})
    for _ in range(6000 * X if thorough else 600):
        a = rng.choice([None, rnd_small(rng), rnd_small(rng), rng.randbytes(rng.choice([1, 2]))])
        if rng.random() < 0.1:
            a = rng.choice([2 ** 32, -1, rng.randbytes(3), rnd_value(rng)])
        cs.append({"k": "reqpath", "cls": jv(rnd_small(rng)), "inst": jv(rnd_value(rng) if rng.random() < 0.2 else rnd_small(rng)), "attr": jv(a)})
    groups.append(("request_path", cs))

    # ---- tag strings from the grammar
    cs = []
    for name in ["a", "ab", "abc", "Tag_1", "x" * 254, "x" * 255, "x" * 256]:
        for idx in ([], ["0"], ["255"], ["256"], ["65535"], ["65536"], ["4294967295"], ["4294967296"], ["1", "2"], ["1", "256", "65535"], ["1", "2", "3", "4"],
                    ["007"]):
            for inst, use in (("absent", False), (300, True), (5, True), (65536, True), (0, True), (5, False)):
                cs.append(tag_case({"program": None, "levels": [[name, idx]]}, inst, use))
    for n in (4299, 4300):      # int() refuses more than 4300 digits
        for inst, use in (("absent", False), (300, True)):
            ast = {"program": None, "levels": [["arr", [["", n, "7"]]], ["m", ["1"]]]}
            cs.append({"k": "tag", "tag": None, "z": ["arr[", n, "7].m[1]"], "inst": inst, "use": use, "ast": ast})
    for prog in ["P", "Main", "x" * 246, "x" * 247, "x" * 248]:
        cs.append(tag_case({"program": prog, "levels": [["tag", ["1"]], ["m", []]]}, 7, True))
    for nlev in (30, 40, 41, 42, 43, 60):       # around the 255-word limit: 12 bytes per level
        cs.append(tag_case({"program": None, "levels": [["abcdefghij", []]] * nlev}, "absent", False))
        cs.append(tag_case({"program": None, "levels": [["abcdefghi", ["300"]]] * nlev}, "absent", False))
    groups.append(("tag-boundaries", cs))
    cs = []
    for _ in range(16000 * X if thorough else 2200):
        allow32 = rng.random() < 0.12
        ast = rnd_tag_ast(rng, allow32)
        cs.append(tag_case(ast, rnd_inst(rng, allow32 and ast["program"] is None), rng.random() < 0.6))
    groups.append(("tag-grammar", cs))
    cs = []
    for _ in range(8000 * X if thorough else 900):
        ast = rnd_tag_ast(rng, False)
        s = mutate_tag(rng, render_tag(ast))
        cs.append({"k": "tag", "tag": s, "inst": rnd_inst(rng, True), "use": rng.random() < 0.5, "ast": None})
        cs.append({"k": "findidx", "tag": s.split(".")[0]})
    for s in ["", ".", "..", "[", "]", "[]", "a[", "a]", "a[]", "a[,]", "a[1,]", "a[[1]]", "a[1][2]", "a[1]b", "Program:", "Program:.x", "Program:P[1].x",
              "program:Main.x", "a.Program:x", "a[ 1 ]", "a[1_0]", "a[+1]", "a[-1]", "a[- 1]", "a[0x10]", "a[1.5]", "a[1e3]", "a[\x1c1]", "a[\t1\n]"]:
        for inst, use in (("absent", False), (9, True)):
            cs.append({"k": "tag", "tag": s, "inst": inst, "use": use, "ast": None})
        cs.append({"k": "findidx", "tag": s})
    for s in ["", " ", "0", "-0", "+0", "00", "1_0", "_1", "1_", "1__0", " 12 ", "\t12\n", "\x0b12\x0c", "\x1c12", "12\x1f", "+ 1", "+-1", "1 0", "0x1", "1e3", "١", "12a",
              "9" * 30]:
        if all(ord(ch) < 128 for ch in s):
            cs.append({"k": "pyint", "s": s})
    for z in (["", 4300, ""], ["", 4301, ""], ["-", 4299, "1"], ["+", 4300, "1"], ["  ", 4300, " "], ["1_", 4299, ""], ["1_", 4300, ""], ["0_", 4299, "_1"]):
        cs.append({"k": "pyint", "s": None, "z": z})
    for z in (["", 4299, "5"], ["", 4300, "5"], ["", 4297, "255"], ["", 4297, "256"]):
        cs.append({"k": "segz", "port": "bp", "z": z})
        cs.append({"k": "segz", "port": 2, "z": z})
    for _ in range(3000 * X if thorough else 400):
        s = "".join(rng.choice("0123456789_+- \t\x1c\x0ba") if rng.random() < 0.4 else rng.choice("0123456789") for _ in range(rng.randrange(0, 7)))
        cs.append({"k": "pyint", "s": s})
    groups.append(("tag-malformed-and-int", cs))
    return groups


# ------------------------------------------------------------------ driver-level observation
class _Resp:
    value = b"\x00" * 8
    error = None

    def __bool__(self):
        return True


def driver_routes(R, J, thorough, deep=False):
    """the route / request path bytes CIPDriver hands to its request packets"""
    from pycomm3 import CIPDriver
    from pycomm3.cip.data_types import PortSegment
    from pycomm3.packets import util
    rng, mp = R.rng, J.mp

    def spell(hops, sep=None):
        return "".join((sep or rng.choice("/\\")) + str(p) + (sep or rng.choice("/\\")) + str(l) for p, l in hops)

    def hop_reading(hops):
        return [("P", p if isinstance(p, int) else PORT_NAMES[p], bytes([int(l)]) if digits_ok(str(l)) else str(l).encode()) for p, l in hops]

    def rnd_hops(n):
        out = []
        for _ in range(n):
            p = rng.choice(list(PORT_NAMES) + [1, 2, 3, 14, rng.randrange(1, 15), 15, 16, 32, 255, 256, 65535, rng.randrange(15, 65536)])
            l = rng.choice([str(rng.randrange(256)), rng.choice(IP_SAMPLES), rnd_ip(rng)])
            out.append((p, l))
        return out

    def check(what, case, out, reading, pad_length):
        R.evaluations += 1
        R.case(["driver", what, case], nontrivial=True)
        R.count("driver_site", what)
        body, prob = strip_count(bytes(out), True, pad_length)
        if prob is not None:
            R.fail(prob, ["driver", what, case], bytes(out), "even length, correct word count, zero pad", f"driver:{what}:framing")
            return
        got = mp.ask("parse", fw.t_bytes(body))
        if got != reading_toks(reading):
            R.fail("emitted path does not parse back to the intended names and numbers", ["driver", what, case],
                   {"bytes": bytes(out), "parsed": got}, reading_toks(reading), f"driver:{what}:reading")

    MR = [("L", 0, 2), ("L", 1, 1)]
    for _ in range((1600 if deep else 400) if thorough else 60):
        hops = rnd_hops(rng.choice([0, 1, 1, 2, 3]))
        path = "10.20.30.40" + spell(hops, rng.choice([None, "/", "\\", ","]))
        try:
            _driver_scenario(R, rng, CIPDriver, PortSegment, util, check, hop_reading, rnd_hops, spell, hops, path, MR)
        except Exception as e:      # an in-range route that the driver refuses to encode
            R.fail("driver raised while encoding an in-range route", ["driver", path], repr(e)[:200], "paths emitted", "driver:exception")


def _driver_scenario(R, rng, CIPDriver, PortSegment, util, check, hop_reading, rnd_hops, spell, hops, path, MR):
    seen = []
    drv = CIPDriver(path)
    drv.send = lambda req: (seen.append(req), _Resp())[1]
    drv._session = 1
    # forward open / close: route + message router
    drv._forward_open()
    check("forward_open", path, seen[-1].route_path, hop_reading(hops) + MR, False)
    drv._target_is_connected = True
    drv._forward_close()
    check("forward_close", path, seen[-1].route_path, hop_reading(hops) + MR, True)
    # generic_message: route_path True / str / list; request path of the request itself
    cls, inst, attr = rnd_small(rng), rnd_small(rng), rng.choice([None, rng.randrange(1, 65536)])
    kw = {} if attr is None else {"attribute": attr}
    drv.generic_message(service=1, class_code=cls, instance=inst, connected=False, unconnected_send=True, route_path=True, **kw)
    check("generic_message:route=True", path, seen[-1].route_path, hop_reading(hops), True)
    rp = util.request_path(seen[-1].class_code, seen[-1].instance, seen[-1].attribute)
    check("generic_message:request_path", [cls, inst, attr], rp, [("L", 0, cls), ("L", 1, inst)] + ([("L", 4, attr)] if attr else []), False)
    h2 = rnd_hops(rng.choice([1, 2, 3]))
    r2 = spell(h2, "/")[1:]
    drv.generic_message(service=1, class_code=cls, instance=inst, connected=False, unconnected_send=True, route_path=r2)
    check("generic_message:route=str", r2, seen[-1].route_path, hop_reading(h2), True)
    drv.generic_message(service=1, class_code=cls, instance=inst, connected=False, unconnected_send=True,
                        route_path=[PortSegment(p, l) for p, l in h2])
    check("generic_message:route=segments", r2, seen[-1].route_path, hop_reading(h2), True)
    if hops:
        slot = rng.randrange(0, 256)
        try:
            drv.get_module_info(slot)
        except Exception:
            pass        # the canned reply is not an identity object; only the request is observed
        check("get_module_info", [path, slot], seen[-1].route_path, hop_reading(hops[:-1]) + [("P", 1, bytes([slot]))], True)


# ------------------------------------------------------------------ entry points
def corpus_cases():
    d = os.path.join(fw.VERIF, "corpus", "C09")
    out = []
    if os.path.isdir(d):
        for fn in sorted(os.listdir(d)):
            if fn.endswith(".json"):
                j = json.load(open(os.path.join(d, fn)))
                out += j if isinstance(j, list) else [j]
    return out


def run(R, escalate=False, only=None):
    thorough = R.tier == "thorough" or escalate
    R.rule = ("segments / paths / request_path / tag strings / routes generated from grammars: logical values 0..2^16 "
              + ("exhaustive (5 types, padded; member ids also packed)" if thorough else "(0..1023 exhaustive, stride 61 above, +-40 around 2^16)")
              + ", all format boundaries, random 32-bit; tag ASTs (program scope, 1-6 levels, 0-3 indices across the 8/16/32-bit boundaries, "
              "names of every length parity, instance ids on/off) + single-character edits; routes with named ports and port numbers 1..65535 (every number in thorough), slot and IPv4 links of every "
              "length; paths around the 255-word limit; malformed stream (unknown types/ports, out-of-range values, bad IPs, non-ASCII). "
              "non-trivial = distinct case; oracle = strict Spec parser on the implementation's bytes vs the reading computed from the generated input")
    mp = fw.ModelProc("C09")
    J = Judge(R, mp)
    try:
        cc = corpus_cases() if only is None else only
        if cc:
            J.run(cc, "corpus")
        if only is not None:
            return
        for label, cs in gen_cases(R, thorough, deep=(R.tier == "thorough")):
            R.count("group", label, len(cs))
            for i in range(0, len(cs), 4000):
                J.run(cs[i:i + 4000], label)
        driver_routes(R, J, thorough, deep=(R.tier == "thorough"))
    finally:
        mp.close()


def replay(R, rp):
    """re-run the failing case of a replay file (or a known finding's `replay` object) on the real code"""
    c = rp.get("failure", {}).get("case") if "failure" in rp else rp.get("replay", rp)
    if isinstance(c, list) and len(c) == 2 and isinstance(c[1], dict):
        c = c[1]
    if isinstance(c, dict) and "k" in c:
        run(R, only=[c])
    else:
        run(R, escalate=True)
