"""C06 — data-type codecs round-trip every value.

(a) Correspondence: the extracted codec model (coq/Model/Codec.v via bin/modelrun_codec) against the
    real pycomm3 classes on generated (type term, value) pairs — type grammar to depth 4 over all
    exported elementary types, valid / out-of-domain values, decode of every valid encoding followed
    by other data, every truncation point, random bytes — and the Python statement of the side
    conditions (codec_common.py_doc_dom / py_devs) against the Coq ones (doc_dom, wf_ty, in_dom).
(b) Oracle on the IMPLEMENTATION (no model involved): the statement itself.  For every generated
    value in the documented domain of its type: d = T.decode(s := BytesIO(T.encode(v) + rest));
    d must equal v up to the documented normalisations (REAL to binary32 precision, over-long input
    to fixed arrays/strings truncated, positional struct input read back as a dict), s.tell() must be
    len(T.encode(v)); a structure must encode to the same bytes from a dict and from the positional
    sequence.  A failure's class is the deviation class the case touches (codec_common.py_devs), or
    `in-domain:<type kind>` when it touches none — that one is never a known finding."""
import json
import os
import struct

import codec_common as cc
import framework as fw

EXTRA_MODELS = ["Codec"]

ASSUMPTIONS = [
    "Python values are None/bool/int/float/str/bytes/list/tuple/dict(None|str keys); every NaN is identified with the canonical quiet NaN",
    "text codecs: iso-8859-1, utf-8, utf-16-le, utf-32-le as modelled in Model/CodecPrim.v (strict UTF-8/16/32)",
    "Array element types are classes (n_bytes: an instance, as the library returns it); struct members are classes or named instances",
    "EPATH and CIP segment types are property C09, not this one",
    "StructTag: the theorem covers template layouts (members of constant width at pairwise disjoint offsets in any order, BOOL members in hidden hosts or padding); other layouts are checked on the implementation only",
    "C06_real_precision relies on Proofs/CodecWireFloat.v (property C07's vertical) for the agreement of round32/widen32 with Flocq",
]

CORPUS = os.path.join(fw.VERIF, "corpus", "C06")


# ------------------------------------------------------------------ case plumbing
def case_json(td, v, rest):
    return {"td": cc.td_to_json(td), "v": cc.canon_to_json(cc.canon(v)), "rest": rest.hex()}


def case_from_json(j):
    return cc.td_from_json(j["td"]), cc.val_from_canon(j["v"]), bytes.fromhex(j.get("rest", ""))


HANG_CLASS = "Array(length-type):zero-size-element-count-loop"


def _fail(R, what, cj, observed, expected, cls):
    """at most 3 recorded failures per class, so that the many instances of a known deviation can
    never crowd a new failure out of the framework's list"""
    seen = R.__dict__.setdefault("_c06_seen", {})
    seen[cls] = seen.get(cls, 0) + 1
    if seen[cls] <= 3:
        R.fail(what, cj, observed, expected, cls)


def check_roundtrip(R, cases, outs):
    """cases: [(td, v, rest)] all in the documented domain; outs: oracle_one results"""
    for (td, v, rest), o in zip(cases, outs):
        x = cc.expand(td)
        R.evaluations += 1
        exp = cc.canon_unordered(cc.canon(cc.py_norm(x, v)))
        devs = cc.py_devs(x, v, rest)
        cls = devs[0] if devs else "in-domain:" + cc.ty_kind(td)
        if o[0] == "hang" and cc.x_hang_prone(x):
            # a count read from the data over an element type that can occupy no bytes: its own class,
            # so that any OTHER failure on such a type is still reported under the class it belongs to
            cls = HANG_CLASS
        R.count("oracle_class", "in-domain" if not devs else cls)
        cj = case_json(td, v, rest)
        if o[0] == "rt":
            got = cc.canon_unordered(o[1])
            if got != exp:
                _fail(R, "decode(encode(v)) != v", cj, list(got)[:3], list(exp)[:3], cls)
            elif o[2] != o[3]:
                _fail(R, "decode did not consume exactly the encoding", cj, {"consumed": o[2], "encoded": o[3]}, {"consumed": o[3]}, cls)
            else:
                R.count("oracle_outcome", "roundtrip-ok")
                continue
        elif o[0] == "encerr":
            _fail(R, "encode raised on an in-domain value", cj, cc.CODE_NAMES.get(o[1], o[1]), "bytes", cls)
        elif o[0] == "decerr":
            _fail(R, "decode raised on a valid encoding", cj, cc.CODE_NAMES.get(o[1], o[1]), "the value", cls)
        else:
            _fail(R, "call did not terminate", cj, o[0], "the value", cls)
        R.count("oracle_outcome", "fail:" + cls)


def oracle_prefixed(case, budget=0.5):
    """Array(<length type>, T): the documented decode.  The count encoded with the length type, then
    the encoding of the values, then other data -> the values, and exactly those bytes consumed."""
    import signal
    from io import BytesIO
    td, v, rest = case[1], case[2], case[3]
    T = cc.ty_build(td)
    L = cc.ty_build(td[2])
    signal.setitimer(signal.ITIMER_REAL, budget)
    try:
        try:
            bs = bytes(L.encode(len(v))) + bytes(T.encode(v))
            s = BytesIO(bs + rest)
            d = T.decode(s)
            return ("rt", cc.canon(d), s.tell(), len(bs))
        except cc._Hang:
            return ("hang",)
        except Exception as e:
            return ("decerr", cc.exn_code(e), 0)
    finally:
        signal.setitimer(signal.ITIMER_REAL, 0)


def check_prefixed(R, cases, outs):
    for (td, v, rest), o in zip(cases, outs):
        x = cc.expand(td)
        R.evaluations += 1
        cj = case_json(td, v, rest)
        exp = cc.canon_unordered(cc.canon(cc.py_norm(x, v)))
        cls = "in-domain:Array(length-type):prefixed-decode"
        if o[0] == "rt" and cc.canon_unordered(o[1]) == exp and o[2] == o[3]:
            R.count("oracle_outcome", "prefixed-decode-ok")
        elif o[0] == "rt":
            _fail(R, "decode(count + encode(v)) != v or wrong consumption", cj, [list(o[1])[:3], o[2], o[3]], [list(exp)[:3]], cls)
        else:
            _fail(R, "decode(count + encode(v)) raised", cj, cc.CODE_NAMES.get(o[1], o[1]) if len(o) > 1 else o[0], "the values",
                  HANG_CLASS if o[0] == "hang" and cc.x_hang_prone(x) else cls)


def domain_check(R, mp, pairs):
    """the Python side conditions vs the Coq ones: doc_dom, and wf_ty && in_dom <=> no deviation class"""
    lines = []
    for td, v in pairs:
        tt, vt = cc.ty_tokens(td), cc.val_tokens(v)
        lines.append(" ".join(["ddom"] + tt + vt))
        lines.append(" ".join(["wf"] + tt))
        lines.append(" ".join(["dom"] + tt + vt))
        lines.append(" ".join(["dwf"] + tt))
    outs = mp.batch(lines)
    for i, (td, v) in enumerate(pairs):
        x = cc.expand(td)
        dd, wf, dm, dwf = (outs[4 * i + j].strip() == "1" for j in range(4))
        pd = cc.py_doc_dom(x, v)
        if cc.x_doc_wf(x) != dwf:
            R.disagree("doc_wf (Python statement vs Coq)", [" ".join(cc.ty_tokens(td))], dwf, cc.x_doc_wf(x))
        elif dwf and (not cc.x_type_devs(x)) != wf:
            R.disagree("wf_ty (Python type deviation classes vs Coq)", [" ".join(cc.ty_tokens(td))], wf, cc.x_type_devs(x))
        R.corr_checked += 1
        R.count("domain_check", f"doc_dom={int(pd)}")
        if pd != dd:
            R.disagree("doc_dom (Python statement vs Coq)", [" ".join(cc.ty_tokens(td)), repr(v)[:300]], dd, pd)
            continue
        if pd:
            pg = not cc.py_devs(x, v, b"")
            if pg != (wf and dm):
                R.disagree("wf_ty && in_dom (Python deviation classes vs Coq)", [" ".join(cc.ty_tokens(td)), repr(v)[:300]],
                           {"wf": wf, "dom": dm}, cc.py_devs(x, v, b""))
            if dm and wf and not dd:
                R.disagree("in_dom outside doc_dom", [" ".join(cc.ty_tokens(td)), repr(v)[:300]], dm, dd)


def gen_pairs(rng, n, thorough):
    """(td, value, kind) with kind in valid / bad"""
    out = []
    for _ in range(n):
        wild = rng.random() < 0.2
        td = cc.gen_type(rng, rng.choice([0, 0, 1, 1, 2, 2, 3, 4]), wild=wild)
        if rng.random() < 0.8:
            out.append((td, cc.gen_value(rng, td, big=rng.random() < 0.02), "valid"))
        else:
            v = cc.gen_bad_value(rng, td)
            if cc.modelable(v):
                out.append((td, v, "bad"))
    return out


def leaf_sweeps(rng, thorough):
    """boundary sweeps the statement names: exhaustive 8-bit (16-bit in thorough), bit patterns,
    floats incl. NaN/inf/denormals/binary32 halfway cases, string lengths around the prefix limits"""
    out = []
    for n, (sg, w) in cc.INT_NAMES.items():
        lo, hi = (-(1 << (8 * w - 1)), (1 << (8 * w - 1)) - 1) if sg else (0, (1 << (8 * w)) - 1)
        if w == 1 or (w == 2 and thorough):
            vals = range(lo, hi + 1)
        elif w == 2:
            vals = list(range(lo, hi + 1, 257)) + [lo, hi, lo + 1, hi - 1, 0, -1 if sg else 1]
        else:
            vals = [lo, hi, lo + 1, hi - 1, 0, 1, hi // 2, hi // 2 + 1] + [cc.gen_int(rng, sg, w) for _ in range(400 if thorough else 24)]
        out += [(("elem", n), z) for z in vals]
    for n, w in cc.BITS_NAMES.items():
        for _ in range(200 if thorough else 12):
            out.append((("elem", n), [rng.random() < 0.5 for _ in range(8 * w)]))
    out += [(("elem", "BOOL"), True), (("elem", "BOOL"), False)]
    for _ in range(12000 if thorough else 1200):
        out.append((("elem", rng.choice(["REAL", "LREAL"])), cc._canon_float(cc.gen_float(rng))))
    for x in cc.FLOATS_SPECIAL:
        out += [(("elem", "REAL"), cc._canon_float(x)), (("elem", "LREAL"), cc._canon_float(x))]
    for n, lim in (("SHORT_STRING", 255), ("STRING", 65535), ("STRINGN", 65535), ("LOGIX_STRING", 70000), ("STRING2", 65535)):
        lens = set(range(0, 300 if thorough else 40)) | {254, 255, lim - 1, lim}
        for ln in sorted(lens):
            out.append((("elem", n), cc.gen_text(rng, ln, "ascii" if n == "STRINGN" else "latin1")))
    for ln in ([0, 1, 2, 17, 299, 300] if not thorough else range(0, 301, 7)):
        out.append((("arr", ln, ("elem", rng.choice(["INT", "USINT", "REAL", "BOOL"]))), None))
        out.append((("arrall", ("elem", rng.choice(["DINT", "SHORT_STRING", "LINT"]))), ln))
    res = []
    for td, v in out:
        if v is None:
            v = cc.gen_value(rng, td)
        elif td[0] == "arrall":
            v = [cc.gen_value(rng, td[1]) for _ in range(v)]
        res.append((td, v, "valid"))
    return res


def run_cases(R, mp, triples, thorough, light=False):
    """correspondence + domain cross-check + oracle over (td, v, kind) triples.  light: (for the
    exhaustive leaf sweeps) no domain cross-check and no malformed stream, only encode, decode of
    the encoding followed by other data, and the oracle."""
    rng = R.rng
    fixed_rest = {i: t[3] for i, t in enumerate(triples) if len(t) > 3}
    triples = [t[:3] for t in triples]
    enc_cases = [("enc", td, v) for td, v, _ in triples]
    res = cc.corr(R, mp, enc_cases, stream="valid")
    if not light:
        domain_check(R, mp, [(td, v) for td, v, _ in triples])
    # decode of every valid encoding followed by other data; every truncation point; random bytes
    dec, mal = [], []
    seen_types = set()
    hp_budget = [12 if thorough else 6]      # decodes of hang-prone types (each may cost a full time budget)
    for (op, td, v), mo, im in res:
        if cc.x_hang_prone(cc.expand(td)):
            R.count("hang_prone_types", "seen")
            if hp_budget[0] <= 0:
                continue
            hp_budget[0] -= 1
            if im[0] == "ok" and im[1] == 0:
                dec.append(("dec", td, bytes.fromhex(im[2])))
            continue
        if im[0] == "ok" and im[1] == 0:
            bs = bytes.fromhex(im[2])
            x = cc.expand(td)
            if len(bs) > 20000 and td[0] != "elem":
                # the model's stream reads are linear in the remaining buffer: a very long buffer read
                # element by element is quadratic there; long single reads (strings) are kept
                R.count("skipped", "decode of a composite encoding > 20000 bytes")
                continue
            rest = b"" if cc.x_doc_greedy(x) else bytes(rng.randrange(256) for _ in range(rng.choice([0, 1, 2, 5])))
            dec.append(("dec", td, bs + rest))
            if not light and (len(bs) <= 64 or rng.random() < 0.2):
                mal += [("dec", td, t) for t in cc.truncations(bs, 14 if thorough else 10, rng)]
        if td not in seen_types:
            seen_types.add(td)
            mal.append(("dec", td, cc.random_bytes(rng)))
            mal.append(("dec", td, b""))
    cc.corr(R, mp, dec, stream="valid-decode")
    cc.corr(R, mp, mal, stream="malformed")
    # the statement on the implementation
    orc = []
    for i, (td, v, kind) in enumerate(triples):
        x = cc.expand(td)
        R.count("value_kind", kind)
        if cc.py_doc_dom(x, v):
            rest = b"" if cc.x_doc_greedy(x) else bytes(rng.randrange(256) for _ in range(rng.choice([0, 0, 1, 3, 8])))
            rest = fixed_rest.get(i, rest)
            orc.append((td, v, rest))
            R.count("oracle_type_kind", cc.ty_kind(td))
            R.count("oracle_type_depth", cc.ty_depth(td))
    outs = cc.run_impl([("rt", td, v, rest) for td, v, rest in orc], fn=cc.oracle_one)
    check_roundtrip(R, orc, outs)
    # Array(<length type>, T): the documented decode of count + elements
    pre = []
    for td, v, kind in triples:
        if td[0] == "arrp":
            x = cc.expand(td)
            # the hypotheses of C06_length_prefixed: the ELEMENT type is inside wf_ty (in particular it
            # contains no further length-prefixed array) and the values are in its domain
            if (cc.py_doc_dom(x, v) and x[3][0] != "bits" and not cc.x_type_devs(x[3])
                    and not any(cc.py_devs(x[3], e, b"") for e in v) and len(v) <= 1 << 20):
                pre.append((td, v, bytes(rng.randrange(256) for _ in range(rng.choice([0, 1, 4])))))
    if pre:
        outs = cc.run_impl([("pre", td, v, rest) for td, v, rest in pre], fn=oracle_prefixed)
        check_prefixed(R, pre, outs)
    # struct: a dict is read by member name — member order, any other order, extra keys and the
    # positional sequence all give the same bytes (plain Struct, Revision, nested ones)
    sd = []
    for td, v, kind in triples:
        ms = td[1] if td[0] == "struct" else ((("major", None), ("minor", None)) if td == ("named", "Revision") else None)
        if not ms or len(set(n for n, _ in ms)) != len(ms):
            continue
        names = [n for n, _ in ms]
        vals = ([v[n] for n in names] if isinstance(v, dict) and all(n in v for n in names)
                else (list(v) if isinstance(v, list) and len(v) == len(ms) else None))
        if vals is not None:
            d = dict(zip(names, vals))
            sd.append((td, d, cc.scramble_dict(rng, d), vals))
    o1 = cc.run_impl([("enc", td, d) for td, d, _, _ in sd])
    o2 = cc.run_impl([("enc", td, l) for td, _, _, l in sd])
    o3 = cc.run_impl([("enc", td, p) for td, _, p, _ in sd])
    cc.corr(R, mp, [("enc", td, p) for td, _, p, _ in sd if cc.modelable(p)], stream="scrambled-dict")
    for (td, d, pd, l), a, b, c in zip(sd, o1, o2, o3):
        R.evaluations += 1
        R.count("oracle_outcome", "dict-vs-positional-vs-scrambled")
        if a != b:
            _fail(R, "struct encodes differently from a dict and from the positional sequence", case_json(td, d, b""), list(a), list(b),
                  "struct-dict-positional")
        if a != c:
            _fail(R, "struct encodes differently from a dict in another key order / with an extra key", case_json(td, pd, b""), list(c), list(a),
                  "struct-dict-by-name")


def positional_one(case, budget=0.5):
    """implementation side of the positional-call oracle: T.encode(*args), then decode of the bytes
    followed by other data"""
    import signal
    from io import BytesIO
    T = cc.ty_build(case[1])
    signal.setitimer(signal.ITIMER_REAL, budget)
    try:
        try:
            bs = T.encode(*case[2])
        except cc._Hang:
            return ("hang",)
        except Exception as e:
            return ("encerr", cc.exn_code(e))
        s = BytesIO(bytes(bs) + case[3])
        try:
            d = T.decode(s)
        except cc._Hang:
            return ("hang",)
        except Exception as e:
            return ("decerr", cc.exn_code(e), len(bs))
        return ("rt", cc.canon(d), s.tell(), len(bs), bytes(bs).hex())
    finally:
        signal.setitimer(signal.ITIMER_REAL, 0)


def positional_expect(td, args):
    """(expected decoded value, equivalent single value or None) for an in-domain positional call,
    None when the arguments are outside the documented domain of that call form"""
    is_int = lambda z: isinstance(z, int) and not isinstance(z, bool)
    n = td[1]
    if n == "DATE_AND_TIME":
        if len(args) == 2 and is_int(args[0]) and is_int(args[1]) and 0 <= args[0] < 1 << 32 and 0 <= args[1] < 1 << 16:
            return (args[0], args[1]), (args[0], args[1])
        return None
    if n == "STRINGN":
        if len(args) == 2 and isinstance(args[0], str) and args[1] in (1, 2, 4) and not isinstance(args[1], bool):
            codec = {1: "iso-8859-1", 2: "utf-16-le", 4: "utf-32-le"}[args[1]]
            try:
                units = len(args[0].encode(codec)) // args[1]
            except UnicodeError:
                return None
            if units < 65536:
                return args[0], (args[0] if args[1] == 1 else None)
        return None
    if n == "STRINGI":
        x = cc.expand(td)
        if all(cc.py_doc_val(x, a) and not cc.py_devs(x, a) for a in args) and len(args) < 256:
            return ([a[0] for a in args], [a[2] for a in args], [a[3] for a in args]), None
    return None


def run_positional(R, mp, calls):
    """positional calls: correspondence, and on the implementation: the call round-trips and gives
    the same bytes as the single-value form where one exists (DATE_AND_TIME((t, d)), STRINGN(s))"""
    rng = R.rng
    cc.corr(R, mp, [c for c in calls if all(cc.modelable(a) for a in c[2])], stream="positional-calls")
    orc = []
    for op, td, args in calls:
        if td[0] == "elem" and td[1] in ("DATE_AND_TIME", "STRINGN", "STRINGI"):
            e = positional_expect(td, args)
            if e is not None:
                orc.append((td, args, bytes(rng.randrange(256) for _ in range(rng.choice([0, 1, 3]))), e))
    outs = cc.run_impl([("pos", td, args, rest) for td, args, rest, _ in orc], fn=positional_one)
    single = cc.run_impl([("enc", td, e[1]) for td, _, _, e in orc if e[1] is not None])
    si = iter(single)
    for (td, args, rest, (exp, one)), o in zip(orc, outs):
        R.evaluations += 1
        cj = {"td": cc.td_to_json(td), "args": [cc.canon_to_json(cc.canon(a)) for a in args], "rest": rest.hex()}
        cls = "in-domain:positional-call:" + td[1]
        R.count("oracle_class", "positional:" + td[1])
        so = next(si) if one is not None else None
        if o[0] != "rt":
            _fail(R, "T.encode(*args) / decode of it raised on in-domain arguments", cj, [o[0], cc.CODE_NAMES.get(o[1], o[1]) if len(o) > 1 else ""], "bytes that decode to the value", cls)
        elif cc.canon_unordered(o[1]) != cc.canon_unordered(cc.canon(exp)) or o[2] != o[3]:
            _fail(R, "decode(T.encode(*args)) != the value, or wrong consumption", cj, [list(o[1])[:3], o[2], o[3]], list(cc.canon(exp))[:3], cls)
        elif so is not None and so != ("ok", 0, o[4]):
            _fail(R, "T.encode(*args) differs from T.encode(value)", cj, o[4], list(so), cls)
        else:
            R.count("oracle_outcome", "positional-ok")


def run(R, escalate=False):
    thorough = R.tier == "thorough" or escalate
    rng = R.rng
    R.rule = ("type terms by the constructor grammar (Struct / Array(n|type|None) / T[n] / FixedSizeString / StructTag / n_bytes / "
              "identity objects / PCCC strings over all exported elementary types, depth <= 4) x values (documented-domain values incl. "
              "boundaries, bit patterns, floats with NaN/inf/denormal/binary32 halfway cases, string lengths around 255/65535, arrays to 300; "
              "out-of-domain values) + exhaustive 8-bit" + (" and 16-bit" if thorough else " / strided 16-bit") + " sweeps; each valid encoding is "
              "decoded followed by other data, at every truncation point, plus random and empty buffers; non-trivial = distinct (op, type, value)")
    mp = fw.ModelProc("Codec")
    try:
        # corpus first
        corpus = []
        if os.path.isdir(CORPUS):
            for fn in sorted(os.listdir(CORPUS)):
                if fn.endswith(".json") and fn != "positional.json":
                    for j in json.load(open(os.path.join(CORPUS, fn))):
                        td, v, rest = case_from_json(j)
                        corpus.append((td, v, "corpus", rest))
        R.count("stream", "corpus", len(corpus))
        run_cases(R, mp, corpus, thorough)
        pos = []
        pf = os.path.join(CORPUS, "positional.json")
        if os.path.exists(pf):
            for j in json.load(open(pf)):
                pos.append(("enca", cc.td_from_json(j["td"]), tuple(cc.val_from_canon(a) for a in j["args"])))
        pos += cc.gen_positional_calls(rng, 600 if thorough else 60)
        R.count("stream", "positional-calls", len(pos))
        run_positional(R, mp, pos)
        sweeps = leaf_sweeps(rng, thorough)
        R.count("stream", "leaf-sweeps", len(sweeps))
        if thorough:    # exhaustive 16-bit: encode/decode/oracle on all, the full treatment on a sample
            for i in range(0, len(sweeps), 50000):
                run_cases(R, mp, sweeps[i:i + 50000], thorough, light=True)
            run_cases(R, mp, rng.sample(sweeps, 6000), thorough)
        else:
            run_cases(R, mp, sweeps, thorough)
        n = 16000 if thorough else 2200
        for i in range(0, n, 2000):
            pairs = gen_pairs(rng, min(2000, n - i), thorough)
            R.count("stream", "type-grammar", len(pairs))
            run_cases(R, mp, pairs, thorough)
    finally:
        mp.close()


def replay(R, rp):
    """re-run the failing case of a replay file on the real implementation"""
    f = rp.get("failure") or {}
    j = f.get("case")
    if not j:
        R.notes.append("replay file without a failing case: re-running the corpus")
        return run(R)
    if "args" in j:
        mp = fw.ModelProc("Codec")
        try:
            run_positional(R, mp, [("enca", cc.td_from_json(j["td"]), tuple(cc.val_from_canon(a) for a in j["args"]))])
        finally:
            mp.close()
        R.case(j, True)
        return
    td, v, rest = case_from_json(j)
    if str(f.get("class", "")).endswith("prefixed-decode"):
        outs = cc.run_impl([("pre", td, v, rest)], fn=oracle_prefixed)
        check_prefixed(R, [(td, v, rest)], outs)
    else:
        outs = cc.run_impl([("rt", td, v, rest)], fn=cc.oracle_one)
        check_roundtrip(R, [(td, v, rest)], outs)
    R.case(j, True)
