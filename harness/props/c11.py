"""C11 — every emitted frame is a well-formed EtherNet/IP encapsulation message.

(a) correspondence  Model/Encap.v (extracted: bin/modelrun_c11) vs the real packet classes and the real
    CIPDriver: `_build_header`, `_build_common_packet_format`, `build_message` / `build_request` called
    1..3 times on the same object, for every request class, on mostly-valid and malformed arguments
    (None / ints / wrong lengths / out-of-range); the real Generic* subclasses; and whole driver
    histories (open / connected / unconnected / list identity / close / re-open under every target
    policy): frames byte for byte, driver state after every call, how the call ended.
(b) oracle on the IMPLEMENTATION, spec side only (Spec/EncapParser.v strict parser through
    `tp.parseframe`, Spec/EncapTrace.v observer, the reference target's log of what it granted):
    every frame a real driver writes to the socket is accepted by the strict parser, carries the
    session handle the target granted (0 only while none is granted), its command is the
    operation's, a 0x70 frame carries the connection id the target granted; frames built by the
    real classes on arguments inside the theorem's hypotheses parse to exactly the expected frame.

Other verticals: `from props.c11 import check_frames, check_driver` (see the docstrings).
"""
import glob
import json
import logging
import os
import struct

import framework as fw

EXTRA_MODELS = ["TargetCore"]

ASSUMPTIONS = [
    "the socket is replaced by harness/target.py:FakeSocket bound to the extracted reference target (Spec/TargetCore.v); real sockets, DNS, timeouts and discover()'s UDP broadcast are outside the model",
    "session handles are 32-bit values chosen by the target per scenario (non-zero, as a target grants them); O->T connection ids are arbitrary 32-bit values; replies are the reference target's (well-formed)",
    "a history is a sequence of calls of the public driver API on one driver object without socket faults (fault histories belong to C10); frames of tag read/write traffic are checked by the C01-C05 verticals through check_frames/check_driver",
    "message-router payloads are opaque byte strings here (their meaning is C14/C09); sequence counts are inputs (their freshness is C17)",
]

CMD = {"reg": 0x65, "unreg": 0x66, "li": 0x63, "rr": 0x6F, "unit": 0x70}
CTX = b"_pycomm_"

EXC_CODES = {"DataError": 1, "BufferEmptyError": 2, "CommError": 3, "RequestError": 4, "ResponseError": 5,
             "TypeError": 10, "ValueError": 11, "KeyError": 12, "IndexError": 13, "error": 14, "OverflowError": 15,
             "AttributeError": 16, "StopIteration": 17, "UnicodeError": 18, "ZeroDivisionError": 19, "NotImplementedError": 20}


def exc_code(e):
    return EXC_CODES.get(type(e).__name__, "foreign:" + type(e).__name__)


def pv_tok(v):
    if v is None:
        return "none"
    if isinstance(v, (bytes, bytearray)):
        return fw.t_bytes(v)
    return str(int(v))


# ====================================================================== the oracle (spec side only)
def _parse_model(mp, frame):
    """Spec.EncapParser.parse_frame through bin/modelrun_c11 -> same dict shape as tp.parseframe"""
    return _parse_answer(fw.parse_line(mp.ask_raw("parse " + fw.t_bytes(frame))))


def _parse_answer(a):
    if str(a[0]) == "rej":
        return {"rej": a[1]}
    kind = str(a[4])
    if kind == "cpf":
        body = ("cpf", a[5], None if isinstance(a[6], fw.Sym) else a[6], a[7], a[8])
    elif kind == "nop":
        body = ("nop", a[5])
    else:
        body = (kind,)
    return {"cmd": a[1], "session": a[2], "context": a[3], "body": body}


def frame_verdict(parsed, granted_session, granted_cid, command=None):
    """what the property demands of ONE frame, given the strict parser's answer and what the target
    granted.  -> None when satisfied, else (reason code, text).  Reason codes as Spec/EncapTrace.v:
    the parser's rejection code, 202 command, 200 session handle, 201 connection id."""
    if "rej" in parsed:
        return parsed["rej"], f"the strict parser rejects the frame (rule {parsed['rej']})"
    if command is not None:
        allowed = command if isinstance(command, (set, frozenset, list, tuple)) else (command,)
        if parsed["cmd"] not in allowed:
            return 202, f"command 0x{parsed['cmd']:02x} is not the operation's ({', '.join('0x%02x' % c for c in allowed)})"
    if parsed["session"] != granted_session:
        return 200, f"session handle {parsed['session']} but the target granted {granted_session}"
    b = parsed["body"]
    if b[0] == "cpf" and b[2] is not None:
        if granted_cid is None or b[2] != granted_cid:
            return 201, f"connected address item carries {b[2]} but the target granted {granted_cid}"
    return None


def _per_frame(x, n):
    return list(x) if isinstance(x, list) else [x] * n


def check_frames(R, tp, frames, granted_session, granted_cid, case, commands=None, cls="frame"):
    """The C11 oracle on frames written by a real driver (`drv.fakesock.sent[a:b]`).
    tp: harness.target.TargetProc (its strict parser is the oracle); granted_session: the handle the
    target had granted when the frames were written (0 before registration), an int or one per frame;
    granted_cid: the O->T connection id granted (int, None when no connection), or one per frame;
    commands: optional — the command code(s) allowed (one set for all, or a list with one entry per
    frame).  Every violation -> R.fail.  -> number of violations."""
    n = len(frames)
    gs, gc = _per_frame(granted_session, n), _per_frame(granted_cid, n)
    cm = commands if (isinstance(commands, list) and len(commands) == n and n and isinstance(commands[0], (set, frozenset, list, tuple, type(None)))) else [commands] * n
    bad = 0
    for i, fr in enumerate(frames):
        v = frame_verdict(tp.parseframe(bytes(fr)), gs[i], gc[i], cm[i])
        R.count("oracle_frames", "checked")
        if v is not None:
            bad += 1
            R.fail("emitted frame is not a well-formed encapsulation message: " + v[1],
                   {**_case(case), "frame_index": i, "frame": bytes(fr)}, {"reason": v[0]},
                   {"session": gs[i], "connection_id": gc[i]}, f"{cls}:reason{v[0]}")
    return bad


def _case(case):
    return case if isinstance(case, dict) else {"case": case}


def observe(tp, fs, log_start=0, sent_start=0):
    """what an observer at the socket and at the target saw, in order, from the target's log and the
    FakeSocket's record:  ("f", frame) | ("reg", handle) | ("fo", O->T connection id) | ("closed",)"""
    obs = []
    k = sent_start
    prev_frame = False
    for e in tp.log(log_start):
        ev = e["ev"]
        if ev == "frame":
            obs.append(("f", fs.sent[k]))
            k += 1
            prev_frame = True
            continue
        if ev == "badframe" and not (prev_frame and e["why"] != 2):
            obs.append(("f", fs.sent[k]))       # header unreadable: logged alone
            k += 1
        elif ev == "app" and e["tag"] == 1000:
            obs.append(("reg", e["args"][0]))
        elif ev == "app" and e["tag"] == 1010:
            obs.append(("fo", e["args"][3]))
        elif ev == "app" and e["tag"] == 1020:
            obs.append(("closed",))
        prev_frame = False
    if k != len(fs.sent):
        raise RuntimeError(f"observe: {len(fs.sent) - sent_start} frames sent but {k - sent_start} seen in the target's log")
    return obs


def check_trace(R, tp, obs, case, commands=None, cls="trace", ghost=None):
    """Spec/EncapTrace.v in Python over `observe(...)`: walks the observations keeping what the target
    granted.  commands: optional list, one entry per FRAME of obs (None = unconstrained).
    -> (violations, ghost after).  ghost = [granted session or None, granted connection id or None]."""
    g = list(ghost) if ghost else [None, None]
    bad = 0
    fi = 0
    for o in obs:
        if o[0] == "f":
            c = commands[fi] if commands is not None and fi < len(commands) else None
            bad += check_frames(R, tp, [o[1]], g[0] or 0, g[1], {**_case(case), "frame_no": fi}, [c] if c is not None else None, cls)
            fi += 1
        elif o[0] == "reg":
            g[0] = o[1]
        elif o[0] == "fo":
            g[1] = o[1]
        else:
            g = [None, None]
    return bad, g


def check_driver(R, tp, fs, case, log_start=0, sent_start=0, commands=None, cls="driver"):
    """everything a driver wrote to its FakeSocket `fs` since (log_start, sent_start), against what the
    target `tp` granted meanwhile.  Use it after a scenario that started with a fresh/unopened driver
    on a freshly reset target (then log_start = sent_start = 0).  -> number of violations."""
    return check_trace(R, tp, observe(tp, fs, log_start, sent_start), case, commands, cls)[0]


def obs_tokens(tp, obs, commands=None):
    toks, fi = [], 0
    for o in obs:
        if o[0] == "f":
            c = commands[fi] if commands is not None and fi < len(commands) and isinstance(commands[fi], int) else None
            if c is None:
                p = tp.parseframe(o[1])
                c = p.get("cmd", 0)
            toks += ["f", str(c), fw.t_bytes(o[1])]
            fi += 1
        elif o[0] == "closed":
            toks.append("closed")
        else:
            toks += [o[0], str(o[1])]
    return toks


# ====================================================================== pure cases
KINDS = ("unit", "rr", "reg", "unreg", "li")


def new_real_packet(kind, seq, pver, flags):
    from pycomm3.packets import (SendUnitDataRequestPacket, SendRRDataRequestPacket, RegisterSessionRequestPacket,
                                 UnRegisterSessionRequestPacket, ListIdentityRequestPacket)
    if kind == "unit":
        return SendUnitDataRequestPacket(seq)
    if kind == "reg":
        return RegisterSessionRequestPacket(pver, flags)
    return {"rr": SendRRDataRequestPacket, "unreg": UnRegisterSessionRequestPacket, "li": ListIdentityRequestPacket}[kind]()


def impl_req(c):
    p = new_real_packet(c["kind"], c["seq"], c["pver"], c["flags"])
    p.add(*c["added"])
    outs = []
    for _ in range(c["times"]):
        try:
            outs.append(("ok", p.build_request(c["cid"], c["sess"], c["ctx"], c["opt"])))
        except Exception as e:  # noqa: BLE001
            outs.append(("err", exc_code(e)))
    return outs, bytes(p.message), int(bool(p._msg_setup))


def impl_bmsg(c):
    p = new_real_packet(c["kind"], c["seq"], c["pver"], c["flags"])
    p.add(*c["added"])
    outs = []
    for _ in range(c["times"]):
        try:
            outs.append(("ok", p.build_message()))
        except Exception as e:  # noqa: BLE001
            outs.append(("err", exc_code(e)))
    return outs, bytes(p.message), int(bool(p._msg_setup))


def req_line(c, what="req"):
    t = [what, c["kind"], pv_tok(c["seq"]), pv_tok(c["pver"]), pv_tok(c["flags"]), str(len(c["added"]))] + [pv_tok(x) for x in c["added"]]
    if what == "req":
        t += [pv_tok(c["cid"]), pv_tok(c["sess"]), pv_tok(c["ctx"]), pv_tok(c["opt"])]
    return " ".join(t + [str(c["times"])])


def model_outs(line_answer):
    a = fw.parse_line(line_answer)
    outs, i = [], 0
    while i < len(a) and str(a[i]) in ("ok", "err"):
        outs.append((str(a[i]), a[i + 1]))
        i += 2
    if i >= len(a) or str(a[i]) != "end":
        raise RuntimeError("model answered " + line_answer[:200])
    return outs, a[i + 1], a[i + 2]


def in_domain(c):
    """the hypotheses of Props/C11.v frame_ok: the arguments CIPDriver.send can hand over"""
    def isb(x, n=None):
        return isinstance(x, bytes) and (n is None or len(x) == n)
    if c["times"] != 1 or not all(isb(x) for x in c["added"]):
        return False
    if not (isinstance(c["sess"], int) and 0 <= c["sess"] < 2 ** 32 and isb(c["ctx"], 8) and c["opt"] == 0):
        return False
    body = sum(len(x) for x in c["added"])
    k = c["kind"]
    if k == "unit":
        return isb(c["cid"], 4) and isinstance(c["seq"], int) and 0 <= c["seq"] < 65536 and 24 + 20 + 2 + body <= 65535 + 24
    if k == "rr":
        return 16 + body <= 65535
    if k == "reg":
        return c["pver"] == b"\x01\x00" and c["flags"] == b"\x00\x00" and not c["added"]
    return True


def expected_parse(c):
    """the frame the property demands for an in-domain case (the right-hand side of frame_ok)"""
    body = b"".join(c["added"])
    k = c["kind"]
    if k == "unit":
        b = ("cpf", 10, struct.unpack("<I", c["cid"])[0], 0xB1, struct.pack("<H", c["seq"]) + body)
    elif k == "rr":
        b = ("cpf", 10, None, 0xB2, body)
    elif k == "reg":
        b = ("register",)
    else:
        b = ("empty",)
    return {"cmd": CMD[k], "session": c["sess"], "context": c["ctx"], "body": b}


def gen_pure_case(rng, valid):
    kind = rng.choices(KINDS, weights=[8, 8, 3, 2, 2])[0]
    nchunks = rng.choices([0, 1, 2, 3], weights=[2, 5, 3, 1])[0]

    def chunk():
        r = rng.random()
        if r < 0.55:
            n = rng.randrange(0, 40)
        elif r < 0.85:
            n = rng.randrange(40, 600)
        elif r < 0.97:
            n = rng.choice([498, 499, 500, 501, 502, 3990, 3998, 3999, 4000, 4001, 4002])
        else:
            n = rng.randrange(600, 5000)
        return rng.randbytes(n)
    added = [chunk() for _ in range(nchunks)]
    if kind in ("reg", "unreg", "li") and valid and rng.random() < 0.7:
        added = []
    seq = rng.choice([0, 1, 255, 256, 65534, 65535, rng.randrange(0, 65536), rng.randrange(0, 65536)]) if kind == "unit" else None
    c = {"kind": kind, "seq": seq, "pver": b"\x01\x00" if kind == "reg" else None, "flags": b"\x00\x00" if kind == "reg" else None,
         "added": added, "cid": rng.randbytes(4) if (kind == "unit" or rng.random() < 0.5) else None,
         "sess": rng.choice([0, 1, 2 ** 32 - 1, rng.randrange(0, 2 ** 32), rng.randrange(0, 2 ** 32), rng.randrange(0, 65536)]),
         "ctx": rng.choice([CTX, CTX, rng.randbytes(8), bytes(8)]), "opt": 0, "times": 1}
    if valid:
        return c
    # the malformed stream: one or two arguments outside what the driver hands over
    for _ in range(rng.choice([1, 1, 2])):
        w = rng.choice(["seq", "cid", "sess", "ctx", "opt", "added", "times", "pver"])
        if w == "seq":
            c["seq"] = rng.choice([None, -1, 65536, 2 ** 40, b"\x01\x00", rng.randrange(0, 65536)])
        elif w == "cid":
            c["cid"] = rng.choice([None, b"", rng.randbytes(3), rng.randbytes(5), rng.randbytes(300), 7, rng.randbytes(4)])
        elif w == "sess":
            c["sess"] = rng.choice([None, -1, 2 ** 32, 2 ** 40, b"\x01\x00\x00\x00"])
        elif w == "ctx":
            c["ctx"] = rng.choice([None, b"", rng.randbytes(7), rng.randbytes(9), 5])
        elif w == "opt":
            c["opt"] = rng.choice([None, 1, 2 ** 32 - 1, 2 ** 32, -1, b"\x00"])
        elif w == "added":
            c["added"] = c["added"] + [rng.choice([None, 3])] if rng.random() < 0.5 else [None] + c["added"]
        elif w == "times":
            c["times"] = rng.choice([2, 2, 3])
        else:
            c["pver"] = rng.choice([None, b"", b"\x02\x00", b"\x01", 1])
            c["flags"] = rng.choice([None, b"\x00\x00", b"\x01\x00", b""])
    return c


def case_json(c):
    return {k: ({"b": v.hex()} if isinstance(v, bytes) else ([({"b": x.hex()} if isinstance(x, bytes) else x) for x in v] if isinstance(v, list) else v))
            for k, v in c.items()}


def case_from_json(j):
    def un(v):
        if isinstance(v, dict) and "b" in v:
            return bytes.fromhex(v["b"])
        if isinstance(v, dict) and "zeros" in v:
            return bytes(v["zeros"])
        if isinstance(v, list):
            return [un(x) for x in v]
        return v
    return {k: un(v) for k, v in j.items()}


def summary(c):
    n = sum(len(x) for x in c["added"] if isinstance(x, bytes))
    return {"kind": c["kind"], "seq": c["seq"] if not isinstance(c["seq"], bytes) else c["seq"].hex(), "chunks": len(c["added"]), "body_len": n,
            "cid": c["cid"].hex() if isinstance(c["cid"], bytes) and len(c["cid"]) <= 8 else (repr(type(c["cid"]).__name__) if c["cid"] is not None else None),
            "sess": c["sess"] if not isinstance(c["sess"], bytes) else c["sess"].hex(), "ctx": c["ctx"].hex() if isinstance(c["ctx"], bytes) else c["ctx"],
            "opt": c["opt"] if not isinstance(c["opt"], bytes) else c["opt"].hex(), "times": c["times"]}


def run_pure(R, mp, cases, tag):
    """cases through the model (req / bmsg) and the real classes; oracle on the in-domain ones"""
    lines = []
    for c in cases:
        lines.append(req_line(c, "req"))
        lines.append(req_line(c, "bmsg"))
    outs = mp.batch(lines)
    need_parse = []
    for i, c in enumerate(cases):
        m_req, m_msg = model_outs(outs[2 * i]), model_outs(outs[2 * i + 1])
        i_req, i_msg = impl_req(c), impl_bmsg(c)
        dom = in_domain(c)
        body_len = sum(len(x) for x in c["added"] if isinstance(x, bytes))
        R.case(("req", tag, json.dumps(case_json(c), sort_keys=True)), nontrivial=True)
        R.corr_checked += 2
        R.count("pure_kind", c["kind"])
        R.count("pure_domain", "in-domain" if dom else "malformed/outside")
        R.count("pure_body_len", "0" if body_len == 0 else ("odd" if body_len % 2 else "even") + ("<=500" if body_len <= 500 else ("<=4002" if body_len <= 4002 else ">4002")))
        R.count("pure_outcome", "/".join(str(o[0]) if o[0] == "ok" else f"err{o[1]}" for o in i_req[0]))
        if (list(m_req[0]), m_req[1], m_req[2]) != (list(i_req[0]), i_req[1], i_req[2]):
            R.disagree("build_request", summary(c) | {"full": case_json(c) if body_len < 300 else "(large)"},
                       _short(m_req), _short(i_req))
        if (list(m_msg[0]), m_msg[1], m_msg[2]) != (list(i_msg[0]), i_msg[1], i_msg[2]):
            R.disagree("build_message", summary(c) | {"full": case_json(c) if body_len < 300 else "(large)"},
                       _short(m_msg), _short(i_msg))
        if dom:
            need_parse.append((c, i_req[0][0]))
    # oracle: the frame built by the REAL class parses (strict spec parser) to exactly the expected frame
    good = [(c, o) for c, o in need_parse if o[0] == "ok"]
    for c, o in need_parse:
        if o[0] != "ok":
            R.fail("build_request raised on arguments the driver hands over", summary(c), {"err": o[1]}, "a frame", f"pure:{c['kind']}:raised")
    answers = mp.batch(["parse " + fw.t_bytes(o[1]) for c, o in good]) if good else []
    for (c, o), a in zip(good, answers):
        got, want = _parse_answer(fw.parse_line(a)), expected_parse(c)
        R.count("oracle_frames", "pure-checked")
        if got != want:
            why = f"rule {got['rej']}" if "rej" in got else "fields differ"
            R.fail("frame built by the real request class is not the well-formed frame the property demands (" + why + ")",
                   summary(c) | {"frame": o[1] if len(o[1]) < 400 else o[1][:80]}, _short_parse(got), _short_parse(want), f"pure:{c['kind']}:" + ("rej%d" % got["rej"] if "rej" in got else "fields"))


def _short(x):
    outs, msg, flag = x
    return {"results": [(k, (v if not isinstance(v, bytes) or len(v) < 120 else {"len": len(v), "head": v[:60].hex(), "tail": v[-16:].hex()})) for k, v in outs],
            "message": msg if len(msg) < 120 else {"len": len(msg), "head": msg[:40].hex()}, "msg_setup": flag}


def _short_parse(p):
    if "rej" in p:
        return p
    b = p["body"]
    if b[0] == "cpf" and len(b[4]) > 64:
        b = b[:4] + ({"len": len(b[4]), "head": b[4][:32].hex()},)
    return {**p, "body": b}


def run_layout(R, mp, rng, n):
    """_build_header and _build_common_packet_format alone"""
    from pycomm3.packets.base import RequestPacket
    lines, impl = [], []
    for _ in range(n):
        cmd = rng.choice([b"\x6f\x00", b"\x70\x00", b"\x65\x00", None, b"", b"\x01\x02\x03", 5])
        ln = rng.choice([0, 1, 255, 256, 4000, 65535, 65536, -1, None, rng.randrange(0, 70000)])
        ss = rng.choice([0, 1, 2 ** 32 - 1, 2 ** 32, -1, None, rng.randrange(0, 2 ** 32), b"\x00"])
        cx = rng.choice([CTX, rng.randbytes(8), b"", rng.randbytes(9), None, 0])
        op = rng.choice([0, 0, 1, None, 2 ** 32, b""])
        lines.append(" ".join(["hdr"] + [pv_tok(x) for x in (cmd, ln, ss, cx, op)]))
        try:
            impl.append(("ok", RequestPacket._build_header(cmd, ln, ss, cx, op)))
        except Exception as e:  # noqa: BLE001
            impl.append(("err", exc_code(e)))
        R.count("layout", "hdr:" + impl[-1][0])
    for _ in range(n):
        kind = rng.choice(KINDS)
        msg = rng.randbytes(rng.choice([0, 1, 2, 3, 100, 501, 4002, rng.randrange(0, 300)]))
        tgt = rng.choice([None, rng.randbytes(4), b"", rng.randbytes(3), rng.randbytes(6), 4, rng.randbytes(4)])
        lines.append(" ".join(["cpf", kind, fw.t_bytes(msg), pv_tok(tgt)]))
        p = new_real_packet(kind, 1, b"\x01\x00", b"\x00\x00")
        try:
            impl.append(("ok", p._build_common_packet_format(msg, addr_data=tgt)))
        except Exception as e:  # noqa: BLE001
            impl.append(("err", exc_code(e)))
        R.count("layout", f"cpf:{kind}:" + impl[-1][0])
    for ln_, im, o in zip(lines, impl, mp.batch(lines)):
        a = fw.parse_line(o)
        m = (str(a[0]), a[1])
        R.case(("layout", ln_[:300]))
        R.corr_checked += 1
        if m != im:
            R.disagree("layout:" + ln_.split(" ")[0], {"line": ln_[:300]}, m, im)


def run_subclasses(R, mp, rng, n):
    """the real Generic* request classes go through the same encapsulation as their base classes"""
    from pycomm3.packets import GenericConnectedRequestPacket, GenericUnconnectedRequestPacket
    lines, impl, cases = [], [], []
    for _ in range(n):
        connected = rng.random() < 0.5
        kw = dict(service=rng.choice([0x01, 0x0E, 0x10, 0x4B, 0x4C, 0x52]), class_code=rng.choice([1, 2, 0x6B, 0x300, 0x3FF]),
                  instance=rng.choice([0, 1, 7, 255, 256, 0x1234]), attribute=rng.choice([b"", 1, 3, 300]),
                  request_data=rng.randbytes(rng.choice([0, 1, 2, 3, 10, 11, 100, 480, 3900])))
        seq = rng.randrange(0, 65536)
        if connected:
            mk = lambda: GenericConnectedRequestPacket(sequence=seq, **kw)  # noqa: E731
            kind = "unit"
        else:
            kw["route_path"] = rng.choice([b"", b"\x01\x00\x01\x02", b"\x01\x00\x01\x00"])
            kw["unconnected_send"] = rng.random() < 0.5
            mk = lambda: GenericUnconnectedRequestPacket(**kw)  # noqa: E731
            kind = "rr"
        try:
            body = mk().build_message()[2 if connected else 0:]
        except Exception:  # noqa: BLE001  (only a broken implementation gets here; the pure stage reports it)
            R.count("subclass", "probe-raised")
            continue
        c = {"kind": kind, "seq": seq if connected else None, "pver": None, "flags": None, "added": [body],
             "cid": rng.randbytes(4), "sess": rng.randrange(0, 2 ** 32), "ctx": CTX, "opt": 0, "times": rng.choice([1, 1, 2])}
        p = mk()
        outs = []
        for _k in range(c["times"]):
            try:
                outs.append(("ok", p.build_request(c["cid"], c["sess"], c["ctx"], c["opt"])))
            except Exception as e:  # noqa: BLE001
                outs.append(("err", exc_code(e)))
        lines.append(req_line(c))
        impl.append(outs)
        cases.append(c)
        R.count("subclass", type(p).__name__)
    for c, im, o in zip(cases, impl, mp.batch(lines)):
        m = model_outs(o)
        R.case(("subclass", json.dumps(case_json(c), sort_keys=True)))
        R.corr_checked += 1
        if list(m[0]) != list(im):
            R.disagree("subclass build_request", summary(c), _short(m), {"results": [(k, v if not isinstance(v, bytes) else v[:60].hex()) for k, v in im]})


# ====================================================================== driver histories
class Scenario:
    """one real CIPDriver against a freshly configured reference target; every call is mirrored as a
    model op (bodies and replies taken from the wire / the target's log), and recorded for the oracle."""

    def __init__(self, R, tp, rng, policy, path):
        import target as T
        from pycomm3 import CIPDriver
        self.R, self.tp, self.rng, self.policy, self.path = R, tp, rng, policy, path
        tp.reset()
        tp.cfg(**policy)
        self.drv = CIPDriver(path)
        self.fs = T.attach(self.drv, tp)
        self.ops = []            # model op token lists
        self.impl_steps = []     # (outcome code, state tuple, [frames])
        self.cmds = []           # expected command (set) per frame, spec side
        self.names = []
        self.log_pos = 0

    # -- spec-side knowledge: what the target holds
    def _target_state(self):
        return self.tp.sessions(), self.tp.conns()

    def state(self):
        d = self.drv
        return (int(d._sock is not None), int(bool(d._connection_opened)), d._session, d._target_cid,
                int(bool(d._target_is_connected)), int(bool(d._cfg["extended forward open"])))

    def _call(self, name, fn, build_op, expect_cmds):
        n0 = len(self.fs.sent)
        sessions0, conns0 = self._target_state()
        try:
            fn()
            code = 0
        except Exception as e:  # noqa: BLE001
            code = exc_code(e)
        frames = self.fs.sent[n0:]
        evs = self.tp.log(self.log_pos)
        self.log_pos += len(evs)
        replies = self.fs.replies[n0:]
        self.ops.append(build_op(frames, replies, evs))
        self.impl_steps.append((code, self.state(), list(frames)))
        self.cmds += expect_cmds(frames, code, sessions0, conns0)
        self.names.append(name)
        self.R.count("hist_op", name)
        self.R.count("hist_outcome", f"{name}:{code}")

    @staticmethod
    def _data_item(tp, frame):
        p = tp.parseframe(frame)
        if "rej" in p or p["body"][0] != "cpf":
            return b""
        return p["body"][4]

    def open(self):
        def op(frames, replies, evs):
            reg = [e["args"][0] for e in evs if e["ev"] == "app" and e["tag"] == 1000]
            return ["open", str(reg[0]) if reg else "none"]
        self._call("open", self.drv.open, op, lambda fr, code, s, c: [{0x65}] * len(fr))

    def unconnected(self, **kw):
        def op(frames, replies, evs):
            body = self._data_item(self.tp, frames[0]) if frames else b""
            return ["unc", "rr", "1", fw.t_bytes(body)]
        self._call("unconnected", lambda: self.drv.generic_message(connected=False, **kw), op, lambda fr, code, s, c: [{0x6F}] * len(fr))

    def module_info(self, slot):
        def op(frames, replies, evs):
            body = self._data_item(self.tp, frames[0]) if frames else b""
            return ["unc", "rr", "1", fw.t_bytes(body)]
        self._call("get_module_info", lambda: self.drv.get_module_info(slot), op, lambda fr, code, s, c: [{0x6F}] * len(fr))

    def list_identity(self):
        self._call("list_identity", self.drv._list_identity, lambda fr, rp, ev: ["unc", "li", "0"], lambda fr, code, s, c: [{0x63}] * len(fr))

    def connected(self, **kw):
        def op(frames, replies, evs):
            fo, seq, body = [], 0, b""
            for f, rp in zip(frames, replies):
                p = self.tp.parseframe(f)
                if "rej" in p or p["body"][0] != "cpf":
                    continue
                if p["cmd"] == 0x6F:
                    # the reply the driver accepts as a success: encapsulation status 0, CIP general status 0
                    ok = rp is not None and len(rp) >= 44 and rp[8:12] == bytes(4) and rp[42] == 0
                    fo.append((p["body"][4], rp[44:] if ok else None))
                else:
                    seq, body = struct.unpack("<H", p["body"][4][:2])[0], p["body"][4][2:]
            t = ["con", str(seq), "1", fw.t_bytes(body), str(len(fo))]
            for m, rp in fo:
                t += ["1", fw.t_bytes(m), fw.t_bytes(rp) if rp is not None else "none"]
            return t

        def cmds(frames, code, sessions0, conns0):
            n = len(frames)
            if not n:
                return []
            # Forward Open attempts, then the request itself; a call that raised may have stopped anywhere
            return [{0x6F}] * (n - 1) + [{0x70} if code == 0 else {0x6F, 0x70}]
        self._call("connected", lambda: self.drv.generic_message(connected=True, **kw), op, cmds)

    def close(self):
        def op(frames, replies, evs):
            fc = [f for f in frames if self.tp.parseframe(f).get("cmd") == 0x6F]
            ok = any(e["ev"] == "app" and e["tag"] == 1012 for e in evs)
            if fc:
                return ["close", "1", fw.t_bytes(self._data_item(self.tp, fc[0])), "1" if ok else "0"]
            return ["close", "0", "0"]

        def cmds(frames, code, sessions0, conns0):
            # a Forward Close (SendRRData) and/or the UnRegisterSession, in that order (how many is C10's business)
            n = len(frames)
            return [{0x6F}, {0x66}] if n == 2 else [{0x6F, 0x66}] * n
        self._call("close", self.drv.close, op, cmds)

    # -- verdicts
    def finish(self, mp, case):
        R = self.R
        # (a) correspondence with the model
        line = "hist " + " ".join(" ".join(o) for o in self.ops)
        a = fw.parse_line(mp.ask_raw(line))
        if str(a[0]) != "ok":
            R.disagree("history: model rejected the op line", case, a, None)
            return
        steps, cur = [], None
        for t in a[1:]:
            if isinstance(t, fw.Sym) and t == "op":
                cur = []
            elif isinstance(t, fw.Sym) and t == ";":
                steps.append(cur)
            else:
                cur.append(t)
        R.corr_checked += 1
        if len(steps) != len(self.impl_steps):
            R.disagree("history: number of steps", case, len(steps), len(self.impl_steps))
            return
        for i, (ms, (code, st, frames)) in enumerate(zip(steps, self.impl_steps)):
            mcode = ms[0]
            mstate = (ms[1], ms[2], None if isinstance(ms[3], fw.Sym) else ms[3], None if isinstance(ms[4], fw.Sym) else ms[4], ms[5], ms[6])
            mframes, j = [], 7
            while j < len(ms):
                if ms[j] == "f":
                    mframes.append(ms[j + 2])
                    j += 3
                elif ms[j] == "closed":
                    j += 1
                else:
                    j += 2
            where = {**case, "step": i, "call": self.names[i], "calls": self.names}
            if self.names[i] == "get_module_info":
                mcode = code            # get_module_info wraps every failure into ResponseError: outside the model
            if mframes != frames:
                R.disagree("history: frames written by " + self.names[i], where, [f.hex()[:160] for f in mframes], [f.hex()[:160] for f in frames])
            if mstate != st:
                R.disagree("history: driver state after " + self.names[i], where, mstate, st)
            if mcode != code:
                R.disagree("history: how the call ended: " + self.names[i], where, mcode, code)
        # (b) oracle on the implementation: the observer of Spec/EncapTrace.v over the target's log
        obs = observe(self.tp, self.fs)
        bad, _ = check_trace(R, self.tp, obs, case, self.cmds, cls="history")
        # the same verdict from the extracted Coq observer (ties the Python oracle to Spec/EncapTrace.v)
        ans = fw.parse_line(mp.ask_raw("trace " + " ".join(obs_tokens(self.tp, obs, [min(c) if len(c) == 1 else None for c in self.cmds]))))
        coq_ok = str(ans[0]) == "ok"
        if coq_ok != (bad == 0):
            R.disagree("oracle: harness check_trace vs extracted Spec.EncapTrace.trace_check", case, ans, {"python_violations": bad})
        R.count("hist_frames", "n", len(self.fs.sent))


POLICIES = [
    ("large-fo", dict()),
    ("std-fo", dict(accept_large_fo=False)),
    ("no-fo", dict(accept_large_fo=False, accept_std_fo=False)),
    ("no-session", dict(accept_session=False)),
]
PATHS = [("192.168.1.10", None), ("192.168.1.10/bp/2", bytes([1, 2])), ("10.20.30.40/1/0", bytes([1, 0])),
         ("192.168.1.10/bp/1/enet/10.0.0.5/bp/3", None)]


def payload(rng, size_hint):
    r = rng.random()
    if r < 0.35:
        n = rng.randrange(0, 24)
    elif r < 0.7:
        n = rng.randrange(24, size_hint)
    elif r < 0.92:
        n = max(0, size_hint - rng.randrange(0, 40))
    else:
        n = size_hint + rng.randrange(1, 80)
    return rng.randbytes(n)


def run_histories(R, mp, tp, rng, n, long=False):
    for i in range(n):
        pname, pol = POLICIES[i % len(POLICIES)] if i < 4 * len(POLICIES) else rng.choice(POLICIES)
        path, route = rng.choice(PATHS)
        handle = rng.choice([1, 0xFFFFFFFF, 0xFFFFFFFE, 0x80000000, rng.randrange(1, 2 ** 32), rng.randrange(1, 2 ** 32), rng.randrange(1, 65536)])
        cid = rng.choice([0, 1, 0xFFFFFFFF, 0x80000000, rng.randrange(0, 2 ** 32), rng.randrange(0, 2 ** 32)])
        policy = dict(pol, session_handle=handle, conn_id=cid)
        if rng.random() < 0.3:
            policy["max_large_size"] = rng.choice([4002, 1000, 504])
        sc = Scenario(R, tp, rng, policy, path)
        case = {"scenario": i, "policy": pname, "path": path, "session_handle": handle, "conn_id": cid}
        R.count("hist_policy", pname)
        R.count("hist_path", path)
        if rng.random() < 0.15:                      # calls before open(): nothing may reach the socket
            rng.choice([lambda: sc.unconnected(service=0x4B, class_code=0x300, instance=1, request_data=b"x", route_path=False),
                        lambda: sc.connected(service=0x4B, class_code=0x300, instance=1, request_data=b"x"),
                        sc.list_identity, sc.close])()
        sc.open()
        steps = rng.randrange(3, 40 if long else 12)
        for _ in range(steps):
            size = 4000 if (pname == "large-fo" and sc.drv._cfg["extended forward open"]) else 500
            r = rng.random()
            if r < 0.38:
                sc.connected(service=rng.choice([0x4B, 0x4C, 0x4D, 0x0E, 0x10]), class_code=rng.choice([0x300, 0x301, 0x3FF, 0x77]),
                             instance=rng.choice([1, 7, 0x1234]), attribute=rng.choice([b"", 3]), request_data=payload(rng, size - 12))
            elif r < 0.68:
                rp = rng.choice([False, True, "bp/3", b"", b"\x01\x00\x01\x05"])
                sc.unconnected(service=rng.choice([0x4B, 0x4C, 0x0E, 0x01]), class_code=rng.choice([0x300, 0x01, 0x3FF]), instance=1,
                               request_data=payload(rng, 480), route_path=rp, unconnected_send=rng.random() < 0.5)
            elif r < 0.76:
                sc.list_identity()
            elif r < 0.84:
                sc.module_info(rng.randrange(0, 17))
            elif r < 0.94:
                if rng.random() < 0.3:               # the target refuses the Forward Close (0x4E): close() must still forget the connection
                    tp.inject(0, 0x4E, rng.choice([0x01, 0x08, 0x13]))
                    R.count("hist_op", "close-with-forward-close-refused")
                sc.close()
                if rng.random() < 0.8:
                    sc.open()
            else:
                sc.open()                            # open() on an open driver: no frame
        if rng.random() < 0.8:
            sc.close()
        R.case(("history", i, pname, path, tuple(sc.names)))
        R.count("hist_len", len(sc.names) // 5 * 5)
        sc.finish(mp, case)


def run_library_scenarios(R, tp, rng, n):
    """oracle only: the drivers' own multi-call entry points (LogixDriver.open with its identity /
    name queries, the list_identity classmethod, get_plc_time / set_plc_time, with-statement)"""
    import target as T
    from pycomm3 import CIPDriver, LogixDriver, SLCDriver
    for i in range(n):
        pname, pol = POLICIES[(i // 4) % len(POLICIES)]
        handle, cid = rng.randrange(1, 2 ** 32), rng.randrange(0, 2 ** 32)
        tp.reset()
        micro = rng.random() < 0.25
        tp.cfg(**dict(pol, session_handle=handle, conn_id=cid, plc_name=b"C11", **({"product_name": b"2080-LC50-24QWB"} if micro else {})))
        case = {"library_scenario": i, "policy": pname, "session_handle": handle, "conn_id": cid, "micro800": micro}
        kind = i % 4
        R.count("lib_scenario", ["LogixDriver", "list_identity-classmethod", "with-CIPDriver", "SLCDriver"][kind] + ":" + pname)
        try:
            if kind == 0:
                drv = T.open_driver(LogixDriver, "192.168.1.10", tp, open=False, init_tags=False, init_program_tags=False)
                fs = drv.fakesock
                try:
                    drv.open()
                    drv.get_plc_time()
                    drv.set_plc_time(rng.randrange(0, 2 ** 50))
                    drv.generic_message(service=0x4B, class_code=0x300, instance=1, request_data=payload(rng, 400))
                except Exception:  # noqa: BLE001  refused connections raise; frames written so far still count
                    pass
                try:
                    drv.close()
                except Exception:  # noqa: BLE001
                    pass
            elif kind == 1:
                with T.patched_socket(tp) as fs:
                    try:
                        CIPDriver.list_identity("192.168.1.10")
                    except Exception:  # noqa: BLE001
                        pass
            elif kind == 3:
                drv = SLCDriver("192.168.1.10")
                fs = T.attach(drv, tp)
                try:
                    drv.open()
                    drv.read("N7:0", "B3:1/2")           # the core target has no PCCC object: error replies, frames still count
                    drv.write(("N7:1", rng.randrange(0, 100)))
                except Exception:  # noqa: BLE001
                    pass
                try:
                    drv.close()
                except Exception:  # noqa: BLE001
                    pass
            else:
                drv = CIPDriver("192.168.1.10/bp/2")
                fs = T.attach(drv, tp)
                try:
                    with drv:
                        drv.generic_message(service=0x4C, class_code=0x300, instance=1, request_data=payload(rng, 400))
                        drv.generic_message(service=0x4C, class_code=0x300, instance=1, request_data=payload(rng, 400), connected=False, unconnected_send=True)
                except Exception:  # noqa: BLE001
                    pass
        except Exception as e:  # noqa: BLE001
            R.notes.append(f"library scenario {case}: {type(e).__name__}: {e}")
            continue
        R.case(("library", i, pname, kind))
        R.count("hist_frames", "n", len(fs.sent))
        check_driver(R, tp, fs, case, cls="library")


def oracle_selftest(R, mp, tp, rng):
    """the oracle must flag hand-corrupted frames (a quiet oracle is a harness defect, reported as a disagreement)"""
    hdr = lambda cmd, body, s=0x11223344, st=0, opt=0, ctx=CTX: struct.pack("<HHII8sI", cmd, len(body), s, st, ctx, opt) + body  # noqa: E731
    cpf = lambda at, ad, dt, d, cnt=2, extra=b"", to=10: struct.pack("<IHH", 0, to, cnt) + struct.pack("<HH", at, len(ad)) + ad + struct.pack("<HH", dt, len(d)) + d + extra  # noqa: E731
    good_rr = hdr(0x6F, cpf(0, b"", 0xB2, b"\x4b\x02\x20\x01\x24\x01"))
    good_ud = hdr(0x70, cpf(0xA1, struct.pack("<I", 0xCAFE0001), 0xB1, b"\x05\x00\x4b\x02\x20\x01\x24\x01"))
    tests = [
        ("good rr", good_rr, 0x11223344, None, None), ("good unit", good_ud, 0x11223344, 0xCAFE0001, None),
        ("length+1", good_rr[:2] + struct.pack("<H", len(good_rr) - 23) + good_rr[4:], 0x11223344, None, 3),
        ("trailing byte", good_rr + b"\0", 0x11223344, None, 3),
        ("status", hdr(0x6F, good_rr[24:], st=1), 0x11223344, None, 5), ("options", hdr(0x6F, good_rr[24:], opt=1), 0x11223344, None, 6),
        ("item count 3", hdr(0x6F, cpf(0, b"", 0xB2, b"ab", cnt=3)), 0x11223344, None, 22),
        ("data item length short", hdr(0x6F, cpf(0, b"", 0xB2, b"abcd")[:-1] + b""), 0x11223344, None, 29),
        ("data item length long", hdr(0x6F, cpf(0, b"", 0xB2, b"ab", extra=b"c")), 0x11223344, None, 30),
        ("address length 0 on 0xA1", hdr(0x70, cpf(0xA1, b"", 0xB1, b"\x01\x00ab")), 0x11223344, 1, 25),
        ("connected data without sequence", hdr(0x70, cpf(0xA1, b"\1\2\3\4", 0xB1, b"\x01")), 0x11223344, 0x04030201, 31),
        ("item types swapped", hdr(0x70, cpf(0, b"", 0xB2, b"\x01\x00")), 0x11223344, None, 32),
        ("register body twice", hdr(0x65, b"\x01\0\0\0\x01\0\0\0"), 0x11223344, None, 10),
        ("register version 2", hdr(0x65, b"\x02\0\0\0"), 0x11223344, None, 11),
        ("list identity with data", hdr(0x63, b"\0"), 0x11223344, None, 13),
        ("stale session", good_rr, 0x11223345, None, 200), ("zero session after registration", hdr(0x6F, good_rr[24:], s=0), 0x11223344, None, 200),
        ("stale connection id", good_ud, 0x11223344, 0xCAFE0002, 201), ("connection id without connection", good_ud, 0x11223344, None, 201),
        ("short header", good_rr[:23], 0x11223344, None, 2),
    ]
    for name, fr, sess, cid, want in tests:
        v = frame_verdict(tp.parseframe(fr), sess, cid)
        v2 = frame_verdict(_parse_model(mp, fr), sess, cid)
        got = None if v is None else v[0]
        R.count("oracle_selftest", "flagged" if got else "accepted")
        if got != want or (None if v2 is None else v2[0]) != want:
            R.disagree("oracle self-test: " + name, {"frame": fr}, {"target_parser": got, "c11_parser": None if v2 is None else v2[0]}, want)
    # command check
    if frame_verdict(tp.parseframe(good_rr), 0x11223344, None, {0x70}) is None:
        R.disagree("oracle self-test: command", {"frame": good_rr}, None, 202)


# ====================================================================== corpus
def load_corpus():
    out = []
    for p in sorted(glob.glob(os.path.join(fw.VERIF, "corpus", "C11", "*.json"))):
        j = json.load(open(p))
        for c in j.get("cases", []):
            out.append((os.path.basename(p), case_from_json(c)))
    return out


def boundary_cases():
    """the 16-bit length fields: largest payloads that fit, first that do not (DataError / CommError, no frame)"""
    cs = []
    for kind, limit in (("rr", 65535 - 16), ("unit", 65535 - 20 - 2)):
        for n in (limit - 1, limit, limit + 1, limit + 20, 65535, 65536):
            cs.append({"kind": kind, "seq": 0xABCD if kind == "unit" else None, "pver": None, "flags": None, "added": [bytes(n)],
                       "cid": b"\x01\x02\x03\x04" if kind == "unit" else None, "sess": 0xDEADBEEF, "ctx": CTX, "opt": 0, "times": 1})
    return cs


# ====================================================================== entry points
def run(R, escalate=False):
    import target as T
    logging.disable(logging.CRITICAL)
    thorough = R.tier == "thorough" or escalate
    rng = R.rng
    R.rule = ("pure: (request class, sequence, added chunks 0..3 of 0..5000 bytes incl. both parities and the 500/4000 windows, connection id, "
              "session, context, option, 1..3 builds) mostly inside the driver's domain + a malformed stream (None / ints / wrong lengths / "
              "out-of-range / repeated builds), the 16-bit length boundaries, _build_header and _build_common_packet_format alone, the real "
              "Generic* subclasses; histories: real CIPDriver calls (open / connected / UCMM / unconnected-send / list identity / "
              "get_module_info / close / re-open / calls while closed) against the reference target under the four policies with random "
              "session handles, connection ids, routes and payload sizes around the connection size; library scenarios (LogixDriver open, "
              "list_identity classmethod, with-statement, SLCDriver read/write). non-trivial = distinct canonical case")
    mp = fw.ModelProc("C11")
    tp = T.TargetProc("targetcore")
    try:
        oracle_selftest(R, mp, tp, rng)
        corpus = load_corpus()
        for name, c in corpus:
            R.count("corpus", name)
        run_pure(R, mp, [c for _, c in corpus], "corpus")
        run_pure(R, mp, boundary_cases() if thorough else boundary_cases()[1:9:2] + boundary_cases()[7:9], "boundary")
        n_valid, n_bad = (30000, 12000) if thorough else (2600, 1100)
        CH = 400
        for k in range(0, n_valid, CH):
            run_pure(R, mp, [gen_pure_case(rng, True) for _ in range(min(CH, n_valid - k))], "valid")
        for k in range(0, n_bad, CH):
            run_pure(R, mp, [gen_pure_case(rng, False) for _ in range(min(CH, n_bad - k))], "malformed")
        run_layout(R, mp, rng, 4000 if thorough else 500)
        run_subclasses(R, mp, rng, 3000 if thorough else 300)
        run_histories(R, mp, tp, rng, 2500 if thorough else 130, long=thorough)
        run_library_scenarios(R, tp, rng, 320 if thorough else 32)
    finally:
        mp.close()
        tp.close()
        logging.disable(logging.NOTSET)


def replay(R, rp):
    """re-run a recorded failing input (a pure case carries its arguments; histories re-run the generators)"""
    import target as T
    logging.disable(logging.CRITICAL)
    f = rp.get("failure", {})
    full = (f.get("case") or {}).get("full")
    mp = fw.ModelProc("C11")
    tp = T.TargetProc("targetcore")
    try:
        if isinstance(full, dict):
            run_pure(R, mp, [case_from_json(full)], "replay")
        else:
            mp.close()
            tp.close()
            mp = tp = None
            run(R, escalate=True)
    finally:
        if mp:
            mp.close()
        if tp:
            tp.close()
        logging.disable(logging.NOTSET)
