"""C07 — encodings are the CIP wire format.

Oracle (on the IMPLEMENTATION): the independent reference codec coq/Spec/Wire.v (+ Spec/WireFloat.v:
IEEE-754 through Flocq), extracted into bin/modelrun_c07, against the real `T.encode(v)` /
`T.decode(bytes)`:
  * every value the reference encodes must be encoded to exactly the reference bytes;
  * every byte string the reference decodes (with whatever follows) must be decoded to the same
    value and the same stream position; every byte string the reference refuses must be refused;
  * every documented CIP type code must resolve to a class of the documented width.
Correspondence: the shared codec model (bin/modelrun_codec, harness/codec_common.corr) runs on the
same cases, so a drift of Model/Codec.v from the code is reported under C07 as well.
"""
import json
import math
import os
import struct

import framework as fw
import codec_common as cc

EXTRA_MODELS = ["Codec"]

ASSUMPTIONS = [
    "Python values are the model's `val` terms (None/bool/int/float/str/bytes/list/tuple/dict); every NaN is one value "
    "(LREAL NaN payloads are checked separately, by bits, on the implementation alone)",
    "the reference codec is coq/Spec/Wire.v as extracted (ExtrOcamlBasic); types outside `wire_ty` (IPAddress, PCCC, STRINGI, "
    "identity objects, length-prefixed arrays, EPATH) have no reference and are only run through the model correspondence",
    "REAL: CPython's struct '<f' packing is compared with Flocq's binary_normalize (round to nearest even)",
]

ENC_DEV = {2: "bit-array-overlong"}

INT8 = ["SINT", "USINT"]
INT16 = ["INT", "UINT", "DATE", "ITIME"]
INT32 = ["DINT", "UDINT", "STIME", "TIME_OF_DAY", "FTIME", "TIME"]
INT64 = ["LINT", "ULINT", "LTIME"]
BITS = ["BYTE", "WORD", "DWORD", "LWORD", "ENGUNIT"]
STRS = ["STRING", "LOGIX_STRING", "SHORT_STRING", "STRING2", "STRINGN"]


def E(n):
    return ("elem", n)


# ------------------------------------------------------------------ the reference, through the co-process
class Ref:
    def __init__(self):
        self.p = fw.ModelProc("C07")
        self._wire = {}

    def close(self):
        self.p.close()

    def wire(self, tds):
        """{td: (wire_ty, 0)} for the given descriptors (cached)"""
        new = [td for td in dict.fromkeys(tds) if td not in self._wire]
        if new:
            outs = self.p.batch([" ".join(["wire"] + cc.ty_tokens(td)) for td in new])
            for i, td in enumerate(new):
                # "ERR": a name the reference does not know
                self._wire[td] = (outs[i].strip() == "1", 0)
        return self._wire

    def enc(self, cases):
        """[(spec bytes hex | None, enc_dev class)]"""
        lines = []
        for c in cases:
            tv = cc.ty_tokens(c[1]) + cc.val_tokens(c[2])
            lines.append(" ".join(["senc"] + tv))
            lines.append(" ".join(["encdev"] + tv))
        outs = self.p.batch(lines)
        res = []
        for i in range(len(cases)):
            ts = fw.parse_line(outs[2 * i])
            if str(ts[0]) == "ERR":
                raise RuntimeError("reference co-process cannot parse: " + lines[2 * i][:300])
            res.append((ts[1].hex() if str(ts[0]) == "ok" else None, int(outs[2 * i + 1])))
        return res

    def dec(self, cases):
        """[("ok", canon, pos) | ("bad",) | ("end",) | ("trunc",)]"""
        outs = self.p.batch([" ".join(["sdec"] + cc.ty_tokens(c[1]) + [fw.t_bytes(c[2])]) for c in cases])
        res = []
        for c, o in zip(cases, outs):
            ts = fw.parse_line(o)
            h = str(ts[0])
            if h == "ERR":
                raise RuntimeError("reference co-process cannot parse a dec line")
            if h == "ok":
                v, j = cc.parse_val_tokens(ts, 1)
                res.append(("ok", v, len(c[2]) - len(ts[j])))
            else:
                res.append((h,))
        return res


def short(x, n=300):
    s = repr(x)
    return s if len(s) <= n else s[:n] + "..."


def val_to_json(v):
    """a faithful JSON form of a Python value (tuples, None keys, bytes, floats, type classes kept apart)"""
    if isinstance(v, bool) or v is None or isinstance(v, (int, str)):
        return v
    if isinstance(v, float):
        return {"f": "nan" if v != v else v.hex()}
    if isinstance(v, (bytes, bytearray)):
        return {"b": bytes(v).hex()}
    if isinstance(v, list):
        return [val_to_json(x) for x in v]
    if isinstance(v, tuple):
        return {"t": [val_to_json(x) for x in v]}
    if isinstance(v, dict):
        return {"d": [[k, val_to_json(x)] for k, x in v.items()]}
    if isinstance(v, type):
        return {"c": v.__name__}
    raise ValueError(v)


def td_to_json(td):
    return [td_to_json(x) if isinstance(x, tuple) else x for x in td]


def case_json(c):
    return {"op": c[0], "type": " ".join(cc.ty_tokens(c[1])), "td": td_to_json(c[1]),
            "arg": {"b": bytes(c[2]).hex()} if c[0] == "dec" else val_to_json(c[2])}


# ------------------------------------------------------------------ the two oracles
PER_CLASS = 3      # failures kept per input class (all are counted in the `oracle_failures_by_class` histogram)


def report(R, what, case, observed, expected, cls):
    R.count("oracle_failures_by_class", cls)
    seen = R.__dict__.setdefault("_c07_seen", {})
    seen[cls] = seen.get(cls, 0) + 1
    if seen[cls] <= PER_CLASS:
        R.fail(what, case, observed, expected, cls)


def oracle_enc(R, ref, cases, impls, stream):
    specs = ref.enc(cases)
    for c, (sp, dev), im in zip(cases, specs, impls):
        kind = cc.ty_kind(c[1])
        R.count("oracle_enc_type", kind)
        if sp is None:
            R.count("enc_outside_reference", cc.outcome_class(im))
            continue
        R.count("oracle_enc", stream)
        R.evaluations += 1
        if im == ("ok", 0, sp):
            continue
        if im[0] in ("hang", "crash"):
            cls = "enc:" + im[0]
        else:
            cls = "enc:" + (ENC_DEV.get(dev, str(dev)) if dev else "reference-bytes")
        report(R, "encode differs from the reference codec", case_json(c), list(im), ["ok", 0, sp], cls)


def oracle_dec(R, ref, cases, impls, stream, devs):
    specs = ref.dec(cases)
    for c, sp, im in zip(cases, specs, impls):
        R.count("oracle_dec", stream)
        R.count("oracle_dec_ref", sp[0])
        R.evaluations += 1
        dev = devs[c[1]][1]
        if sp[0] == "ok":
            good = im == sp
        else:
            good = im[0] in ("err", "empty")
        if good:
            continue
        if im[0] in ("hang", "crash"):
            cls = "dec:" + im[0]
        elif sp[0] == "trunc":
            cls = "dec:unbounded-array-element-cut-short"
        else:
            cls = "dec:reference-value"
        exp = list(sp) if sp[0] == "ok" else ["rejected (%s)" % sp[0]]
        report(R, "decode differs from the reference codec", case_json(c), list(im), exp, cls)


def impl_view(c):
    """the call actually made on the implementation (and the model): DATE_AND_TIME's documented
    encoder takes (time, date) positionally, so a top-level 2-tuple value is passed as *args"""
    if c[0] == "enc" and c[1] == E("DATE_AND_TIME") and isinstance(c[2], tuple) and len(c[2]) == 2:
        return ("enca", c[1], c[2])
    return c


def run_cases(R, mp, ref, cases, stream, budget=0.5):
    """cases on wire types: implementation once, then model correspondence + reference oracle"""
    if not cases:
        return
    devs = ref.wire([c[1] for c in cases])
    views = [impl_view(c) for c in cases]
    impls = cc.run_impl(views, budget)
    cc.corr(R, mp, views, stream=stream, impl=impls)
    encs = [(c, im) for c, im in zip(cases, impls) if c[0] == "enc" and devs[c[1]][0]]
    decs = [(c, im) for c, im in zip(cases, impls) if c[0] == "dec" and devs[c[1]][0]]
    for c in cases:
        if not devs[c[1]][0]:
            R.count("no_reference_type", cc.ty_kind(c[1]))
    if encs:
        oracle_enc(R, ref, [c for c, _ in encs], [im for _, im in encs], stream)
    if decs:
        oracle_dec(R, ref, [c for c, _ in decs], [im for _, im in decs], stream, devs)


# ------------------------------------------------------------------ type codes
def oracle_codes(R, ref):
    import pycomm3.cip.data_types as dt
    ts = fw.parse_line(ref.p.ask_raw("codes"))
    n = ts[0]
    rows = [(ts[1 + 3 * i], str(ts[2 + 3 * i]), ts[3 + 3 * i]) for i in range(n)]
    samples = {"BOOL": True, "REAL": 1.5, "LREAL": 1.5}
    for code, name, width in rows:
        R.evaluations += 1
        R.count("codes", name)
        R.case(["code", code, name], nontrivial=True)
        try:
            T = dt.DataTypes.get_type(code) if code else getattr(dt, name)
        except Exception as e:
            R.fail("type code lookup raised", {"op": "codes", "code": code, "name": name}, type(e).__name__, name, f"codes:{name}:lookup")
            continue
        if T is None or not isinstance(T, type):
            R.fail("type code does not resolve to a class", {"op": "codes", "code": code, "name": name}, repr(T), name, f"codes:{name}:lookup")
            continue
        ok_name = T.__name__ == name or (name == "EPATH" and issubclass(T, dt.EPATH))
        if not ok_name or T.code != code:
            R.fail("type code resolves to another class", {"op": "codes", "code": code, "name": name}, [T.__name__, T.code], [name, code], f"codes:{name}:class")
            continue
        if width >= 0:
            if T.size != width:
                report(R, "class of a documented code reports another width", {"op": "codes", "code": code, "name": name}, T.size, width, f"codes:{name}:size")
            # the width actually produced / consumed
            try:
                if name == "DATE_AND_TIME":
                    b = T.encode(1, 2)
                elif name in BITS:
                    b = T.encode([False] * (8 * width))
                else:
                    b = T.encode(samples.get(name, 1))
                from io import BytesIO
                s = BytesIO(b + b"\xaa\xbb")
                T.decode(s)
                if len(b) != width or s.tell() != width:
                    R.fail("codec of a documented code uses another width", {"op": "codes", "code": code, "name": name}, [len(b), s.tell()], width, f"codes:{name}:codec-width")
            except Exception as e:
                R.fail("codec of a documented code raised on a plain value", {"op": "codes", "code": code, "name": name}, type(e).__name__, width, f"codes:{name}:codec")


# ------------------------------------------------------------------ generators
def bits_of_int(v, n):
    return [bool((v >> i) & 1) for i in range(n)]


def elementary_cases(R, thorough):
    rng = R.rng
    cases = []
    # 1-byte types: every value, every byte pattern
    for n in INT8:
        sg, w = cc.INT_NAMES[n]
        lo = -128 if sg else 0
        cases += [("enc", E(n), v) for v in range(lo - 1, lo + 257)]
        cases += [("dec", E(n), bytes([b])) for b in range(256)]
    cases += [("enc", E("BOOL"), v) for v in (True, False)]
    cases += [("dec", E("BOOL"), bytes([b])) for b in range(256)]
    cases += [("dec", E("BOOL"), bytes([b, 0x55])) for b in (0, 1, 2, 0x80, 0xFF)]
    cases += [("enc", E("BYTE"), bits_of_int(v, 8)) for v in range(256)]
    cases += [("dec", E("BYTE"), bytes([b])) for b in range(256)]
    # 2-byte types: every value / byte pattern in the thorough tier, a stride + boundaries otherwise
    step = 1 if thorough else 41
    for n in INT16:
        sg, w = cc.INT_NAMES[n]
        lo = -32768 if sg else 0
        vals = set(range(lo, lo + 65536, step)) | {lo - 1, lo, lo + 1, lo + 65534, lo + 65535, lo + 65536, 0, -1, 255, 256, 32767, 32768}
        cases += [("enc", E(n), v) for v in sorted(vals)]
        pats = set(range(0, 65536, step)) | {0, 1, 0xFF, 0x100, 0x7FFF, 0x8000, 0xFFFE, 0xFFFF, 0x00FF, 0xFF00, 0x8001}
        cases += [("dec", E(n), struct.pack("<H", p)) for p in sorted(pats)]
    for n in ("WORD", "ENGUNIT"):
        pats = set(range(0, 65536, step * 3)) | {0, 1, 0x8000, 0xFFFF, 0x00FF, 0xFF00, 0x0180, 0x8001}
        cases += [("enc", E(n), bits_of_int(p, 16)) for p in sorted(pats)]
        cases += [("dec", E(n), struct.pack("<H", p)) for p in sorted(pats)]
    # 4/8-byte integers and bit strings: boundaries, bit patterns, random
    k = 1500 if thorough else 120
    for n in INT32 + INT64:
        sg, w = cc.INT_NAMES[n]
        for _ in range(k):
            cases.append(("enc", E(n), cc.gen_int(rng, sg, w)))
            cases.append(("dec", E(n), bytes(rng.randrange(256) for _ in range(w)) if rng.random() < 0.6
                          else bytes([rng.choice([0, 0xFF, 0x80, 0x7F, 1])] * (w - 1) + [rng.choice([0, 0x7F, 0x80, 0xFF])])))
        for v in (-(1 << (8 * w - 1)) - 1, -(1 << (8 * w - 1)), (1 << (8 * w - 1)) - 1, 1 << (8 * w - 1), (1 << (8 * w)) - 1, 1 << (8 * w), -1, 0):
            cases.append(("enc", E(n), v))
    for n in ("DWORD", "LWORD"):
        w = cc.BITS_NAMES[n]
        for _ in range(k // 2):
            p = rng.getrandbits(8 * w) if rng.random() < 0.6 else 1 << rng.randrange(8 * w)
            cases.append(("enc", E(n), bits_of_int(p, 8 * w)))
            cases.append(("dec", E(n), p.to_bytes(w, "little")))
    return cases


def float_cases(R, thorough):
    rng = R.rng
    cases = []
    fl = list(cc.FLOATS_SPECIAL) + [cc.gen_float(rng) for _ in range(6000 if thorough else 700)]
    # neighbours of every binary32 boundary: min/max exponents, subnormal threshold, overflow threshold
    for s in (0x00000000, 0x00000001, 0x007FFFFF, 0x00800000, 0x7F7FFFFF, 0x3F800000, 0x33800000, 0x4B800000):
        x = struct.unpack("<f", struct.pack("<I", s))[0]
        nx = struct.unpack("<f", struct.pack("<I", min(s + 1, 0x7F7FFFFF)))[0]
        h = (x + nx) / 2
        for y in (x, nx, h, math.nextafter(h, math.inf), math.nextafter(h, -math.inf), math.nextafter(x, -math.inf), math.nextafter(x, math.inf)):
            fl += [y, -y]
    for x in fl:
        x = float("nan") if x != x else x
        cases.append(("enc", E("REAL"), x))
        cases.append(("enc", E("LREAL"), x))
    pats32 = [0, 1, 0x80000000, 0x007FFFFF, 0x00800000, 0x7F7FFFFF, 0x7F800000, 0xFF800000, 0x7FC00000, 0x7F800001, 0xFFC00001,
              0x7FFFFFFF, 0x3F800000, 0x00000100, 0x80000003, 0x00400000]
    pats32 += [rng.getrandbits(32) for _ in range(3000 if thorough else 400)]
    pats32 += [(rng.getrandbits(1) << 31) | rng.getrandbits(23) for _ in range(200)]          # subnormals
    cases += [("dec", E("REAL"), struct.pack("<I", p)) for p in pats32]
    pats64 = [0, 1, 1 << 63, 0x000FFFFFFFFFFFFF, 0x0010000000000000, 0x7FEFFFFFFFFFFFFF, 0x7FF0000000000000, 0xFFF0000000000000,
              0x7FF8000000000000, 0x7FF0000000000001, 0xFFF8000000000001, 0x7FFFFFFFFFFFFFFF, 0x3FF0000000000000]
    pats64 += [rng.getrandbits(64) for _ in range(3000 if thorough else 400)]
    cases += [("dec", E("LREAL"), struct.pack("<Q", p)) for p in pats64]
    return cases, pats64


def string_cases(R, thorough):
    rng = R.rng
    cases = []
    for n in ("STRING", "LOGIX_STRING", "SHORT_STRING", "STRING2", "STRINGN"):
        lim = {"SHORT_STRING": 255, "STRING": 65535, "STRING2": 65535, "STRINGN": 65535, "LOGIX_STRING": 1 << 32}[n]
        lens = list(range(0, 40)) + [127, 128, 254, 255, 256, 257, 300]
        if n != "LOGIX_STRING":
            lens += [lim - 1, lim, lim + 1] if lim < 70000 else []
        for ln in lens:
            if ln > 1000 and not thorough and n in ("STRING2", "STRINGN") and ln != lim:
                continue
            kinds = ["latin1", "ascii"] + (["bmp"] if n in ("STRING2", "STRINGN") else [])
            for kd in kinds:
                if ln > 1000 and kd != "ascii":
                    continue
                cases.append(("enc", E(n), cc.gen_text(rng, ln, kd)))
        cases.append(("enc", E(n), "\U0001F600"))
        cases.append(("enc", E(n), "Āb"))
        # byte strings: prefix values around what is available
        for _ in range(400 if thorough else 60):
            body = bytes(rng.randrange(32, 127) if rng.random() < 0.7 else rng.randrange(256) for _ in range(rng.choice([0, 1, 2, 3, 5, 8, 16, 40])))
            cnt = max(0, len(body) + rng.choice([-2, -1, 0, 0, 0, 1, 2]))
            if n == "STRING2":
                cnt = max(0, len(body) // 2 + rng.choice([-1, 0, 0, 1]))
            pre = {"SHORT_STRING": lambda c: bytes([c & 0xFF]), "STRING": lambda c: struct.pack("<H", c), "STRING2": lambda c: struct.pack("<H", c),
                   "LOGIX_STRING": lambda c: struct.pack("<I", c),
                   "STRINGN": lambda c: struct.pack("<HH", rng.choice([1, 1, 1, 2, 4, 0, 3]), c)}[n](cnt)
            cases.append(("dec", E(n), pre + body))
        cases.append(("dec", E(n), b""))
    return cases


def composite_cases(R, thorough, ref, want):
    """random type terms the reference defines, with documented-domain values, junk values, random
    bytes and every truncation of valid encodings"""
    rng = R.rng
    cases = []
    tds = []
    tries = 0
    while len(tds) < want and tries < want * 30:
        tries += 1
        r = rng.random()
        if r < 0.35:
            td = cc.gen_stag(rng, rng.choice([1, 2, 3]), wild=False)
        elif r < 0.45:
            td = cc.gen_fixed_type(rng, 3)
        elif r < 0.5:
            size = rng.choice([1, 2, 4, 8, 16, 82])
            td = ("fss", size, rng.choice(["UDINT", "UINT", "USINT"]), rng.choice([None, size, max(0, size - 1), max(0, size - 2)]))
        else:
            td = cc.gen_type(rng, depth=rng.choice([1, 2, 3, 4]), wild=False)
        if ref.wire([td])[td][0]:
            tds.append(td)
        else:
            R.count("generated_type_without_reference", cc.ty_kind(td))
    R.count("composite_types", "generated", len(tds))
    for td in tds:
        T = cc.ty_build(td)
        vals = []
        for _ in range(3):
            try:
                vals.append(cc.gen_value(rng, td, big=False))
            except Exception:
                pass
        for v in vals:
            if cc.modelable(v):
                cases.append(("enc", td, v))
        if rng.random() < 0.3:
            vb = cc.gen_bad_value(rng, td)
            if cc.modelable(vb) and not (isinstance(vb, str) and any(ord(ch) > 255 for ch in vb) and td[0] == "nbytes"):
                cases.append(("enc", td, vb))
        # byte strings: valid encodings + tail, their truncations, random bytes
        for v in vals[:2]:
            try:
                b = T.encode(v)
            except Exception:
                continue
            if not isinstance(b, (bytes, bytearray)):
                continue
            b = bytes(b)
            if len(b) > 600:
                continue
            cases.append(("dec", td, b))
            cases.append(("dec", td, b + bytes(rng.randrange(256) for _ in range(rng.choice([1, 2, 5])))))
            for t in cc.truncations(b, limit=12 if not thorough else 40, rng=rng)[: (40 if thorough else 12)]:
                cases.append(("dec", td, t))
        for _ in range(2):
            cases.append(("dec", td, cc.random_bytes(rng)))
        w = cc.fixed_width(td)
        if w is not None and 0 < w <= 400:
            cases.append(("dec", td, bytes(rng.randrange(256) for _ in range(w))))
            cases.append(("dec", td, bytes(rng.randrange(256) for _ in range(w + 3))))
    return cases


def targeted_cases():
    """the layouts the property names, spelled out (also the corpus of deviations)"""
    S = lambda *ms: ("struct", tuple(ms))
    cases = []
    # arrays = concatenation; over-long input truncated
    cases.append(("enc", ("arr", 3, E("INT")), [1, -2, 3]))
    cases.append(("enc", ("arr", 3, E("INT")), [1, -2, 3, 4]))
    cases.append(("enc", ("arr", 2, E("DWORD")), [True] * 33 + [False] * 31))
    cases.append(("enc", ("arr", 1, E("BYTE")), [True] * 16))
    cases.append(("dec", ("arr", 2, E("WORD")), bytes([1, 0x80, 0xFF, 0, 9])))
    cases.append(("enc", ("arrall", E("WORD")), [True] * 16 + [False] * 16))
    cases.append(("dec", ("arrall", E("WORD")), bytes([1, 0x80, 0xFF, 0])))
    cases.append(("dec", ("arrall", E("UINT")), bytes([1, 0, 2, 0, 3])))
    cases.append(("dec", ("arrall", S(("a", E("UINT")), ("b", E("UINT")))), bytes([1, 0, 2, 0, 3, 0])))
    cases.append(("dec", ("arrall", E("STRING")), bytes([1, 0, 65, 2, 0])))
    cases.append(("enc", ("arr", 2, ("nbytes", 1)), [b"a", b"b"]))
    cases.append(("dec", ("arr", 2, ("nbytes", 1)), b"ab"))
    cases.append(("enc", ("arrall", ("nbytes", 2)), [b"ab", b"cd"]))
    cases.append(("dec", ("arrall", ("nbytes", 2)), b"abcd"))
    # structures
    st = S(("n", E("UINT")), (None, E("SINT")), ("s", E("STRING")), ("r", E("REAL")))
    cases.append(("enc", st, [513, -1, "ab", 0.1]))
    cases.append(("enc", st, {"n": 513, None: -1, "s": "ab", "r": 0.1}))
    cases.append(("dec", st, bytes([1, 2, 255, 2, 0, 97, 98, 205, 204, 204, 61, 7])))
    # FixedSizeString
    for v in ("", "abc", "abcdefgh", "abcdefghij", "é\xff"):
        cases.append(("enc", ("fss", 8, "UDINT", None), v))
        cases.append(("enc", ("fss", 8, "UDINT", 6), v))
    cases.append(("dec", ("fss", 4, "UDINT", None), bytes([2, 0, 0, 0, 65, 66, 67, 68, 9])))
    cases.append(("dec", ("fss", 4, "UDINT", None), bytes([9, 0, 0, 0, 65, 66, 67, 68])))
    cases.append(("dec", ("fss", 4, "UDINT", None), bytes([2, 0, 0, 0, 65, 66])))
    cases.append(("dec", ("fss", 4, "UDINT", None), bytes([0xFF, 0xFF, 0xFF, 0xFF, 65, 66, 67, 68])))
    # StructTag: members at offsets, padding, hidden host with bits, bit over a visible host
    tg = ("stag", (("a", 0, E("INT")), ("ZZZZZZZZZZh", 4, E("SINT")), ("d", 8, E("DINT"))), (("b0", 4, 0), ("b7", 4, 7)), ("ZZZZZZZZZZh",), 12)
    cases.append(("enc", tg, {"a": 0x0102, "d": -2, "b0": True, "b7": True}))
    cases.append(("enc", tg, {"a": 0x0102, "d": -2, "b0": False, "b7": True, "extra": 1}))
    cases.append(("dec", tg, bytes([2, 1, 0xAA, 0xBB, 0x81, 0xCC, 0xDD, 0xEE, 0xFE, 0xFF, 0xFF, 0xFF, 0x77])))
    cases.append(("dec", tg, bytes([2, 1, 0xAA, 0xBB, 0x81, 0xCC, 0xDD, 0xEE, 0xFE, 0xFF, 0xFF])))
    tv = ("stag", (("w", 0, E("INT")),), (("lo", 0, 0), ("hi", 1, 7)), (), 2)
    cases.append(("enc", tv, {"w": 2, "lo": True, "hi": True}))
    cases.append(("enc", tv, {"w": 0x7FFF, "lo": False, "hi": False}))
    cases.append(("dec", tv, bytes([3, 0x80])))
    tp = ("stag", (("x", 0, E("DINT")),), (), (), 8)
    cases.append(("dec", tp, bytes([1, 0, 0, 0])))
    cases.append(("dec", tp, bytes([1, 0, 0, 0, 0, 0, 0, 0])))
    to = ("stag", (("b", 4, E("DINT")), ("a", 0, E("DINT"))), (), (), 8)
    cases.append(("enc", to, {"a": 1, "b": 2}))
    cases.append(("dec", to, bytes([1, 0, 0, 0, 2, 0, 0, 0])))
    # DATE_AND_TIME, STRING2, STRINGN
    cases.append(("enc", E("DATE_AND_TIME"), (1, 2)))
    cases.append(("dec", E("DATE_AND_TIME"), bytes([1, 0, 0, 0, 2, 0, 9, 9])))
    cases.append(("dec", E("STRING2"), bytes([3, 0, 97, 0, 98, 0, 99, 0])))
    cases.append(("dec", E("STRING2"), bytes([0, 0, 1])))
    cases.append(("enc", E("STRINGN"), ""))
    cases.append(("dec", E("STRINGN"), bytes([1, 0, 0, 0])))
    cases.append(("dec", E("STRINGN"), bytes([2, 0, 2, 0, 97, 0, 98, 0])))
    cases.append(("enc", E("STRINGN"), "é"))
    for n in ("STRING2",):
        cases.append(("enc", E(n), "a\U0001F600b"))
        cases.append(("enc", E(n), "\ud800"))
        cases.append(("dec", E(n), bytes([2, 0, 0x3D, 0xD8, 0x00, 0xDE, 7])))       # a surrogate pair = two units
        cases.append(("dec", E(n), bytes([1, 0, 0x3D, 0xD8])))                       # a lone high surrogate
        cases.append(("dec", E(n), bytes([1, 0, 0x00, 0xDE])))                       # a lone low surrogate
        cases.append(("dec", E(n), bytes([2, 0, 0x3D, 0xD8, 0x41, 0x00])))           # high surrogate + ordinary unit
    cases.append(("dec", E("STRINGN"), bytes([2, 0, 2, 0, 0x3D, 0xD8, 0x00, 0xDE])))
    cases.append(("dec", E("STRINGN"), bytes([2, 0, 1, 0, 0x3D, 0xD8])))
    cases.append(("dec", E("STRINGN"), bytes([4, 0, 1, 0, 0x00, 0xF6, 0x01, 0x00])))
    cases.append(("dec", E("STRINGN"), bytes([4, 0, 1, 0, 0x00, 0xD8, 0x00, 0x00])))
    cases.append(("dec", E("STRINGN"), bytes([4, 0, 1, 0, 0x00, 0x00, 0x11, 0x00])))
    cases.append(("dec", E("STRINGN"), bytes([3, 0, 1, 0, 65, 66, 67])))
    cases.append(("dec", E("STRINGN"), bytes([1, 0, 1, 0, 0xE9])))
    # n_bytes
    cases.append(("enc", ("nbytes", 3), b"abc"))
    cases.append(("dec", ("nbytes", 3), b"ab"))
    cases.append(("dec", ("nbytes", -1), b"abcd"))
    cases.append(("dec", ("nbytes", -1), b""))
    return cases


def nan_payload_oracle(R, pats64):
    """LREAL: the decoded value is the binary64 datum with exactly the given bits (NaN payloads
    included); checked on the implementation alone (the model identifies all NaNs)"""
    import pycomm3.cip.data_types as dt
    for p in pats64:
        b = struct.pack("<Q", p)
        R.evaluations += 1
        try:
            v = dt.LREAL.decode(b)
            back = struct.pack("<d", v)
        except Exception as e:
            R.fail("LREAL.decode raised on an 8-byte pattern", {"op": "lreal-bits", "arg": {"b": b.hex()}}, type(e).__name__, "a float", "dec:LREAL:bits")
            continue
        if back != b:
            R.fail("LREAL.decode does not preserve the IEEE bits", {"op": "lreal-bits", "arg": {"b": b.hex()}}, back, b, "dec:LREAL:bits")
        try:
            e = dt.LREAL.encode(v)
        except Exception as ex:
            R.fail("LREAL.encode raised on a decoded value", {"op": "lreal-bits", "arg": {"b": b.hex()}}, type(ex).__name__, b, "enc:LREAL:bits")
            continue
        if e != b:
            R.fail("LREAL.encode does not emit the IEEE bits", {"op": "lreal-bits", "arg": {"b": b.hex()}}, e, b, "enc:LREAL:bits")
    R.count("nan_payload_patterns", "LREAL", len(pats64))


# ------------------------------------------------------------------ corpus
def corpus_cases():
    d = os.path.join(fw.VERIF, "corpus", "C07")
    out = []
    if os.path.isdir(d):
        for fn in sorted(os.listdir(d)):
            if fn.endswith(".json"):
                for e in json.load(open(os.path.join(d, fn))):
                    out.append(case_of_json(e))
    return out


def _untuple(x):
    return tuple(_untuple(y) for y in x) if isinstance(x, list) else x


def case_of_json(e):
    td = _untuple(e["td"])
    arg = e["arg"]
    if e["op"] == "dec":
        return ("dec", td, bytes.fromhex(arg["b"]))
    return ("enc", td, val_of_json(arg))


def val_of_json(a):
    if isinstance(a, dict):
        if set(a) == {"b"}:
            return bytes.fromhex(a["b"])
        if set(a) == {"f"}:
            return float("nan") if a["f"] == "nan" else float.fromhex(a["f"])
        if set(a) == {"t"}:
            return tuple(val_of_json(x) for x in a["t"])
        if set(a) == {"d"}:
            return {k: val_of_json(v) for k, v in a["d"]}
        if set(a) == {"c"}:
            return getattr(cc._dt(), a["c"])
        raise ValueError(a)
    if isinstance(a, list):
        return [val_of_json(x) for x in a]
    return a


# ------------------------------------------------------------------ entry points
def run(R, escalate=False):
    thorough = R.tier == "thorough" or escalate
    R.rule = ("reference codec (Spec/Wire.v, Flocq floats) vs the real T.encode / T.decode: 1-byte types exhaustively (values and byte "
              "patterns), 2-byte types exhaustively (thorough) or strided + boundaries (quick), 4/8-byte integers and bit strings at "
              "boundaries / bit patterns / random, REAL and LREAL incl. NaN, infinities, denormals, binary32 halfway cases and the overflow "
              "threshold, strings around every prefix limit, arrays, nested structs, StructTag templates with padding / hidden hosts / bit "
              "members, FixedSizeString with capacity, random byte strings, every truncation of valid encodings, the CIP type-code table; "
              "non-trivial = distinct (operation, type, argument) run through model and implementation")
    mp = fw.ModelProc("Codec")
    ref = Ref()
    try:
        oracle_codes(R, ref)
        run_cases(R, mp, ref, corpus_cases(), "corpus")
        run_cases(R, mp, ref, targeted_cases(), "targeted")
        run_cases(R, mp, ref, elementary_cases(R, thorough), "elementary")
        fc, pats64 = float_cases(R, thorough)
        run_cases(R, mp, ref, fc, "floats")
        nan_payload_oracle(R, pats64)
        run_cases(R, mp, ref, string_cases(R, thorough), "strings", budget=2.0)
        rounds = 12 if thorough else 1
        for _ in range(rounds):
            run_cases(R, mp, ref, composite_cases(R, thorough, ref, 900 if thorough else 450), "composite")
    finally:
        mp.close()
        ref.close()


def replay(R, rp):
    f = rp.get("failure") or rp
    c = f.get("case", f)
    mp = fw.ModelProc("Codec")
    ref = Ref()
    try:
        if c.get("op") == "codes":
            oracle_codes(R, ref)
        elif c.get("op") == "lreal-bits":
            nan_payload_oracle(R, [int.from_bytes(bytes.fromhex(c["arg"]["b"]), "little")])
        else:
            run_cases(R, mp, ref, [case_of_json(c)], "replay")
    finally:
        mp.close()
        ref.close()
