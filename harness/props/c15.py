"""C15 — connection-path strings parse to the documented route.

Correspondence: Model/ConnPath.v (extracted) vs the real pycomm3 `parse_connection_path`,
`parse_cip_route`, `PADDED_EPATH.encode` of the route (plain, + MSG_ROUTER_PATH, get_module_info form)
and the constructors of CIPDriver / LogixDriver / SLCDriver, on grammar-generated strings in several
spellings, constructed members of every rejection class, all single-character edits of valid
strings, and a free malformed stream.

Oracle on the IMPLEMENTATION (no model involved): the harness renders each string from a route AST
and computes host, TCP port and the reference wire form of the route itself (CIP Vol 1 C-1.4.1 port
segments); the Coq Spec (Spec/ConnPathGrammar.v: `render`, `route_wire`, total reference reader
`ref_parse`) is asked for the same and must agree with the harness (else the specification itself is
inconsistent -> reported as a disagreement).  For arbitrary strings (edits, malformed) the reference
reader gives one of: must-accept(host, port, wire) / must-reject(class) / silent(parts defined).
Demanded: must-accept -> exactly those values; must-reject -> RequestError at parse or DataError at
encode and no bytes; silent -> nothing, except that IF the string is accepted, the parts the
reference defines (host; TCP port; route bytes) are the reference ones ("never a different route
silently")."""
import json
import os

import framework as fw

ASSUMPTIONS = [
    "ASCII strings (str.isdigit/isnumeric/int() on non-ASCII digits and blanks are outside the model and the generators)",
    "ipaddress.ip_address modelled as a strict dotted-quad recogniser; link texts with ':' (IPv6) are a silent zone of the "
    "reference and are kept out of the correspondence when they contain two or more ':'",
    "host names are opaque: any text without / \\ , : (the empty string included)",
    "the property is silent on: TCP numerals with '+', '_' or blanks around; CIP port number 0 or > 65535; decimal numerals "
    "longer than the interpreter's 4300-digit limit; 'address/address' under the slot shortcut; routes longer than 255 words",
    "sys.get_int_max_str_digits() == 4300 (CPython default)",
]

SEPS = "/\\,"
DOC_PORTS = {"backplane": 1, "bp": 1, "enet": 2, "dhrio-a": 2, "dhrio-b": 3, "dnet": 2, "cnet": 2,
             "dh485-a": 2, "dh485-b": 3}
ALIASES = {}
for _k, _v in DOC_PORTS.items():
    ALIASES.setdefault(_v, []).append(_k)
TCP_DEFAULT = 44818
RCLASS = {1: "odd_segments", 2: "unknown_port_name", 3: "link_out_of_range", 4: "malformed_link", 5: "bad_tcp_port"}
EXC_CODES = {"TypeError": 10, "ValueError": 11, "KeyError": 12, "IndexError": 13, "error": 14, "OverflowError": 15,
             "AttributeError": 16, "StopIteration": 17, "UnicodeEncodeError": 18, "UnicodeError": 18,
             "ZeroDivisionError": 19, "NotImplementedError": 20}


# ------------------------------------------------------------------ harness-side reference (independent of Coq)
def ref_link_bytes(link):
    kind, v = link
    return bytes([v]) if kind == "s" else v.encode("ascii")


def ref_hop_bytes(port, link):
    lb = ref_link_bytes(link)
    big = len(lb) > 1
    flag = 0x10 if big else 0
    size = bytes([len(lb)]) if big else b""
    if port < 15:
        body = bytes([port | flag]) + size + lb
    else:  # extended port identifier: 0x0F, then the 16-bit port number after the optional size byte
        body = bytes([0x0F | flag]) + size + port.to_bytes(2, "little") + lb
    return body + (b"\x00" if len(body) % 2 else b"")


def ref_wire(hops, pl):
    b = b"".join(ref_hop_bytes(p, l) for p, l in hops)
    return bytes([len(b) // 2]) + (b"\x00" if pl else b"") + b


def hops_of(ast, auto):
    kind, v = ast["shape"]
    if kind == "E":
        return ([(1, ("s", 0))] if auto else []) if not v else list(v)
    return [(1, ("s", v))] if auto else None


def render(ast, sp):
    out = ast["host"]
    if ast["tcp"] is not None:
        out += ":" + "0" * sp["tcp_zeros"] + str(ast["tcp"])
    kind, v = ast["shape"]
    if kind == "E":
        for (port, link), (s1, psp, s2, lz) in zip(v, sp["hops"]):
            out += s1 + (psp[1] if psp[0] == "a" else "0" * psp[1] + str(port)) + s2
            out += ("0" * lz + str(link[1])) if link[0] == "s" else link[1]
    else:
        out += sp["slot_sep"] + "0" * sp["slot_zeros"] + str(v)
    return out


def ast_tokens(ast, sp):
    t = [fw.t_text(ast["host"]), fw.t_int(-1 if ast["tcp"] is None else ast["tcp"]), fw.t_int(sp["tcp_zeros"])]
    kind, v = ast["shape"]
    if kind == "E":
        t += ["E", fw.t_int(len(v))]
        for (port, link), (s1, psp, s2, lz) in zip(v, sp["hops"]):
            t += [fw.t_int(port), link[0], fw.t_int(link[1]) if link[0] == "s" else fw.t_text(link[1]),
                  fw.t_int(ord(s1)), psp[0], fw.t_text(psp[1]) if psp[0] == "a" else fw.t_int(psp[1]),
                  fw.t_int(ord(s2)), fw.t_int(lz)]
    else:
        t += ["S", fw.t_int(v), fw.t_int(ord(sp["slot_sep"])), fw.t_int(sp["slot_zeros"])]
    return t


def cmd_line(cmd, s, *args):
    """`cmd <text s> args` - a long run of one character is sent run-length encoded (ExC15 `long`)"""
    if len(s) > 300:
        best, i = (0, 0, ""), 0
        while i < len(s):
            j = i
            while j < len(s) and s[j] == s[i]:
                j += 1
            if j - i > best[0]:
                best = (j - i, i, s[i])
            i = j
        n, i, c = best
        if n > 100:
            return " ".join(["long", str(n), str(ord(c)), cmd, fw.t_text(s[:i]), fw.t_text(s[i + n:])] + [str(a) for a in args])
    return " ".join([cmd, fw.t_text(s)] + [str(a) for a in args])


# ------------------------------------------------------------------ generators
def gen_quad(rng):
    pick = lambda: rng.choice([0, 1, 9, 10, 99, 100, 199, 200, 249, 250, 255, rng.randrange(256), rng.randrange(256)])
    return ".".join(str(pick()) for _ in range(4))


HOST_CHARS = "abcdefghijklmnopqrstuvwxyzABCDEFGHIJKLMNOPQRSTUVWXYZ0123456789-_."


def gen_host(rng):
    r = rng.random()
    if r < 0.6:
        return gen_quad(rng)
    if r < 0.9:
        return "".join(rng.choice(HOST_CHARS) for _ in range(rng.randrange(1, 12)))
    if r < 0.95:
        return "".join(chr(rng.choice([32, 33, 35, 43, 45, 59, 61, 64, 91, 95, 126] + list(range(48, 58)))) for _ in range(rng.randrange(0, 6)))
    return rng.choice(["bp", "0", "1", "localhost", "plc-1.plant.example"])


def gen_port_number(rng, big):
    if big:
        return rng.choice([15, 16, 17, 31, 32, 33, 100, 128, 145, 255, 256, 257, 4095, 65535, rng.randrange(15, 256), rng.randrange(256, 65536)])
    return rng.choice([1, 2, 3, 4, 7, 8, 13, 14, rng.randrange(1, 15)])


def gen_link(rng):
    if rng.random() < 0.65:
        return ("s", rng.choice([0, 1, 2, 9, 10, 16, 99, 100, 127, 128, 254, 255, rng.randrange(256), rng.randrange(256)]))
    return ("a", gen_quad(rng))


def gen_ast(rng, max_hops, big_ports=False):
    tcp = None
    if rng.random() < 0.45:
        tcp = rng.choice([1, 2, 80, 443, 2222, 44818, 65533, 65534, rng.randrange(1, 65535), rng.randrange(1, 65535)])
    if rng.random() < 0.12:
        return {"host": gen_host(rng), "tcp": tcp, "shape": ("S", rng.choice([0, 1, 2, 9, 10, 17, 255, rng.randrange(256)]))}
    n = rng.choice([0, 1, 1, 2, 2, 3, 4] + ([max_hops] if max_hops > 4 else []))
    hops = []
    for _ in range(n):
        r = rng.random()
        if big_ports and r < 0.5:
            port = gen_port_number(rng, True)
        elif r < 0.7:
            port = rng.choice([1, 1, 1, 2, 2, 3])
        else:
            port = gen_port_number(rng, False)
        hops.append((port, gen_link(rng)))
    return {"host": gen_host(rng), "tcp": tcp, "shape": ("E", hops)}


def gen_spelling(rng, ast, style=None):
    zeros = lambda: rng.choice([0, 0, 0, 1, 2, 3])
    hs = []
    if ast["shape"][0] == "E":
        for port, link in ast["shape"][1]:
            names = ALIASES.get(port, [])
            if style == "numeric" or not names or rng.random() < 0.3:
                psp = ("n", 0 if style == "numeric" else zeros())
            else:
                psp = ("a", rng.choice(names))
            seps = (style, style) if style in ("/", "\\", ",") else (rng.choice(SEPS), rng.choice(SEPS))
            hs.append((seps[0], psp, seps[1], zeros() if link[0] == "s" and style != "numeric" else 0))
    return {"tcp_zeros": zeros(), "hops": hs, "slot_sep": style if style in ("/", "\\", ",") else rng.choice(SEPS),
            "slot_zeros": zeros()}


EDIT_ALPHABET = ["/", "\\", ",", ":", ".", "0", "1", "5", "9", "a", "b", "p", "B", "x", " ", "+", "-", "_", "\t", "\x00", "\x7f", ";", "\x1c"]


def single_edits(s, rng, full):
    out = []
    for i in range(len(s)):
        out.append(("del", s[:i] + s[i + 1:]))
    alpha = EDIT_ALPHABET if full else EDIT_ALPHABET[:18]
    for i in range(len(s) + 1):
        for c in alpha:
            out.append(("ins", s[:i] + c + s[i:]))
            if i < len(s) and s[i] != c:
                out.append(("rep", s[:i] + c + s[i + 1:]))
    for i in range(len(s) - 1):
        out.append(("swap", s[:i] + s[i + 1] + s[i] + s[i + 2:]))
    return out


def rejection_members(rng, ast, sp):
    """members of each rejection class built from a valid (ast, spelling): (class, string)"""
    s = render(ast, sp)
    out = []
    sep = rng.choice(SEPS)
    kind, v = ast["shape"]
    if kind == "E":
        # odd number of segments: a dangling port / link / empty segment
        out.append(("odd_segments", s + sep + rng.choice(["bp", "1", "enet", "", "10.0.0.9"])))
        if v:
            out.append(("odd_segments", s + sep))
            i = rng.randrange(len(v))
            # unknown port name at hop i
            bad_names = ["BP", "Bp", "backplan", "backplanes", "bp ", " bp", "", "enet2", "net", "+1", "-1", " 1", "1 ", "1.0",
                         "0x1", "one", "b-p", "dhrio", "dhrio-c", "ENET"]
            for bn in rng.sample(bad_names, 4):
                v2 = list(v)
                sp2 = dict(sp, hops=list(sp["hops"]))
                s1, _, s2, lz = sp2["hops"][i]
                sp2["hops"][i] = (s1, ("a", bn), s2, lz)
                out.append(("unknown_port_name", render(ast, sp2)))
            # link out of range / malformed at hop i
            for bl, cls in rng.sample([("256", "link_out_of_range"), ("0256", "link_out_of_range"), ("999", "link_out_of_range"),
                                       ("65536", "link_out_of_range"), ("-1", "malformed_link"), ("+1", "malformed_link"),
                                       ("1.2.3", "malformed_link"), ("1.2.3.256", "malformed_link"), ("01.2.3.4", "malformed_link"),
                                       ("1.2.3.4.5", "malformed_link"), ("1..3.4", "malformed_link"), ("1.2.3.4 ", "malformed_link"),
                                       ("a", "malformed_link"), ("", "malformed_link"), ("1 ", "malformed_link"), ("0x10", "malformed_link"),
                                       ("1_0", "malformed_link"), ("1.2.3.0004", "malformed_link")], 5):
                a2 = dict(ast, shape=("E", list(v)))
                a2["shape"][1][i] = (v[i][0], ("a", bl))
                out.append((cls, render(a2, sp)))
    else:
        for bl, cls in [("256", "link_out_of_range"), ("1000", "link_out_of_range"), ("-1", "malformed_link"), ("", "malformed_link"), ("x", "malformed_link")]:
            out.append(("slot:" + cls, ast["host"] + (":" + str(ast["tcp"]) if ast["tcp"] is not None else "") + sp["slot_sep"] + bl))
    # invalid TCP port
    rest = s[len(ast["host"]) + (0 if ast["tcp"] is None else 1 + sp["tcp_zeros"] + len(str(ast["tcp"]))):]
    for bp in rng.sample(["0", "00", "65535", "65536", "99999", "-1", "-0", "-80", "abc", "", "80a", "1:2", ":", "0x50", "80.", "1e3", "4.5",
                          "655350", "+", "_", "- 80", "8-0", "80-", "8;0"], 6):
        out.append(("bad_tcp_port", ast["host"] + ":" + bp + rest))
    return out


# ------------------------------------------------------------------ implementation side
def exc_code(e):
    from pycomm3.exceptions import DataError, RequestError
    if isinstance(e, RequestError):
        return 4
    if isinstance(e, DataError):
        return 1
    return EXC_CODES.get(type(e).__name__, 99)


def impl_outcome(s, auto, pl):
    from pycomm3.cip_driver import parse_connection_path
    from pycomm3.cip.data_types import PADDED_EPATH
    try:
        ip, port, route = parse_connection_path(s, bool(auto))
    except Exception as e:
        return ("err", exc_code(e), "parse", type(e).__name__)
    try:
        b = PADDED_EPATH.encode(route, length=True, pad_length=bool(pl))
    except Exception as e:
        return ("err", exc_code(e), "encode", type(e).__name__)
    return ("ok", ip, port, bytes(b))


def canon_model_outcome(toks):
    if toks and str(toks[0]) == "ok":
        return ("ok", toks[1], None if isinstance(toks[2], fw.Sym) else toks[2], toks[3])
    if toks and str(toks[0]) == "err":
        return ("err", toks[1])
    return ("BAD", repr(toks))


def same_outcome(m, i):
    if m[0] == "ok":
        return i[0] == "ok" and m[1:] == i[1:]
    return i[0] == "err" and m[1] == i[1]


def parse_ref(toks):
    """ref <text> <auto> -> dict(host, tcp=(kind, p), route=(kind, ...))"""
    host = toks[0]
    k = str(toks[1])
    i = 2
    if k == "ok":
        tcp = ("ok", toks[2])
        i = 3
    else:
        tcp = (k, None)
    rk = str(toks[i])
    if rk == "ok":
        route = ("ok", bool(toks[i + 1]), bool(toks[i + 2]), toks[i + 3], toks[i + 4])
    elif rk == "reject":
        route = ("reject", RCLASS.get(toks[i + 1], str(toks[i + 1])))
    else:
        route = ("unspec",)
    return {"host": host, "tcp": tcp, "route": route}


def verdict_of(ref):
    """-> ('reject', cls) | ('accept', host, tcp, wire(pl)->bytes, small) | ('silent', ref)"""
    if ref["tcp"][0] == "bad":
        return ("reject", "bad_tcp_port")
    if ref["route"][0] == "reject":
        return ("reject", ref["route"][1])
    if ref["tcp"][0] in ("none", "ok") and ref["route"][0] == "ok" and ref["route"][2]:
        return ("accept", ref["host"], ref["tcp"][1], (ref["route"][3], ref["route"][4]), ref["route"][1])
    return ("silent",)


class Checker:
    def __init__(self, R, mp):
        self.R, self.mp = R, mp
        self.pending = []       # (string, auto, pl, origin, expect)
        self.nfail = {}

    def add(self, s, auto, pl, origin, expect=None):
        """expect: None | ('accept', host, tcp, wire, small) | ('reject', cls) from the generator's own knowledge"""
        self.pending.append((s, int(bool(auto)), int(bool(pl)), origin, expect))

    def flush(self):
        R = self.R
        if not self.pending:
            return
        # links with two or more ':' can be IPv6 text: outside the model (see ASSUMPTIONS)
        lines = []
        for s, auto, pl, origin, expect in self.pending:
            lines.append(cmd_line("outcome", s, auto, pl))
            lines.append(cmd_line("ref", s, auto))
        outs = self.mp.batch(lines)
        for k, (s, auto, pl, origin, expect) in enumerate(self.pending):
            m = canon_model_outcome(fw.parse_line(outs[2 * k]))
            ref = parse_ref(fw.parse_line(outs[2 * k + 1]))
            i = impl_outcome(s, auto, pl)
            case = {"path": s, "auto_slot": bool(auto), "pad_length": bool(pl), "origin": origin}
            fields = s.replace("\\", "/").replace(",", "/").split("/")[1:]
            ipv6ish = any(f.count(":") >= 2 for f in fields)
            v = verdict_of(ref)
            R.count("origin", origin.split(":")[0])
            R.count("reference_verdict", v[0] if v[0] != "reject" else "reject:" + v[1])
            R.count("impl_outcome", "ok" if i[0] == "ok" else f"{i[3]}@{i[2]}")
            R.count("segments", min(len(fields), 10))
            R.case((s, auto, pl), nontrivial=True)
            # ---- correspondence
            if not ipv6ish:
                R.corr_checked += 1
                if not same_outcome(m, i):
                    R.disagree("parse_connection_path+PADDED_EPATH.encode", case, m, i)
            else:
                R.count("outside_model", "ipv6ish_link")
            # ---- the generator's own expectation must agree with the Coq reference reader
            if expect is not None:
                if expect[0] == "accept":
                    okv = v[0] == "accept" and v[1] == expect[1] and v[2] == expect[2] and v[3][pl] == expect[3]
                    if not okv:
                        R.disagree("Spec ref_parse vs harness reference (grammar string)", case, [v[0]] + [repr(x) for x in v[1:4]], [repr(x) for x in expect])
                elif expect[0] == "reject" and v[0] != "reject":
                    R.disagree("Spec ref_parse vs harness reference (rejection class member)", case, repr(v), repr(expect))
            # ---- property oracle on the implementation
            self.oracle(case, i, v, ref, pl, expect)
        self.pending = []

    def fail(self, what, case, observed, expected, cls):
        """framework.Results keeps at most 200 failures: report a few per class so that one class
        (e.g. a known finding) cannot crowd out another; all are counted in the histogram"""
        self.R.count("oracle_failures_by_class", cls)
        n = self.nfail.get(cls, 0)
        self.nfail[cls] = n + 1
        if n < 4:
            self.R.fail(what, case, observed, expected, cls)

    def oracle(self, case, i, v, ref, pl, expect):
        R = self
        if expect is not None and expect[0] == "accept":
            v = ("accept", expect[1], expect[2], {pl: expect[3]}, expect[4])
        elif expect is not None and expect[0] == "reject" and v[0] != "reject":
            v = ("reject", expect[1])
        if v[0] == "accept":
            want = ("ok", v[1], v[2], v[3][pl])
            if i != want:
                cls = "accept:small_ports" if v[4] else "accept:numeric_port_ge_15"
                R.fail("a string of the grammar does not yield the stated host, TCP port and route bytes", case, i, want, cls)
        elif v[0] == "reject":
            if i[0] == "ok":
                R.fail("a string outside the grammar yields route bytes", case, i, "RequestError or DataError", "reject:" + v[1] + ":accepted")
            elif not ((i[1] == 4 and i[2] == "parse") or (i[1] == 1 and i[2] == "encode")):
                R.fail("a string outside the grammar is rejected with a foreign exception", case, i, "RequestError at parse or DataError at encode", "reject:" + v[1] + ":foreign")
        else:  # silent zone: only "never a different route silently"
            if i[0] == "ok":
                bad = []
                if i[1] != ref["host"]:
                    bad.append("host")
                if ref["tcp"][0] == "none" and i[2] is not None or ref["tcp"][0] == "ok" and i[2] != ref["tcp"][1]:
                    bad.append("tcp")
                if ref["tcp"][0] == "lenient":
                    try:
                        if i[2] != int(case["path"].replace("\\", "/").replace(",", "/").split("/")[0].split(":")[1]):
                            bad.append("tcp(int)")
                    except Exception:
                        bad.append("tcp(int)")
                if ref["route"][0] == "ok" and ref["route"][2] and i[3] != ref["route"][3 + pl]:
                    bad.append("route")
                if bad:
                    R.fail("an accepted string differs from its reference reading (silent corruption)", case, i, repr(ref), "silent:" + "+".join(bad))
            elif not ((i[1] == 4 and i[2] == "parse") or (i[1] == 1 and i[2] == "encode")):
                R.fail("rejected with a foreign exception", case, i, "RequestError at parse or DataError at encode", "silent:foreign")


# ------------------------------------------------------------------ secondary entry points (correspondence)
def impl_route(route_str, auto):
    from pycomm3.cip_driver import parse_cip_route
    try:
        r = parse_cip_route(route_str, bool(auto))
    except Exception as e:
        return ("err", exc_code(e))
    out = [len(r)]
    for seg in r:
        out += ["P", "n" if isinstance(seg.port, int) else "s", seg.port]
        out += ["i" if isinstance(seg.link_address, int) else "s", seg.link_address]
    return ("ok", out)


def canon_segs(toks):
    if toks and str(toks[0]) == "ok":
        return ("ok", [str(t) if isinstance(t, fw.Sym) else t for t in toks[1:]])
    if toks and str(toks[0]) == "err":
        return ("err", toks[1])
    return ("BAD", repr(toks))


def canon_bytes(toks):
    if toks and str(toks[0]) == "ok":
        return ("ok", toks[1])
    if toks and str(toks[0]) == "err":
        return ("err", toks[1])
    return ("BAD", repr(toks))


def secondary(R, mp, strings, rng):
    from pycomm3 import CIPDriver, LogixDriver, SLCDriver
    from pycomm3.cip.data_types import PADDED_EPATH, PortSegment
    from pycomm3.cip_driver import parse_connection_path, parse_cip_route
    from pycomm3.const import MSG_ROUTER_PATH
    drivers = [CIPDriver, LogixDriver, SLCDriver]
    flags = [False, True, True]
    lines, expect = [], []
    for s in strings:
        auto = rng.random() < 0.5
        pl = rng.random() < 0.5
        # parse_connection_path: the segment list itself
        try:
            ip, port, route = parse_connection_path(s, auto)
            segs = [len(route)]
            for seg in route:
                segs += ["P", "n" if isinstance(seg.port, int) else "s", seg.port,
                         "i" if isinstance(seg.link_address, int) else "s", seg.link_address]
            e = ("ok", [ip, "none" if port is None else port] + segs)
        except Exception as ex:
            e = ("err", exc_code(ex))
            route = None
        lines.append(cmd_line("parse", s, int(auto)))
        expect.append(("parse_connection_path (segments)", s, canon_segs, e))
        # Forward Open / Forward Close route, get_module_info route
        if route is not None:
            try:
                e2 = ("ok", bytes(PADDED_EPATH.encode(route + MSG_ROUTER_PATH, length=True, pad_length=pl)))
            except Exception as ex:
                e2 = ("err", exc_code(ex))
            slot = rng.choice([0, 1, 5, 255, 256, -1])
            try:
                e3 = ("ok", bytes(PADDED_EPATH.encode((*route[:-1], PortSegment("bp", slot)), length=True, pad_length=True)))
            except Exception as ex:
                e3 = ("err", exc_code(ex))
        else:
            e2 = e3 = ("err", e[1])
            slot = 0
        lines.append(cmd_line("fopen", s, int(auto), int(pl)))
        expect.append(("cip_path + MSG_ROUTER_PATH", s, canon_bytes, e2))
        lines.append(cmd_line("modinfo", s, int(auto), slot))
        expect.append(("get_module_info route", s, canon_bytes, e3))
        # the drivers' constructors
        d = rng.randrange(3)
        try:
            drv = drivers[d](s)
            cfg = drv._cfg
            try:
                b = ("ok", bytes(PADDED_EPATH.encode(cfg["cip_path"], length=True, pad_length=True)))
            except Exception as ex:
                b = ("err", exc_code(ex))
            e4 = ("ok", [cfg["ip address"], cfg["port"], b[0], b[1]])
            if drivers[d]._auto_slot_cip_path is not flags[d]:
                R.fail("driver shortcut flag differs from the documentation", [drivers[d].__name__], drivers[d]._auto_slot_cip_path, flags[d], "driver_flag")
        except Exception as ex:
            e4 = ("err", exc_code(ex))
        lines.append(cmd_line("init", s, d))
        expect.append((f"{drivers[d].__name__}.__init__", s, canon_segs, e4))
        # parse_cip_route(str): the route part alone (only '\\' is normalised there)
        parts = s.replace("\\", "/").replace(",", "/").split("/", 1)
        if len(parts) == 2:
            rs = s[len(parts[0]) + 1:]
            lines.append(cmd_line("route", rs, int(auto)))
            expect.append(("parse_cip_route(str)", rs, canon_segs, impl_route(rs, auto)))
            try:
                e5 = ("ok", bytes(PADDED_EPATH.encode(parse_cip_route(rs), length=True, pad_length=True)))
            except Exception as ex:
                e5 = ("err", exc_code(ex))
            lines.append(cmd_line("rstr", rs))
            expect.append(("generic_message(route_path=str)", rs, canon_bytes, e5))
    outs = mp.batch(lines)
    for (what, s, canon, e), o in zip(expect, outs):
        got = canon(fw.parse_line(o))
        R.corr_checked += 1
        R.count("secondary", what.split(" ")[0].split("(")[0])
        if got[0] != e[0] or (got[0] == "ok" and got[1] != (e[1] if not isinstance(e[1], list) else [str(x) if isinstance(x, fw.Sym) else x for x in e[1]])) \
                or (got[0] == "err" and got[1] != e[1]):
            R.disagree(what, {"string": s}, got, e)


# ------------------------------------------------------------------ history / aliasing
def history_probe(R, ck, mp, samples, rng):
    """the stated route for EVERY call, whatever happened before: (a) the value returned by one call
    is mutated (as LogixDriver._initialize_driver does to the stored list for a Micro800), the next
    call for the same string must still give the stated route; (b) a second driver built from the
    same string after the first one stripped its stored route.  The model is a pure function, so the
    model's outcome for the string is also what every later call must give (correspondence)."""
    from unittest import mock
    from pycomm3 import CIPDriver, LogixDriver, SLCDriver
    from pycomm3.cip.data_types import PADDED_EPATH, PortSegment
    from pycomm3.cip_driver import parse_connection_path

    def enc(route):
        try:
            return ("ok", bytes(PADDED_EPATH.encode(route, length=True, pad_length=True)))
        except Exception as ex:
            return ("err", exc_code(ex))

    def micro800_init(drv):
        """run the real _initialize_driver against a canned Micro800 identity (no network)"""
        try:
            with mock.patch.object(type(drv), "_list_identity", return_value={"product_name": "2080-LC50-48QWB"}), \
                    mock.patch.object(type(drv), "get_plc_info", return_value={"revision": {"major": 12, "minor": 11}}), \
                    mock.patch.object(type(drv), "get_plc_name", return_value="x"), \
                    mock.patch.object(type(drv), "get_tag_list", return_value=[]):
                drv._initialize_driver(init_tags=False, init_program_tags=False)
            return "real"
        except Exception:
            cp = drv._cfg["cip_path"]
            if cp and isinstance(cp[-1], PortSegment):
                cp.pop(-1)
            return "emulated"

    lines = [cmd_line("outcome", s, auto, 1) for _, _, s, auto, _ in samples]
    outs = mp.batch(lines)
    for (ast, sp, s, auto, hs), o in zip(samples, outs):
        want = ("ok", ast["host"], ast["tcp"], ref_wire(hs, True))
        m = canon_model_outcome(fw.parse_line(o))
        case = {"path": s, "auto_slot": bool(auto), "pad_length": True, "origin": "history"}
        # (a) mutate what a first call returned, call again
        for how in ("pop", "clear", "append"):
            try:
                r1 = parse_connection_path(s, bool(auto))
                if how == "pop" and r1[2]:
                    r1[2].pop(-1)
                elif how == "clear":
                    r1[2].clear()
                elif how == "append":
                    r1[2].append(PortSegment("bp", 9))
            except Exception:
                pass
            i = impl_outcome(s, auto, 1)
            R.case((s, auto, "history", how))
            R.count("history", "reparse_after_" + how)
            R.corr_checked += 1
            if not same_outcome(m, i):
                R.disagree("parse_connection_path called again after its earlier result was mutated (the model is a pure function)", dict(case, mutation=how), m, i)
            if i != want:
                ck.fail("the same path string no longer yields the stated route after an earlier result was modified in place",
                        dict(case, mutation=how), i, want, "history:reparse")
        # (b) two drivers from the same string; the first strips its route as for a Micro800
        first = LogixDriver if auto else CIPDriver
        try:
            d1 = first(s)
            mode = micro800_init(d1) if first is LogixDriver else None
            if first is CIPDriver and d1._cfg["cip_path"]:
                d1._cfg["cip_path"].pop(-1)
        except Exception as ex:
            ck.fail("driver constructor raised on a grammar string", case, type(ex).__name__, "a driver", "history:ctor")
            continue
        R.count("history", f"first_driver_{first.__name__}_{mode}")
        for second in ((LogixDriver, SLCDriver) if auto else (CIPDriver,)):
            try:
                d2 = second(s)
                got = ("ok", d2._cfg["ip address"], d2._cfg["port"], enc(d2._cfg["cip_path"]))
            except Exception as ex:
                got = ("err", exc_code(ex))
            exp = ("ok", ast["host"], ast["tcp"] or TCP_DEFAULT, ("ok", ref_wire(hs, True)))
            R.case((s, auto, "history", second.__name__))
            R.corr_checked += 1
            if m[0] == "ok" and got != ("ok", m[1], m[2] or TCP_DEFAULT, ("ok", m[3])):
                R.disagree(f"{second.__name__}(path) after an earlier driver for the same path stripped its stored route", case, m, got)
            if got != exp:
                ck.fail("a second driver built from the same path string does not store the stated route",
                        dict(case, first_driver=first.__name__, second_driver=second.__name__), got, exp, "history:second_driver")


# ------------------------------------------------------------------ corpus
def load_corpus():
    d = os.path.join(fw.VERIF, "corpus", "C15")
    cases = []
    if os.path.isdir(d):
        for fn in sorted(os.listdir(d)):
            if fn.endswith(".json"):
                cases += json.load(open(os.path.join(d, fn)))["cases"]
    return cases


def run(R, escalate=False):
    thorough = R.tier == "thorough" or escalate
    rng = R.rng
    R.rule = ("route ASTs (host: dotted quad / name / opaque; optional TCP port 1..65534 with boundaries; 0-4 hops (thorough: to 6) "
              "or the slot shortcut; ports by every documented alias or number; links 0..255 or dotted quads) x 3+ spellings "
              "(separator per position, alias per hop, leading zeros) x auto_slot {F,T} x pad_length {F,T}; constructed members of "
              "each rejection class; ALL single-character deletions / insertions / replacements (23-symbol alphabet) / "
              "transpositions of valid strings; a free malformed stream; history probes (re-parse after the earlier result was mutated in place; a second driver after the first stripped its route as for a Micro800); non-trivial = distinct (string, auto_slot, pad_length)")
    mp = fw.ModelProc("C15")
    try:
        ck = Checker(R, mp)
        # ---------------- corpus first
        for c in load_corpus():
            for auto in ([c["auto"]] if "auto" in c else [False, True]):
                ck.add(c["path"], auto, c.get("pl", True), "corpus")
        ck.flush()

        n_ast = 2500 if thorough else 420
        max_hops = 6 if thorough else 4
        valid_strings = []
        lines, metas = [], []
        for k in range(n_ast):
            ast = gen_ast(rng, max_hops, big_ports=(k % 9 == 8))
            styles = [None, None, rng.choice(["/", "\\", ",", "numeric"])] + ([None] * 3 if thorough else [])
            for st in styles:
                sp = gen_spelling(rng, ast, st)
                for auto in (0, 1):
                    lines.append("ast " + str(auto) + " " + " ".join(ast_tokens(ast, sp)))
                    metas.append((k, ast, sp, auto))
        outs = mp.batch(lines)
        by_ast = {}
        for (k, ast, sp, auto), o in zip(metas, outs):
            t = fw.parse_line(o)
            s = render(ast, sp)
            hs = hops_of(ast, auto)
            # the harness's render / reference wire must be the Coq Spec's
            ok_spec = str(t[0]) == "ok" and t[1] == s and t[2] == 1 and t[3] == 1
            if ok_spec:
                if hs is None:
                    ok_spec = str(t[4]) == "none"
                else:
                    ok_spec = str(t[4]) == "some" and t[7] == ref_wire(hs, False) and t[8] == ref_wire(hs, True) \
                        and bool(t[5]) == all(p <= 14 for p, _ in hs)
            if not ok_spec:
                R.disagree("Spec render/route_wire vs harness reference", {"ast": ast, "spelling": sp, "auto": auto}, [repr(x) for x in t], [s, hs])
                continue
            R.count("hops", len(ast["shape"][1]) if ast["shape"][0] == "E" else "slot_shortcut")
            R.count("tcp_port", "none" if ast["tcp"] is None else ("boundary" if ast["tcp"] in (1, 65534) else "given"))
            for pl in (0, 1):
                if hs is None:
                    ck.add(s, auto, pl, "grammar:shortcut_without_auto_slot", ("reject", "odd_segments"))
                else:
                    small = all(p <= 14 for p, _ in hs)
                    ck.add(s, auto, pl, "grammar", ("accept", ast["host"], ast["tcp"], ref_wire(hs, pl), small))
            if hs is not None:
                by_ast.setdefault((k, auto), []).append(s)
            if auto == 0:
                valid_strings.append((ast, sp, s))
        ck.flush()
        # ---------------- all spellings of one AST: identical bytes on the implementation
        for (k, auto), ss in by_ast.items():
            outsi = {impl_outcome(s, auto, 1)[1:] if impl_outcome(s, auto, 1)[0] == "ok" else ("err",) for s in ss}
            R.evaluations += 1
            if len(outsi) != 1:
                ck.fail("spellings of one route give different results", {"strings": ss, "auto_slot": bool(auto)}, [repr(x) for x in outsi], "one result", "spellings")

        # ---------------- history / aliasing: the same string again, after an earlier result was modified
        hist = []
        pool = [(a, sp, s0) for a, sp, s0 in valid_strings]
        rng.shuffle(pool)
        shortcuts = [x for x in pool if x[0]["shape"][0] == "S" or not x[0]["shape"][1]]
        for ast, sp, s0 in shortcuts[: (300 if thorough else 60)] + pool[: (1200 if thorough else 140)]:
            for auto in (0, 1):
                hs = hops_of(ast, auto)
                if hs is not None:
                    hist.append((ast, sp, s0, auto, hs))
        history_probe(R, ck, mp, hist, rng)

        # ---------------- rejection classes by construction
        for ast, sp, s in rng.sample(valid_strings, min(len(valid_strings), 600 if thorough else 150)):
            if any(p > 14 for p, _ in (ast["shape"][1] if ast["shape"][0] == "E" else [])):
                continue
            for cls, bad in rejection_members(rng, ast, sp):
                for auto in (0, 1):
                    if cls == "odd_segments" and auto and len(bad.replace("\\", "/").replace(",", "/").split("/")) == 2:
                        continue        # host + one segment under the slot shortcut is not odd
                    if cls.startswith("slot:"):
                        if not auto:
                            continue
                        ck.add(bad, auto, rng.random() < 0.5, "class:" + cls, ("reject", cls[5:]))
                    else:
                        ck.add(bad, auto, rng.random() < 0.5, "class:" + cls, ("reject", cls))
        ck.flush()

        # ---------------- all single-character edits
        small_valid = [(a, sp, s) for a, sp, s in valid_strings if len(s) <= (48 if thorough else 34)
                       and all(p <= 14 for p, _ in (a["shape"][1] if a["shape"][0] == "E" else []))]
        rng.shuffle(small_valid)
        budget = 400000 if thorough else 26000
        used = 0
        for ast, sp, s in small_valid:
            eds = single_edits(s, rng, thorough)
            if used + len(eds) > budget:
                break
            used += len(eds)
            auto = rng.random() < 0.5
            pl = rng.random() < 0.5
            for kind, e in eds:
                ck.add(e, auto, pl, "edit:" + kind)
            ck.flush()
        R.count("edits", "total", used)

        # ---------------- free malformed stream
        toks = ["bp", "backplane", "enet", "1", "2", "0", "255", "256", "15", "16", "10.0.0.1", "1.2.3.4", "", "x", ":", ":80", "80",
                "65534", "65535", "+1", " ", "-1", "bp:1", "a.b", "1.2.3", "dhrio-a", "cnet", "007", "0x1", "1_0", "\t1", "1\n", "::1"]
        long_toks = ["0" * 4299 + "1", "0" * 4300 + "1", "1" * 4301]
        for _ in range(4000 if thorough else 500):
            n = rng.randrange(0, 7)
            s = rng.choice(["10.0.0.1", "h", "", "plc:80", "plc:0", "a:b:c", "p:65534", "p:65535"])
            for _ in range(n):
                s += rng.choice(SEPS) + (rng.choice(long_toks) if rng.random() < 0.01 else rng.choice(toks))
            ck.add(s, rng.random() < 0.5, rng.random() < 0.5, "malformed")
        ck.flush()

        # ---------------- secondary entry points
        sec = [s for _, _, s in rng.sample(valid_strings, min(len(valid_strings), 1500 if thorough else 250))]
        sec += [bad for a, sp, s in rng.sample(valid_strings, 60) for _, bad in rejection_members(rng, a, sp)][: (2000 if thorough else 300)]
        secondary(R, mp, sec, rng)
    finally:
        mp.close()


def replay(R, rp):
    mp = fw.ModelProc("C15")
    try:
        ck = Checker(R, mp)
        f = rp.get("failure", {})
        c = f.get("case", {})
        if isinstance(c, dict) and "path" in c:
            ck.add(c["path"], c.get("auto_slot", False), c.get("pad_length", True), "replay")
        elif isinstance(c, dict) and "strings" in c:
            for s in c["strings"]:
                ck.add(s, c.get("auto_slot", False), True, "replay")
        ck.flush()
    finally:
        mp.close()
    if not R.oracle_failures:
        run(R, escalate=True)
