"""C17 — connected messages carry fresh sequence counts.

Tie: (a) coq/Gen/SeqGen.v is a TRANSLATION of pycomm3.util.cycle regenerated on every run (the
theorems are about that text); in addition the extracted `draw` is compared with the real
generator over two full periods.  (b) allocation traces: real drivers (CIPDriver.generic_message,
LogixDriver.read/write over a synthetic tag database, SLCDriver.read/write) run histories with
`_send`/`_receive` replaced from outside and `driver._sequence` wrapped in a counting generator;
for every connected frame written, the draw index of its count is recovered and the model
(`counts_of` / `idx_guard`, Model/Seq.v) must predict exactly the counts observed on the wire.

Oracle on the implementation (no model involved): the first two bytes of every connected data item,
in sending order: no message carries the count of the message sent immediately before it."""
import random
import struct

import framework as fw
from props import c04

ASSUMPTIONS = [
    "one connection per driver; the target's duplicate detection compares a message's count with the previous message's count",
    "replies are canned (generic error / success replies): only the request stream matters for this property",
]
PERIOD = 65535


class Counting:
    """wraps the driver's generator (must itself be a generator: packets test isinstance(.., Generator))"""

    def __init__(self, drv):
        self.n = 0
        self.last_index = {}
        inner = drv._sequence

        def gen():
            while True:
                v = next(inner)
                self.last_index[v] = self.n
                self.n += 1
                yield v
        drv._sequence = gen()


def canned(drv, sent, state):
    """replies: every request is answered; fragmented reads (0x52) are continued with status 6 for
    three follow-ups; multi-service packets get a well-formed reply; state["lose"] makes the next
    receive fail like a lost reply (CommError from the transport wrapper)."""
    from pycomm3.exceptions import CommError

    def _send(msg):
        sent.append(bytes(msg))

    def _receive():
        if state.get("lose"):
            state["lose"] -= 1
            raise CommError("socket connection broken")
        f = sent[-1]
        if f[0:2] == b"\x70\x00":
            seq = struct.unpack_from("<H", f, 44)[0]
            svc = f[46]
            mr = f[46:]
            if svc == 0x0A:   # multi-service: a well-formed reply, every embedded service refused (0x05)
                base = 2 + 2 * mr[1]
                n = struct.unpack_from("<H", mr, base)[0]
                offs = struct.unpack_from("<%dH" % n, mr, base + 2)
                reps = [bytes([mr[base + o] | 0x80, 0, 0x05, 0]) for o in offs]
                data = struct.pack("<H", n) + b"".join(struct.pack("<H", 2 + 2 * n + 4 * i) for i in range(n)) + b"".join(reps)
                return c04.unit_reply(0x0A, 0x1E, data, seq)
            if svc == 0x52:   # read tag fragmented: 100 bytes per fragment, "more" for the first three
                off = struct.unpack_from("<I", mr, 2 + 2 * mr[1] + 2)[0]
                return c04.unit_reply(0x52, 6 if off < 300 else 0, b"\xc2\x00" + bytes(100), seq)
            if svc == 0x4B:   # PCCC execute (SLC): requestor id echoed, CMD|0x40, STS 0, TNS, two data bytes
                body = mr[2 + 2 * mr[1]:]
                rid = body[:body[0]] if body else b"\x07" + bytes(6)
                rest = body[len(rid):]
                tns = rest[2:4] if len(rest) >= 4 else b"\x00\x00"
                return c04.unit_reply(0x4B, 0, rid + bytes([0x4F, 0]) + tns + b"\x01\x00", seq)
            return c04.unit_reply(svc, 0x05 if svc in (0x4C, 0x4D, 0x53, 0x4E) else 0, b"", seq)
        return b"\x6f\x00" + struct.pack("<H", 20) + struct.pack("<I", 1) + bytes(16) + bytes(4) + b"\x00\x00" + struct.pack("<H", 2) + bytes(4) + struct.pack("<HH", 0xB2, 4) + bytes([f[40] | 0x80 if len(f) > 40 else 0x80, 0, 0, 0])
    drv._send, drv._receive = _send, _receive


def observe(sent, cnt):
    """(count, draw index) of every connected message written, in order"""
    out = []
    for f in sent:
        if f[0:2] == b"\x70\x00":
            c = struct.unpack_from("<H", f, 44)[0]
            out.append(c)
    return out


def advance(drv, k):
    for _ in range(k):
        next(drv._sequence)


def run_history(R, mp, kind, ops, pre, rng, label):
    """run a history on a fresh driver whose generator was advanced by `pre` draws"""
    tags = c04.mk_tags(random.Random(7))
    conn = rng.choice([500, 4000])
    if kind == "logix":
        drv = c04.mk_driver(conn, False, True, tags)
    elif kind == "micro800":
        drv = c04.mk_driver(conn, True, True, tags)
    elif kind == "cip":
        from pycomm3 import CIPDriver
        drv = CIPDriver("10.0.0.1")
        drv._target_is_connected, drv._connection_opened, drv._session, drv._target_cid = True, True, 1, b"\x01\x02\x03\x04"
    else:
        from pycomm3 import SLCDriver
        drv = SLCDriver("10.0.0.1")
        drv._target_is_connected, drv._connection_opened, drv._session, drv._target_cid = True, True, 1, b"\x01\x02\x03\x04"
    sent = []
    state = {}
    canned(drv, sent, state)
    cnt = Counting(drv)
    advance(drv, pre)
    idx = []
    seen = 0
    small = [n for n in tags if not tags[n]["dim"] and tags[n]["tag_type"] == "atomic"]
    arrs = [n for n in tags if tags[n]["dim"] and tags[n]["data_type"] == "SINT"]
    for op in ops:
        try:
            if op[0] == "gm":
                drv.generic_message(service=0x4B, class_code=0x300, instance=1, request_data=b"x" * op[1], connected=True)
            elif op[0] == "gmu":
                drv.generic_message(service=0x4B, class_code=0x300, instance=1, request_data=b"x", connected=False, unconnected_send=False, route_path=False)
            elif op[0] == "read":
                drv.read(*[rng.choice(small) for _ in range(op[1])])
            elif op[0] == "readbig":
                drv.read("%s{%d}" % (arrs[0], op[1]), *[rng.choice(small) for _ in range(op[2])])
            elif op[0] == "readmid":     # several slices, each more than half a connection: one request per packet
                n = conn * 6 // 10
                drv.read(*["%s[%d]{%d}" % (arrs[i % len(arrs)], i, n) for i in range(op[1])])
            elif op[0] == "write":
                drv.write(*[(rng.choice([s for s in small if tags[s]["data_type"] in ("SINT", "INT", "DINT")]), 1) for _ in range(op[1])])
            elif op[0] == "writebit":
                drv.write(*[("a_DINT.%d" % (i % 32), 1) for i in range(op[1])])
            elif op[0] == "writebig":
                drv.write(("%s{%d}" % (arrs[0], op[1]), [1] * op[1]))
            elif op[0] == "gmlost":      # the reply to this message is lost (transport error on receive), then the caller retries
                state["lose"] = 1
                try:
                    drv.generic_message(service=0x4B, class_code=0x300, instance=1, request_data=b"r", connected=True)
                except Exception as e:
                    R.count("op_exception", type(e).__name__)
                drv.generic_message(service=0x4B, class_code=0x300, instance=1, request_data=b"r", connected=True)
            elif op[0] == "readlost":
                state["lose"] = 1
                try:
                    drv.read(rng.choice(small))
                except Exception as e:
                    R.count("op_exception", type(e).__name__)
                drv.read(rng.choice(small))
            elif op[0] == "slcdatalog":
                drv.get_datalog_queue(op[1], 1)
            elif op[0] == "slcread":
                drv.read("N7:%d" % op[1])
            elif op[0] == "slcwrite":
                drv.write(("N7:%d" % op[1], 5))
        except Exception as e:   # outcome classes are C10/C13's business; the request stream is ours
            R.count("op_exception", type(e).__name__)
        # draw indices of the connected messages this op sent
        for f in sent[seen:]:
            if f[0:2] == b"\x70\x00":
                c = struct.unpack_from("<H", f, 44)[0]
                idx.append(cnt.last_index.get(c, -1))
        seen = len(sent)
    counts = observe(sent, cnt)
    case = {"driver": kind, "label": label, "pre_draws": pre, "ops": [list(o) for o in ops[:30]], "messages": len(counts)}
    R.case((kind, pre, tuple(ops)), nontrivial=len(counts) > 1)
    R.count("driver", kind)
    R.count("messages_per_history", min(len(counts) // 10 * 10, 200))
    wraps = sum(1 for a, b in zip(counts, counts[1:]) if b < a)
    R.count("wrap_crossings", wraps)
    # ---- correspondence: the model predicts the counts from the draw indices
    if -1 in idx:
        R.disagree("a sent count was never drawn from the generator", case, None, [c for c, i in zip(counts, idx) if i == -1][:5])
    else:
        m = mp.ask("sentidx", *[str(i) for i in idx])
        R.corr_checked += 1
        if list(m[1:]) != counts:
            R.disagree("sent counts vs model counts_of(draw indices)", case, list(m[1:])[:20], counts[:20])
        rep = any(a == b for a, b in zip(counts, counts[1:]))
        if bool(m[0]) != rep:
            R.disagree("model guard vs observed repeat", case, m[0], rep)
    # ---- oracle
    for k, (a, b) in enumerate(zip(counts, counts[1:])):
        if a == b:
            gap = idx[k + 1] - idx[k] if -1 not in idx else None
            cls = "repeat:gap-multiple-of-period" if gap is not None and gap % PERIOD == 0 and gap != 0 else "repeat:other"
            R.fail("a connected message repeats the sequence count of the message sent before it",
                   {**case, "position": k + 1, "count": a, "draws_between": gap}, [a, b], "different counts", cls)
            break
    for c in counts:
        if not (1 <= c <= 65535):
            R.fail("sequence count outside 1..65535", case, c, "1..65535", "range")
            break


def run(R, escalate=False):
    thorough = R.tier == "thorough" or escalate
    rng = R.rng
    R.rule = ("histories of connected operations on real drivers (generic messages, Logix reads/writes incl. multi-service, fragmented and "
              "read-modify-write plans, reads of several slices each larger than half a connection (one request per packet), Micro800 single requests, SLC reads/writes) with the generator advanced to a random phase within 300 draws "
              "of the wrap-around (or across it several times in thorough); plus the 65534-tag read after one message (gap = PERIOD). "
              "non-trivial = distinct history with at least two connected messages")
    mp = fw.ModelProc("C17")
    # (a) generator vs extracted draw, two full periods from the initial state and from states around the wrap
    from pycomm3.util import cycle
    init = mp.ask("init")
    g = cycle(65535, start=1)
    v = init[0]
    total = 2 * PERIOD + 10
    done = 0
    ok = True
    while done < total:
        n = min(20000, total - done)
        m = mp.ask("yields", str(n), str(v))
        real = [next(g) for _ in range(n)]
        if list(m[:-1]) != real:
            k = next(i for i, (a, b) in enumerate(zip(m[:-1], real)) if a != b)
            R.disagree("util.cycle vs model draw", {"draw": done + k}, m[k], real[k])
            ok = False
            break
        v = m[-1]
        done += n
    R.corr_checked += 1
    R.case(("generator", total))
    R.count("generator_draws_compared", total if ok else done)
    # (b) histories
    ops_pool = {
        "cip": [("gm", 0), ("gm", 1), ("gm", 7), ("gmu",), ("gmlost",)],
        "logix": [("gm", 3), ("read", 1), ("read", 2), ("read", 5), ("read", 40), ("readbig", 600, 0), ("readbig", 4100, 2), ("readmid", 2), ("readmid", 3), ("write", 1), ("write", 3),
                  ("writebit", 1), ("writebit", 4), ("writebig", 600), ("writebig", 4100), ("gmu",), ("gmlost",), ("readlost",)],
        "micro800": [("read", 1), ("read", 3), ("readmid", 2), ("write", 1), ("write", 2), ("readbig", 700, 1), ("writebig", 700)],
        "slc": [("slcread", 0), ("slcread", 5), ("slcwrite", 1), ("slcdatalog", 1), ("slcdatalog", 3)],
    }
    n_hist = 200 if thorough else 70
    for h in range(n_hist):
        kind = rng.choice(["cip", "logix", "logix", "micro800", "slc"])
        ln = rng.choice([2, 5, 12, 30]) if not thorough else rng.choice([2, 5, 12, 30, 80])
        ops = [rng.choice(ops_pool[kind]) for _ in range(ln)]
        pre = PERIOD * rng.choice([0, 0, 1, 2]) + PERIOD - rng.randrange(0, 300) if rng.random() < 0.8 else rng.randrange(0, 50)
        run_history(R, mp, kind, ops, pre, rng, "random")
    # long genuine history across the wrap without advancing the generator (thorough): > 65535 messages
    if thorough:
        run_history(R, mp, "cip", [("gm", 0)] * 66000, 0, rng, "66000 messages")
    # the known gap-of-PERIOD history: one message, then a read of PERIOD-1 tags
    run_history(R, mp, "logix", [("gm", 0), ("read", PERIOD - 1)], rng.randrange(0, 1000), rng, "read of 65534 tags after one message")
    if thorough:
        run_history(R, mp, "logix", [("gm", 0), ("read", PERIOD - 2), ("gm", 0)], 5, rng, "read of 65533 tags after one message")
        run_history(R, mp, "logix", [("gm", 0), ("read", PERIOD), ("gm", 0)], 5, rng, "read of 65535 tags after one message")
    mp.close()


def replay(R, rp):
    run(R, escalate=True)
