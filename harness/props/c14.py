"""C14 — generic messaging delivers the request verbatim and returns the answer.

Implementation side: the REAL `CIPDriver.generic_message` and the helpers (`get_module_info`,
`LogixDriver.get_plc_name / get_plc_info / get_plc_time / set_plc_time`) talking through a fake socket
to the live reference target (bin/modelrun_targetcore = extracted Spec/TargetCore.v).
Model side: the extracted Model/Generic.v (bin/modelrun_c14): same driver snapshot and arguments ->
the frame, byte for byte, the sequence generator afterwards, the exception class; same reply bytes ->
the Tag (value raw / decoded, error text).
Oracle (no model involved): what the target LOGGED for the call — transport, service, request path
read by the target's own class/instance/attribute reader, data, route — equals what the caller
asked; the Tag equals the reply data of the target's reply frame (raw, or decoded by an independent
little decoder), a refused request (also refusals injected by the harness) gives a falsy Tag whose
error carries the status text; set_plc_time(t); get_plc_time() reports t."""
import logging
import os
import struct
import sys

import framework as fw

EXTRA_MODELS = ["TargetCore"]

ASSUMPTIONS = [
    "the socket layer delivers one complete reply frame per request (C12); connection set-up (RegisterSession, Forward Open) is C10/C11: "
    "the model starts from the driver's fields after the connection is open (`needfo` otherwise)",
    "service codes 0..127 (bit 7 is the reply bit; the target's message router rejects 128..255 as requests); they are exercised in the "
    "correspondence only",
    "class and attribute ids are 16-bit values (int < 65536 or bytes of length 1/2), instance ids go up to 32 bits (int < 2^32 or bytes of "
    "length 1/2/4): CIP Vol 1 C-1.4.2 allows the 32-bit logical format for instance ids only and the target's path reader follows it; "
    "wider class / attribute ids are exercised in the correspondence only",
    "a connected request fits the negotiated connection size (Large Forward Open accepted: 4000 bytes; sizes are C04) and an Unconnected "
    "Send's embedded message is shorter than 65536 bytes",
    "direct UCMM with an EXPLICIT route_path (str / segments / bytes): the library's own forward_open / forward_close rely on the route "
    "being appended after the request data; no requested-route semantics exists without an Unconnected Send, so these calls are "
    "exercised in the correspondence only (Props/C14.v keeps them in the guard); the default route_path=True is judged: the caller "
    "gave no route and none may arrive (former finding F13, repaired in /repo 1007c7c)",
    "route hops use port numbers 1..14 and link addresses 0..255 or dotted IPv4 text (ports >= 15 are C09's finding); route_path given "
    "as bytes is a well-formed `words, 0, port segments` string (the caller's responsibility)",
    "general status 0x06 with data is not judged as a refusal (partial transfer; the connected response class accepts it for five "
    "services, the unconnected one does not) — correspondence only",
    "data types of the judged decodings: fixed-width integers / reals, n_bytes(k >= 1), STRING / SHORT_STRING with their full announced "
    "length present, fixed arrays of integers / reals, and structs of those; the correspondence covers the codec model's type grammar (without StructTag/FixedSizeString/"
    "greedy arrays)",
    "get_plc_time: value['microseconds'] and whether value['datetime'] / value['string'] are present (None beyond datetime.max) are "
    "modelled, not their renderings; set_plc_time(None) (PC clock) is not",
    "an Unconnected Send asked for without a route (route_path False / [] / b'') is expected with an EMPTY route path (former finding, "
    "repaired in /repo 960b320)",
    "the reference target (Spec/TargetCore.v basic_handler): scratch objects 0x300..0x3FF echo services 0x4B..0x4F and store attributes; "
    "wall-clock attributes 6 and 11 are views of one microsecond counter",
]

HOST = "192.168.1.10"
PORT_NAMES = {1: ["bp", "backplane"], 2: ["enet", "cnet", "dnet", "dhrio-a", "dh485-a"], 3: ["dhrio-b", "dh485-b"]}
MULTI_PACKET = {0x52, 0x53, 0x55, 0x0A, 0x03}
DATETIME_MAX_US = 253402300799999999


# ------------------------------------------------------------------ small helpers
_SEEN_CLASSES = {}


def fail(R, what, case, observed, expected, cls):
    """R.fail, but at most 4 failures per input class are kept (framework keeps 200 in all: repeats of a
    known class must not crowd out a different failure); every hit is counted in the evidence"""
    n = _SEEN_CLASSES.get(cls, 0)
    _SEEN_CLASSES[cls] = n + 1
    R.count("oracle_failure_classes", cls)
    if n < 4:
        R.fail(what, case, observed, expected, cls)


def exc_code(e):
    import codec_common as cc
    from pycomm3.exceptions import CommError, RequestError, ResponseError
    if isinstance(e, CommError):
        return 3
    if isinstance(e, RequestError):
        return 4
    if isinstance(e, ResponseError):
        return 5
    return cc.exn_code(e)


def track_sequence(drv):
    """wrap the driver's sequence generator in a (real) generator that remembers the last count drawn; the
    harness never looks inside pycomm3's generator"""
    box = {"last": None}
    inner = drv._sequence

    def tracked():
        for v in inner:
            box["last"] = v
            yield v
    drv._sequence = tracked()
    drv._seq_box = box


def seq_state(drv):
    """the model's view of the generator (Gen/SeqGen.v cycle_step): its counter before the next iteration =
    the last count drawn + 1.  Before the first draw one count is drawn (and dropped) to synchronise."""
    if drv._seq_box["last"] is None:
        next(drv._sequence)
    return drv._seq_box["last"] + 1


def open_tracked(cls, path, tp, **kw):
    import target as T
    drv = T.open_driver(cls, path, tp, open=False, **kw)
    track_sequence(drv)
    drv.open()
    return drv


def spec_port_segment(port, link):
    """CIP Vol 1 C-1.4.1 port segment for port 1..14: link one byte, or extended link (size byte, bytes, pad to even)"""
    if isinstance(link, int):
        return bytes([port, link])
    lb = link.encode("ascii")
    seg = bytes([port | 0x10, len(lb)]) + lb
    return seg + (b"\x00" if len(seg) % 2 else b"")


def spec_route(hops):
    return b"".join(spec_port_segment(p, l) for p, l in hops)


def route_header(rb):
    return bytes([len(rb) // 2, 0]) + rb


def id_value(v):
    """the integer an id argument denotes (int, or little-endian bytes)"""
    return v if isinstance(v, int) else int.from_bytes(v, "little")


def id_is32(v):
    return (isinstance(v, int) and v > 0xFFFF) or (isinstance(v, bytes) and len(v) == 4)


def jid(v):
    return ["i", v] if isinstance(v, int) else ["b", v.hex()]


def unjid(j):
    return j[1] if j[0] == "i" else bytes.fromhex(j[1])


def lval_toks(v):
    return ["i", fw.t_int(v)] if isinstance(v, int) else ["b", fw.t_bytes(v)]


def link_toks(l):
    if isinstance(l, int):
        return ["i", fw.t_int(l)]
    if isinstance(l, str):
        return ["s", fw.t_text(l)]
    return ["b", fw.t_bytes(l)]


def port_seg_toks(port, link):
    return ["P"] + (["n", fw.t_int(port)] if isinstance(port, int) else ["s", fw.t_text(port)]) + link_toks(link)


def seg_obj_toks(s):
    """tokens of a real segment object of the driver's cip_path / a route_path list"""
    n = type(s).__name__
    if n == "PortSegment":
        return port_seg_toks(s.port, s.link_address)
    if n == "LogicalSegment":
        return ["L", fw.t_text(s.logical_type)] + lval_toks(s.logical_value)
    if isinstance(s, bytes):
        return ["R", fw.t_bytes(s)]
    raise ValueError(f"segment outside the model: {s!r}")


def drv_toks(drv, micro800=None):
    path = drv._cfg["cip_path"]
    toks = [fw.t_int(drv._session), fw.t_bytes(drv._target_cid or b""), "1" if drv._target_is_connected else "0",
            fw.t_bytes(drv._cfg["context"]), fw.t_int(drv._cfg["option"]), fw.t_int(seq_state(drv)),
            "1" if (getattr(drv, "_micro800", False) if micro800 is None else micro800) else "0", fw.t_int(len(path))]
    for s in path:
        toks += seg_obj_toks(s)
    return toks


# ------------------------------------------------------------------ cases
# case = {"svc": jid, "cls": jid, "ins": jid, "att": None | jid, "data": hex, "dt": None | td (nested lists), "mode": conn|ucmm|ucsend,
#         "route": ["true"] | ["false"] | ["empty"] | ["str", text] | ["bytes", hex] | ["segs", [[port, link], ...]],
#         "hops": [[port number, link], ...] | None (the route the caller means, for the oracle), "inject": None | [status, ext...]}
def td_tuple(j):
    if j is None:
        return None
    if isinstance(j, list):
        return tuple(td_tuple(x) for x in j)
    return j


def td_json(td):
    if isinstance(td, tuple):
        return [td_json(x) for x in td]
    return td


def case_kwargs(c):
    from pycomm3.cip import PortSegment
    import codec_common as cc
    kw = {"service": unjid(c["svc"]), "class_code": unjid(c["cls"]), "instance": unjid(c["ins"]),
          "request_data": bytes.fromhex(c["data"])}
    if c["att"] is not None:
        kw["attribute"] = unjid(c["att"])
    if c["dt"] is not None:
        kw["data_type"] = cc.ty_build(td_tuple(c["dt"]))
    if c["mode"] != "conn":
        kw["connected"] = False
        if c["mode"] == "ucsend":
            kw["unconnected_send"] = True
    r = c["route"]
    if r[0] == "false":
        kw["route_path"] = False
    elif r[0] == "empty":
        kw["route_path"] = []
    elif r[0] == "str":
        kw["route_path"] = r[1]
    elif r[0] == "bytes":
        kw["route_path"] = bytes.fromhex(r[1])
    elif r[0] == "segs":
        kw["route_path"] = [PortSegment(p, l) for p, l in r[1]]
    # "true": the default — the keyword is NOT passed
    return kw


def case_toks(c):
    import codec_common as cc
    t = lval_toks(unjid(c["svc"])) + lval_toks(unjid(c["cls"])) + lval_toks(unjid(c["ins"]))
    t += ["none"] if c["att"] is None else lval_toks(unjid(c["att"]))
    t += [fw.t_bytes(bytes.fromhex(c["data"]))]
    t += ["none"] if c["dt"] is None else cc.ty_tokens(td_tuple(c["dt"]))
    t += [fw.t_text("generic"), "1" if c["mode"] == "conn" else "0", "1" if c["mode"] == "ucsend" else "0"]
    r = c["route"]
    if r[0] in ("true", "false"):
        t += [r[0]]
    elif r[0] == "empty":
        t += ["segs", "0"]
    elif r[0] == "str":
        t += ["str", fw.t_text(r[1])]
    elif r[0] == "bytes":
        t += ["bytes", fw.t_bytes(bytes.fromhex(r[1]))]
    else:
        t += ["segs", fw.t_int(len(r[1]))]
        for p, l in r[1]:
            t += port_seg_toks(p, l)
    return t


# ------------------------------------------------------------------ independent decoders (oracle side)
INT_FMT = {"SINT": "<b", "INT": "<h", "DINT": "<i", "LINT": "<q", "USINT": "<B", "UINT": "<H", "UDINT": "<I", "ULINT": "<Q"}


def indep_decode(td, data, pos=0):
    """-> (canonical value, next position) or None when this little decoder does not judge the case"""
    import codec_common as cc
    k = td[0]
    if k == "elem":
        n = td[1]
        if n in INT_FMT:
            w = struct.calcsize(INT_FMT[n])
            if pos + w > len(data):
                return None
            return ("I", struct.unpack_from(INT_FMT[n], data, pos)[0]), pos + w
        if n in ("REAL", "LREAL"):
            w = 4 if n == "REAL" else 8
            if pos + w > len(data):
                return None
            x = struct.unpack_from("<f" if n == "REAL" else "<d", data, pos)[0]
            return cc.canon(x), pos + w
        if n in ("STRING", "SHORT_STRING"):
            lw = 2 if n == "STRING" else 1
            if pos + lw > len(data):
                return None
            ln = int.from_bytes(data[pos:pos + lw], "little")
            if pos + lw + ln > len(data):
                return None
            return ("S", tuple(data[pos + lw:pos + lw + ln])), pos + lw + ln
        return None
    if k == "nbytes":
        if td[1] < 1 or pos + td[1] > len(data):
            return None
        return ("Y", data[pos:pos + td[1]].hex()), pos + td[1]
    if k == "arr":
        out = []
        if not (td[2][0] == "elem" and (td[2][1] in INT_FMT or td[2][1] in ("REAL", "LREAL"))):
            return None          # arrays of integers / reals only (arrays of instances, bit arrays, strings: C06/C08)
        for _ in range(td[1]):
            r = indep_decode(td[2], data, pos)
            if r is None:
                return None
            out.append(r[0])
            pos = r[1]
        return ("L", tuple(out)), pos
    if k == "struct":
        out = []
        for name, t in td[1]:
            r = indep_decode(t, data, pos)
            if r is None:
                return None
            pos = r[1]
            if name:
                out = [(kk, vv) for kk, vv in out if kk != ("S", tuple(ord(ch) for ch in name))]
                out.append((("S", tuple(ord(ch) for ch in name)), r[0]))
        return ("D", tuple(out)), pos
    return None


def parse_reply(tp, raw):
    """the target's reply frame, read with the target's strict frame parser + the message-router reply layout
    (service|0x80, 0, general status, ext words, ext..., data) -> (status, [ext words], data) or None"""
    pf = tp.parseframe(raw)
    if "rej" in pf or pf["body"][0] != "cpf":
        return None
    item = pf["body"][4]
    if pf["body"][2] is not None:      # connected: sequence count first
        item = item[2:]
    if len(item) < 4:
        return None
    n = item[3]
    if len(item) < 4 + 2 * n:
        return None
    ext = [int.from_bytes(item[4 + 2 * i:6 + 2 * i], "little") for i in range(n)]
    return item[2], ext, item[4 + 2 * n:]


# ------------------------------------------------------------------ one generic_message case: correspondence + oracle
class Env:
    def __init__(self, R, tp, mp):
        self.R, self.tp, self.mp = R, tp, mp
        self.expect_route = None

    def set_expect(self, rb):
        if rb != self.expect_route:
            self.tp.cfg(expect_route=rb)
            self.expect_route = rb


def finding_class(c, scen):
    """input classes of the findings repaired in /repo (1007c7c, 960b320): a failure there is named after them"""
    if c["mode"] == "ucmm" and c["route"][0] == "true":
        return "generic_message:ucmm-default-route"
    if c["mode"] == "ucsend" and (c["route"][0] in ("false", "empty") or c["route"] == ["bytes", ""]):
        return "generic_message:ucsend-no-route"
    return None


def judged(c):
    """is the case inside the domain the oracle judges (see ASSUMPTIONS)?"""
    svc = unjid(c["svc"])
    if not (isinstance(svc, int) and 0 <= svc < 128):
        return False
    # CIP class and attribute ids are 16-bit (the 32-bit logical format exists for instance ids): ASSUMPTIONS
    v = unjid(c["cls"])
    if (isinstance(v, int) and not (0 <= v < 2 ** 16)) or (isinstance(v, bytes) and len(v) not in (1, 2)):
        return False
    v = unjid(c["ins"])
    if (isinstance(v, int) and not (0 <= v < 2 ** 32)) or (isinstance(v, bytes) and len(v) not in (1, 2, 4)):
        return False
    if c["att"] is not None:
        v = unjid(c["att"])
        if (isinstance(v, int) and not (0 <= v < 2 ** 16)) or (isinstance(v, bytes) and len(v) not in (0, 1, 2)):
            return False
    if c["mode"] == "ucmm" and c["route"][0] not in ("true", "false", "empty"):
        return False
    if c["mode"] == "ucsend" and c["route"][0] not in ("false", "empty") and c["route"] != ["bytes", ""] and c.get("hops") is None:
        return False
    return True


def run_case(env, drv, scen, c, where="gen"):
    R, tp, mp = env.R, env.tp, env.mp
    kw = case_kwargs(c)
    fs = drv.fakesock
    desc = {"scenario": scen, "case": c}
    # ---- the target's expectation of the route (its own check), and error injection
    hops = c.get("hops")
    want_route = None
    if c["mode"] == "ucsend":
        if c["route"][0] == "true":
            want_route = spec_route(scen["hops"])
        elif hops is not None:
            want_route = spec_route(hops)
        elif c["route"][0] in ("false", "empty") or c["route"] == ["bytes", ""]:
            want_route = b""                                   # no route = an empty route path
    env.set_expect(want_route if (c["mode"] == "ucsend" and want_route is not None and c.get("expect")) else None)
    inj = c.get("inject")
    if inj:
        tp.inject(0, unjid(c["svc"]) if isinstance(unjid(c["svc"]), int) else 0, inj[0], *inj[1:])
    # ---- model request side, from the driver's fields BEFORE the call
    dt0 = drv_toks(drv)
    n0, r0, l0 = len(fs.sent), len(fs.received), tp.log_size()
    # ---- implementation
    exc = tag = None
    try:
        tag = drv.generic_message(**kw)
    except Exception as e:  # noqa: BLE001
        exc = e
    sent = fs.sent[n0:]
    got = fs.received[r0:]
    if inj:                                   # an injection that did not fire (nothing was sent) must not hit a later case
        for _ in range(3):
            if not tp.injections():
                break
            drv.generic_message(service=unjid(c["svc"]), class_code=0x300, instance=1, connected=False, route_path=False)
        sent, got = sent[:1] if exc is None else sent, got[:1] if exc is None else got
    # ---- correspondence: frame, generator, exception
    ans = mp.ask("gm", *(dt0 + case_toks(c)))
    R.corr_checked += 1
    if not ans or str(ans[0]) == "ERR":
        R.disagree("model cannot read the case", desc, ans, "a gm answer")
        return
    m_seq, m_kind = ans[0], str(ans[1])
    impl_req = ("ok", sent[0]) if len(sent) == 1 else ("err", exc_code(exc)) if (exc is not None and not sent) else ("other", len(sent), repr(exc))
    model_req = ("ok", ans[2]) if m_kind == "ok" else ("err", ans[2]) if m_kind == "err" else (m_kind,)
    if impl_req != model_req:
        R.disagree("generic_message: frame written / exception", desc, model_req, impl_req)
    if m_seq != seq_state(drv):
        R.disagree("generic_message: sequence generator after the call", desc, m_seq, seq_state(drv))
    # ---- correspondence: the Tag
    if len(sent) == 1 and len(got) == 1:
        ra = mp.ask("resp", *(case_toks(c) + [fw.t_bytes(got[0])]))
        R.corr_checked += 1
        model_tag = canon_model_tag(ra)
        impl_tag = canon_impl_tag(tag, exc)
        if model_tag != impl_tag:
            R.disagree("generic_message: Tag returned for the reply", dict(desc, reply=got[0].hex()), model_tag, impl_tag)
    elif exc is not None and sent:
        R.disagree("generic_message raised after sending", desc, "a Tag", repr(exc))
    # ---- bookkeeping
    data = bytes.fromhex(c["data"])
    R.count("mode", c["mode"])
    R.count("route_form", c["mode"] + ":" + c["route"][0])
    R.count("data_len", "0" if not data else "1-9" if len(data) < 10 else "10-99" if len(data) < 100 else "100-499" if len(data) < 500 else "500+")
    R.count("data_parity", "odd" if len(data) % 2 else "even")
    R.count("id_widths", "/".join(("i" if isinstance(unjid(c[k]), int) else "b") + str(
        len(unjid(c[k])) if isinstance(unjid(c[k]), bytes) else 1 if unjid(c[k]) < 256 else 2 if unjid(c[k]) < 65536 else 4)
        for k in ("cls", "ins")) + ("" if c["att"] is None else "+att"))
    R.count("data_type", "none" if c["dt"] is None else "given")
    R.count("outcome", "exception:" + type(exc).__name__ if exc is not None else "tag-ok" if tag else "tag-falsy")
    R.count("stream", where)
    R.case(["gm", scen["name"], c], nontrivial=(len(sent) == 1))
    if exc is not None or len(sent) != 1:
        if judged(c) and where != "malformed" and c.get("wellformed", True):
            fail(R, "generic_message raised / sent nothing for an in-domain request", desc, repr(exc), "one frame and a Tag",
                   "generic_message:" + c["mode"] + ":raised")
        return
    if not judged(c):
        R.count("judged", "no")
        return
    R.count("judged", "yes")
    # ---- oracle 1: what the target logged == what the caller asked
    events = tp.log(l0)
    reqs = [e for e in events if e["ev"] == "request"]
    asked_cls, asked_ins = id_value(unjid(c["cls"])), id_value(unjid(c["ins"]))
    att_arg = None if c["att"] is None else unjid(c["att"])
    asked_att = id_value(att_arg) if att_arg else None          # 0 / b"" = no attribute (the documented default)
    svc = unjid(c["svc"])
    if c["mode"] == "conn":
        asked_tr = "conn"
    elif c["mode"] == "ucmm":
        asked_tr = "ucmm"
    else:
        asked_tr = "ucsend"
    asked = {"transport": asked_tr, "service": svc, "class": asked_cls, "instance": asked_ins, "attribute": asked_att,
             "data": data.hex(), "route": None if c["mode"] != "ucsend" else (want_route.hex() if want_route is not None else "")}
    seen = None
    if len(reqs) >= 1:
        e = reqs[0]
        pm = tp.parsemr(bytes([e["service"] & 0x7F, len(e["path"]) // 2]) + e["path"])
        cia = pm.get("cia")
        seen = {"transport": e["transport"][0], "service": e["service"], "class": cia[0] if cia else None,
                "instance": cia[1] if cia else None, "attribute": cia[2] if cia else None, "data": e["data"].hex(),
                "route": e["transport"][1].hex() if e["transport"][0] == "ucsend" else None, "path": e["path"].hex()}
    ok = seen is not None and len(reqs) == 1 and all(seen[k] == asked[k] for k in asked)
    # the spec reading of the frame itself (Spec/GenericSpec.v) must tell the same story as the live target's log
    ex = mp.ask("extract", fw.t_bytes(sent[0]))
    spec_seen = canon_extract(ex)
    if seen is not None and spec_seen is not None and len(reqs) == 1:
        live = (seen["transport"], seen["service"], seen["class"], seen["instance"], seen["attribute"], seen["data"], seen["route"])
        if spec_seen != live and not (want_route is not None and env.expect_route is not None):
            R.disagree("Spec/GenericSpec.spec_extract vs the live target's log", desc, spec_seen, live)
    fcls = finding_class(c, scen)
    if not ok:
        fail(R, "the target did not receive exactly the request the caller gave", desc, seen if seen is not None else events[:6], asked,
             fcls or ("generic_message:" + c["mode"]))
    # ---- oracle 2: the Tag == the target's answer
    if len(got) != 1:
        return
    rep = parse_reply(tp, got[0])
    if rep is None:
        R.disagree("the target's reply frame is not readable by its own parser", desc, got[0].hex(), "a reply")
        return
    status, ext, rdata = rep
    R.count("reply_status", "0" if status == 0 else "6" if status == 6 else "injected" if inj else "refused")
    if status == 6:
        return
    if status == 0:
        if c["dt"] is None:
            good = bool(tag) and tag.value == rdata and tag.error is None
            if not good:
                fail(R, "the reply data is not returned unchanged", desc, repr(tag), rdata.hex(), "generic_message:" + c["mode"] + ":reply-raw")
        else:
            import codec_common as cc
            r = indep_decode(td_tuple(c["dt"]), rdata)
            if r is not None:
                R.count("decoded_judged", "yes")
                good = bool(tag) and cc.canon(tag.value) == r[0] and tag.error is None
                if not good:
                    fail(R, "the reply data is not decoded with the supplied data type", desc, repr(tag), repr(r[0]),
                           "generic_message:" + c["mode"] + ":reply-decoded")
    else:
        from pycomm3.cip import SERVICE_STATUS
        text = SERVICE_STATUS.get(status, "%02x" % status)
        good = (not tag) and isinstance(tag.error, str) and (text.lower() in tag.error.lower())
        if not good:
            fail(R, "a refused request does not give a falsy Tag carrying the status text", desc, repr(tag), f"falsy, error naming status 0x{status:02x}",
                   "generic_message:" + c["mode"] + ":refused")


def canon_extract(ans):
    if not ans or str(ans[0]) != "ok":
        return None
    k = str(ans[1])
    if k == "conn":
        rest, tr, route = ans[4:], "conn", None
    elif k == "ucmm":
        rest, tr, route = ans[2:], "ucmm", None
    else:
        rest, tr, route = ans[5:], "ucsend", ans[4].hex()
    ses, svc, cl, ins, att, data = rest
    return (tr, svc, cl, ins, None if att < 0 else att, data.hex(), route)


def canon_gerr_tokens(ts, i):
    s = str(ts[i])
    if s == "N":
        return None, i + 1
    if s == "parse":
        return ("parse",), i + 1
    return ("t", ts[i + 1]), i + 2


def canon_model_tag(ans):
    import codec_common as cc
    k = str(ans[0])
    if k == "err":
        return ("exc", ans[1])
    if k == "hang":
        return ("hang",)
    if k != "tag":
        return ("?", [str(x) for x in ans])
    s = str(ans[1])
    if s == "N":
        val, i = None, 2
    elif s == "raw":
        val, i = ("raw", ans[2].hex()), 3
    else:
        v, i = cc.parse_val_tokens(ans, 2)
        val = ("val", v)
    err, _ = canon_gerr_tokens(ans, i)
    return ("tag", val, err)


def canon_err_text(e):
    if e is None:
        return None
    if e.startswith("Failed to parse reply - "):
        return ("parse",)
    return ("t", e)


def canon_impl_tag(tag, exc, raw_value=True):
    import codec_common as cc
    if exc is not None:
        return ("exc", exc_code(exc))
    if tag.value is None:
        val = None
    elif tag.type is None and isinstance(tag.value, bytes):
        val = ("raw", tag.value.hex())
    else:
        val = ("val", cc.canon(tag.value))
    return ("tag", val, canon_err_text(tag.error))


# ------------------------------------------------------------------ scenarios
def render_hops(rng, hops, names=True):
    parts = []
    for p, l in hops:
        parts.append(rng.choice(PORT_NAMES[p]) if names and p in PORT_NAMES and rng.random() < 0.6 else str(p))
        parts.append(str(l))
    return "/".join(parts)


def gen_hops(rng, kind):
    if kind == "none":
        return []
    if kind == "slot":
        return [[1, rng.choice([0, 1, 2, 3, 7, 16, 255, rng.randrange(256)])]]
    n = rng.choice([2, 2, 3, 4])
    hops = []
    for i in range(n):
        if rng.random() < 0.5:
            hops.append([rng.choice([1, 1, 2, 3, rng.randrange(1, 15)]), rng.randrange(256)])
        else:
            ip = ".".join(str(x) for x in (rng.choice([10, 172, 192]), rng.randrange(256), rng.randrange(256), rng.randrange(1, 255)))
            hops.append([rng.choice([2, 2, 3, rng.randrange(1, 15)]), ip])
    return hops


def open_scenario(env, rng, kind, driver="CIP", cfg=None):
    """-> (driver, scenario dict) with the connection already open (a first connected message)"""
    import target as T
    from pycomm3 import CIPDriver, LogixDriver
    env.tp.reset()
    env.expect_route = None
    if cfg:
        env.tp.cfg(**cfg)
    hops = gen_hops(rng, kind)
    if driver == "Logix" and not hops:
        hops = [[1, 0]]
        path = HOST
    elif driver == "Logix" and len(hops) == 1 and hops[0][0] == 1 and rng.random() < 0.5:
        path = HOST + "/" + str(hops[0][1])
    else:
        path = HOST + ("/" + render_hops(rng, hops) if hops else "")
    scen = {"name": f"{driver}:{kind}", "driver": driver, "path": path, "hops": hops, "cfg": {k: (v.hex() if isinstance(v, bytes) else v) for k, v in (cfg or {}).items()}}
    if driver == "Logix":
        drv = open_tracked(LogixDriver, path, env.tp, init_tags=False, init_program_tags=False)
    else:
        drv = open_tracked(CIPDriver, path, env.tp)
        warm = drv.generic_message(service=0x4B, class_code=0x300, instance=1, request_data=b"w")
        if not warm:
            raise RuntimeError(f"scenario {scen}: the connection did not open: {warm}")
    return drv, scen


def reopen(scen, env):
    """the scenario of a replay / corpus file on the real code"""
    import target as T
    from pycomm3 import CIPDriver, LogixDriver
    env.tp.reset()
    env.expect_route = None
    cfg = {k: (bytes.fromhex(v) if k in ("product_name", "plc_name", "ip") and isinstance(v, str) else v) for k, v in scen.get("cfg", {}).items()}
    if cfg:
        env.tp.cfg(**cfg)
    if scen["driver"] == "Logix":
        return open_tracked(LogixDriver, scen["path"], env.tp, init_tags=False, init_program_tags=False)
    drv = open_tracked(CIPDriver, scen["path"], env.tp)
    drv.generic_message(service=0x4B, class_code=0x300, instance=1, request_data=b"w")
    return drv


# ------------------------------------------------------------------ generators
def gen_id(rng, kind=None):
    kind = kind or rng.choice(["i8", "i8", "i16", "i16", "i32", "b1", "b2", "b4"])
    if kind == "i8":
        return rng.choice([0, 1, 2, 127, 128, 255, rng.randrange(256)])
    if kind == "i16":
        return rng.choice([256, 257, 0x300, 0xFFFF, rng.randrange(256, 65536)])
    if kind == "i32":
        return rng.choice([65536, 65537, 2 ** 32 - 1, rng.randrange(65536, 2 ** 32)])
    n = int(kind[1])
    return bytes(rng.randrange(256) for _ in range(n))


def scratch_class(rng, as_bytes=None):
    v = 0x300 + rng.randrange(256)
    if as_bytes is None:
        as_bytes = rng.random() < 0.3
    return struct.pack("<H", v) if as_bytes else v


def gen_data(rng, n=None):
    if n is None:
        n = rng.choice([0, 0, 1, 2, 3, 4, 5, 8, 9, rng.randrange(0, 40), rng.randrange(0, 601)])
    return bytes(rng.randrange(256) for _ in range(n))


def gen_route_arg(rng, mode, scen, healthy=True):
    """-> (route, hops the caller means)"""
    if mode == "conn":
        return rng.choice([["true"], ["true"], ["false"], ["str", "bp/1"]]), None
    if mode == "ucmm":
        return rng.choice([["true"], ["true"], ["false"], ["empty"]]), None
    r = rng.random()
    if r < 0.3:
        return ["true"], scen["hops"]
    hops = gen_hops(rng, rng.choice(["slot", "slot", "multi"]))
    if r < 0.55:
        return ["str", render_hops(rng, hops)], hops
    if r < 0.8:
        segs = [[(rng.choice(PORT_NAMES[p]) if p in PORT_NAMES and rng.random() < 0.4 else p), (str(l) if isinstance(l, int) and rng.random() < 0.3 else l)] for p, l in hops]
        return ["segs", segs], hops
    return ["bytes", route_header(spec_route(hops)).hex()], hops


SIMPLE_DTS = [("elem", "UINT"), ("elem", "DINT"), ("elem", "USINT"), ("elem", "ULINT"), ("elem", "LINT"), ("elem", "INT"), ("elem", "REAL"),
              ("elem", "STRING"), ("elem", "SHORT_STRING"), ("nbytes", 4), ("arr", 3, ("elem", "UINT")),
              ("struct", (("a", ("elem", "UINT")), ("b", ("elem", "DINT")))),
              ("struct", (("", ("nbytes", 6)), ("us", ("elem", "ULINT")))),
              ("struct", ((None, ("elem", "UINT")), ("n", ("elem", "SHORT_STRING"))))]


def usable_td(td):
    k = td[0]
    if k in ("fss", "stag", "arrall", "arrp"):
        return False
    if k == "named":
        return td[1] in ("Revision", "ModuleIdentityObject", "IPAddress")
    if k == "elem":
        return td[1] not in ("STRINGI",)
    if k == "arr":
        return usable_td(td[2])
    if k == "struct":
        return all(usable_td(t) for _, t in td[1])
    return True


def gen_dt(rng, wide=False):
    import codec_common as cc
    if not wide or rng.random() < 0.6:
        return rng.choice(SIMPLE_DTS)
    for _ in range(20):
        td = cc.gen_type(rng, depth=2)
        if usable_td(td):
            return td
    return ("elem", "UINT")


def data_for(rng, td):
    """request data that an echo turns into a decodable reply (mostly)"""
    import codec_common as cc
    try:
        v = cc.gen_value(rng, td)
        b = cc.ty_build(td).encode(v)
        if isinstance(b, (bytes, bytearray)) and len(b) <= 400:
            return bytes(b) if rng.random() < 0.85 else bytes(b)[:rng.randrange(len(b) + 1)]
    except Exception:  # noqa: BLE001
        pass
    return gen_data(rng, rng.randrange(0, 12))


def gen_case(rng, scen, mode=None, healthy=True, n=None, wide=False):
    mode = mode or rng.choice(["conn", "ucmm", "ucsend"])
    r = rng.random()
    dt = None
    att = None
    if r < 0.62:                                  # echo on a scratch object
        svc, cls, ins = rng.choice([0x4B, 0x4C, 0x4D, 0x4E, 0x4F]), scratch_class(rng), gen_id(rng, rng.choice(["i8", "i16", "i32", "b1", "b2", "b4"]))
        if rng.random() < 0.4:
            att = gen_id(rng, rng.choice(["i8", "i16", "b1", "b2"]))
        if rng.random() < 0.3:
            dt = gen_dt(rng, wide)
    elif r < 0.78:                                # set / get attribute single on a scratch object
        svc, cls, ins = rng.choice([0x10, 0x0E]), scratch_class(rng), gen_id(rng, "i8")
        att = gen_id(rng, rng.choice(["i8", "i8", "i16", "b1"]))
    else:                                         # any service, any object (mostly refused by the target)
        svc = rng.randrange(128)
        cls = gen_id(rng, rng.choice(["i8", "i16", "b1", "b2"]))
        while id_value(cls) in (2, 6):            # message router / connection manager: not scratch material
            cls = gen_id(rng, "i8")
        ins = gen_id(rng, rng.choice(["i8", "i16", "i32", "b1", "b2", "b4"]))
        if rng.random() < 0.5:
            att = gen_id(rng, rng.choice(["i8", "i16", "b1", "b2"]))
    if att is not None and rng.random() < 0.08:
        att = rng.choice([0, b""])
    if dt is not None and n is None:
        data = data_for(rng, dt)
    else:
        data = gen_data(rng, n)
    route, hops = gen_route_arg(rng, mode, scen, healthy)
    c = {"svc": jid(svc), "cls": jid(cls), "ins": jid(ins), "att": None if att is None else jid(att), "data": data.hex(),
         "dt": None if dt is None else td_json(dt), "mode": mode, "route": route, "hops": hops, "inject": None}
    if mode == "ucsend" and hops is not None and rng.random() < 0.5:
        c["expect"] = True
    if rng.random() < 0.12:
        st = rng.choice([1, 2, 4, 5, 8, 0x0C, 0x10, 0x13, 0x1F, 0xFF, rng.randrange(1, 256)])
        if st != 6:
            c["inject"] = [st] + [rng.randrange(65536) for _ in range(rng.choice([0, 0, 1, 1, 2]))]
    return c


def gen_malformed(rng, scen):
    """arguments outside the documented domain: both sides must raise the same class / build the same bytes"""
    c = gen_case(rng, scen, healthy=rng.random() < 0.7)
    c["inject"] = None
    k = rng.randrange(12)
    if k == 0:
        c["svc"] = jid(rng.choice([256, -1, 1000, 128, 200, 255]))
    elif k == 1:
        c["svc"] = jid(bytes(rng.randrange(256) for _ in range(rng.choice([0, 2, 3]))))
    elif k == 2:
        c["cls"] = jid(bytes(rng.randrange(256) for _ in range(rng.choice([0, 3, 5, 8]))))
    elif k == 3:
        c["ins"] = jid(rng.choice([2 ** 32, 2 ** 40, -1, -300]))
    elif k == 4:
        c["att"] = jid(rng.choice([2 ** 32, -1, bytes(3), bytes(5)]))
    elif k == 5 and c["mode"] != "conn":
        c["route"] = ["str", rng.choice(["bp", "", "1/2/3", "bp/x", "foo/1", "bp/256", "bp/1.2.3", "//", "bp//1", "1/2/"])]
        c["hops"] = None
    elif k == 6 and c["mode"] != "conn":
        c["route"] = ["segs", [[rng.choice(["nope", -1, 0, "bp", 1]), rng.choice([1, 256, -1, "10.0.0.300", "x"])]]]
        c["hops"] = None
    elif k == 7 and c["mode"] != "conn":
        c["route"] = ["bytes", bytes(rng.randrange(256) for _ in range(rng.randrange(0, 9))).hex()]
        c["hops"] = None
    elif k == 8:
        c[rng.choice(["cls", "att"])] = jid(gen_id(rng, rng.choice(["i32", "b4"])))
    elif k == 9:
        c["mode"] = "ucmm"
        hops = gen_hops(rng, "slot")
        c["route"] = rng.choice([["str", render_hops(rng, hops)], ["bytes", route_header(spec_route(hops)).hex()], ["segs", hops]])
        c["hops"] = hops
    elif k == 10:
        c["svc"] = jid(rng.randrange(128, 256))
    c["wellformed"] = False
    return c


# ------------------------------------------------------------------ helpers (LogixDriver / get_module_info)
def helper_corr(env, drv, scen, hname, htoks, call, micro800=None):
    """run one helper on the real driver and the model: frame, generator, result"""
    R, tp, mp = env.R, env.tp, env.mp
    fs = drv.fakesock
    desc = {"scenario": scen, "helper": hname, "args": htoks}
    dt0 = drv_toks(drv, micro800)
    n0, r0, l0 = len(fs.sent), len(fs.received), tp.log_size()
    exc = res = None
    try:
        res = call()
    except Exception as e:  # noqa: BLE001
        exc = e
    sent, got = fs.sent[n0:], fs.received[r0:]
    ans = mp.ask("hreq", *(dt0 + htoks))
    R.corr_checked += 1
    m_kind = str(ans[1]) if len(ans) > 1 else "ERR"
    model_req = ("ok", ans[2]) if m_kind == "ok" else ("err", ans[2]) if m_kind == "err" else (m_kind,)
    impl_req = ("ok", sent[0]) if len(sent) == 1 else ("err", exc_code(exc)) if (exc is not None and not sent) else ("other", len(sent), repr(exc))
    if model_req != impl_req:
        R.disagree(f"{hname}: frame written / exception", desc, model_req, impl_req)
    elif ans[0] != seq_state(drv):
        R.disagree(f"{hname}: sequence generator after the call", desc, ans[0], seq_state(drv))
    if len(sent) == 1 and len(got) == 1:
        ra = mp.ask("hresp", *(dt0 + htoks + [fw.t_bytes(got[0])]))
        R.corr_checked += 1
        mres = canon_model_helper(ra)
        ires = canon_impl_helper(hname, res, exc)
        if mres != ires:
            R.disagree(f"{hname}: result for the reply", dict(desc, reply=got[0].hex()), mres, ires)
    R.count("helper", hname)
    R.case(["helper", scen["name"], hname, htoks], nontrivial=len(sent) == 1)
    return res, exc, sent, got, tp.log(l0)


def canon_model_helper(ans):
    import codec_common as cc
    k = str(ans[0])
    if k == "err":
        return ("exc", ans[1])
    if k == "ok":
        return ("val", cc.parse_val_tokens(ans, 1)[0])
    if k == "time":
        us = None if isinstance(ans[1], fw.Sym) else ans[1]
        return ("time", us, bool(ans[2]), canon_gerr_tokens(ans, 3)[0])
    if k == "tag":
        return canon_model_tag(ans)
    return ("?", [str(x) for x in ans])


def canon_impl_helper(hname, res, exc):
    import codec_common as cc
    if exc is not None:
        return ("exc", exc_code(exc))
    if hname == "get_plc_time":
        if res.value is None:
            return ("time", None, False, canon_err_text(res.error))
        both = (res.value["datetime"] is not None, res.value["string"] is not None)
        return ("time", res.value["microseconds"], both[0] if both[0] == both[1] else ("mixed", both), canon_err_text(res.error))
    if hname == "set_plc_time":
        return canon_impl_tag(res, None)
    return ("val", cc.canon(res))


def expect_request(R, desc, events, transport, svc, cia, data, cls, route=None):
    reqs = [e for e in events if e["ev"] == "request"]
    seen = None
    if reqs:
        e = reqs[0]
        pm = desc["_tp"].parsemr(bytes([e["service"] & 0x7F, len(e["path"]) // 2]) + e["path"])
        seen = {"transport": e["transport"][0], "route": e["transport"][1].hex() if e["transport"][0] == "ucsend" else None,
                "service": e["service"], "cia": list(pm["cia"]) if pm.get("cia") else None, "data": e["data"].hex()}
    asked = {"transport": transport, "route": route.hex() if route is not None else None, "service": svc, "cia": list(cia), "data": data.hex()}
    d = {k: v for k, v in desc.items() if k != "_tp"}
    if seen != asked or len(reqs) != 1:
        fail(R, "the target did not receive exactly the helper's request", d, seen, asked, cls)
        return False
    return True


def run_helpers(env, rng, thorough):
    """LogixDriver helpers and get_module_info against the live target: correspondence + oracle"""
    import target as T
    from pycomm3 import CIPDriver, LogixDriver
    from pycomm3.cip import VENDORS, PRODUCT_TYPES
    R, tp = env.R, env.tp
    rounds = 12 if thorough else 4
    for rd in range(rounds):
        name = bytes(rng.choice(b"ABCDEFGHIJKLMNOPQRSTUVWXYZabcdefghijklmnopqrstuvwxyz_0123456789") for _ in range(rng.choice([0, 1, 5, 17, 40])))
        ident = {"vendor": rng.choice([1, 1, 5, 9999, 0xFFFF]), "device_type": rng.choice([14, 12, 0, 999]), "product_code": rng.randrange(65536),
                 "rev_major": rng.choice([1, 20, 21, 32, 33, 255]), "rev_minor": rng.randrange(256),
                 "status": rng.choice([0x3060, 0x3160, 0x2070, 0x3070, 0, 0xFFFF, rng.randrange(65536)]), "serial": rng.randrange(2 ** 32),
                 "product_name": b"1756-L8" + bytes(rng.choice(b"0123456789ESB/") for _ in range(rng.randrange(0, 20)))}
        clock0 = rng.randrange(2 ** 52)
        kind = rng.choice(["none", "slot", "multi"])
        try:
            drv, scen = open_scenario(env, rng, kind, "Logix", dict(ident, plc_name=name, clock_us=clock0))
        except Exception as e:  # noqa: BLE001
            R.disagree("LogixDriver.open against the reference target failed", {"kind": kind, "ident": {k: (v.hex() if isinstance(v, bytes) else v) for k, v in ident.items()}}, "open", repr(e))
            continue
        route = spec_route(scen["hops"])
        base = {"scenario": scen, "_tp": tp}
        # --- get_plc_name
        res, exc, sent, got, ev = helper_corr(env, drv, scen, "get_plc_name", ["plcname"], drv.get_plc_name)
        R.evaluations += 1
        if expect_request(R, dict(base, helper="get_plc_name"), ev, "conn", 1, (0x64, 1, None), b"", "get_plc_name:request"):
            if exc is not None or res != name.decode("latin-1"):
                fail(R, "get_plc_name does not return the program name the target holds", {"scenario": scen}, repr(res if exc is None else exc), name.decode("latin-1"), "get_plc_name:reply")
        # --- get_plc_info (Unconnected Send along the driver's route)
        res, exc, sent, got, ev = helper_corr(env, drv, scen, "get_plc_info", ["plcinfo"], drv.get_plc_info)
        R.evaluations += 1
        if expect_request(R, dict(base, helper="get_plc_info"), ev, "ucsend", 1, (1, 1, None), b"", "get_plc_info:request", route):
            want = {"vendor": VENDORS.get(ident["vendor"], "UNKNOWN"), "product_type": PRODUCT_TYPES.get(ident["device_type"], "UNKNOWN"),
                    "product_code": ident["product_code"], "revision": {"major": ident["rev_major"], "minor": ident["rev_minor"]},
                    "status": struct.pack("<H", ident["status"]), "serial": "%08x" % ident["serial"], "product_name": ident["product_name"].decode("latin-1")}
            gotd = None if exc is not None else {k: v for k, v in res.items() if k != "keyswitch"}
            if gotd != want:
                fail(R, "get_plc_info does not return the identity the target holds", {"scenario": scen}, repr(res if exc is None else exc), repr(want), "get_plc_info:reply")
        # --- refusals
        for hname, htoks, call, svc in (("get_plc_name", ["plcname"], drv.get_plc_name, 1), ("get_plc_info", ["plcinfo"], drv.get_plc_info, 1)):
            tp.inject(0, svc, rng.choice([5, 8, 0x0C, 0x1F]), *([rng.randrange(65536)] if rng.random() < 0.5 else []))
            res, exc, sent, got, ev = helper_corr(env, drv, scen, hname, htoks, call)
            R.evaluations += 1
            from pycomm3.exceptions import ResponseError
            if not isinstance(exc, ResponseError):
                fail(R, "a refused helper request does not raise ResponseError", {"scenario": scen, "helper": hname}, repr(res if exc is None else exc), "ResponseError", hname + ":refused")
        # --- time
        times = [0, 1, clock0, 2 ** 32, 2 ** 32 - 1, 1_700_000_000_123_456, DATETIME_MAX_US, rng.randrange(DATETIME_MAX_US), rng.randrange(2 ** 40),
                 rng.randrange(DATETIME_MAX_US)]
        if rd == 0 or thorough:
            times += [DATETIME_MAX_US + 1, 2 ** 63, 2 ** 64 - 1]
        res, exc, sent, got, ev = helper_corr(env, drv, scen, "get_plc_time", ["gettime"], drv.get_plc_time)
        R.evaluations += 1
        if exc is not None or not res or res.value["microseconds"] != clock0:
            fail(R, "get_plc_time does not report the target's clock", {"scenario": scen, "clock_us": clock0}, repr(res if exc is None else exc), clock0, "get_plc_time:reply")
        for t in times:
            res, exc, sent, got, ev = helper_corr(env, drv, scen, "set_plc_time", ["settime", fw.t_int(t)], lambda: drv.set_plc_time(t))
            R.evaluations += 1
            R.count("time_class", "beyond-datetime-max" if t > DATETIME_MAX_US else "boundary" if t in (0, 1, 2 ** 32, 2 ** 32 - 1, DATETIME_MAX_US) else "random")
            okreq = expect_request(R, dict(base, helper="set_plc_time", us=t), ev, "conn", 4, (0x8B, 1, None),
                                   struct.pack("<HHQ", 1, 6, t), "set_plc_time:request")
            if exc is not None or not res or tp.clock() != t:
                fail(R, "set_plc_time does not set the target's clock", {"scenario": scen, "us": t}, [repr(res if exc is None else exc), tp.clock()], t, "set_plc_time:reply")
                continue
            res, exc, sent, got, ev = helper_corr(env, drv, scen, "get_plc_time", ["gettime"], drv.get_plc_time)
            expect_request(R, dict(base, helper="get_plc_time"), ev, "conn", 3, (0x8B, 1, None), bytes([1, 0, 11, 0]), "get_plc_time:request")
            good = exc is None and bool(res) and res.value["microseconds"] == t
            if not good:
                fail(R, "the time written with set_plc_time is not the time get_plc_time reports", {"scenario": scen, "us": t},
                       repr(res if exc is None else exc), t,
                       "get_plc_time:beyond-datetime-max" if t > DATETIME_MAX_US else "time_roundtrip")
        tp.inject(0, 3, 0x08)
        res, exc, sent, got, ev = helper_corr(env, drv, scen, "get_plc_time", ["gettime"], drv.get_plc_time)
        if exc is not None or res or not res.error:
            fail(R, "a refused get_plc_time does not give a falsy Tag with an error", {"scenario": scen}, repr(res if exc is None else exc), "falsy Tag", "get_plc_time:refused")
        tp.inject(0, 4, 0x0E)
        res, exc, sent, got, ev = helper_corr(env, drv, scen, "set_plc_time", ["settime", "5"], lambda: drv.set_plc_time(5))
        if exc is not None or res or not res.error:
            fail(R, "a refused set_plc_time does not give a falsy Tag with an error", {"scenario": scen}, repr(res if exc is None else exc), "falsy Tag", "set_plc_time:refused")
        # --- get_module_info (any driver class has it)
        for slot in [0, rng.randrange(256), 255]:
            res, exc, sent, got, ev = helper_corr(env, drv, scen, "get_module_info", ["modinfo", fw.t_int(slot)], lambda: drv.get_module_info(slot))
            R.evaluations += 1
            mroute = spec_route(scen["hops"][:-1] + [[1, slot]])
            if expect_request(R, dict(base, helper="get_module_info", slot=slot), ev, "ucsend", 1, (1, 1, None), b"", "get_module_info:request", mroute):
                if exc is not None or res.get("product_code") != ident["product_code"] or res.get("serial") != "%08x" % ident["serial"]:
                    fail(R, "get_module_info does not return the identity the target holds", {"scenario": scen, "slot": slot}, repr(res if exc is None else exc), ident["product_code"], "get_module_info:reply")
        try:
            drv.close()
        except Exception:  # noqa: BLE001
            pass
    # ---- Micro800 flavour: get_plc_info goes through UCMM directly
    for rd in range(2 if not thorough else 6):
        pname = b"2080-LC50-" + bytes(rng.choice(b"0123456789QWB") for _ in range(5))
        try:
            drv, scen = open_scenario(env, rng, rng.choice(["none", "slot"]), "Logix", {"product_name": pname, "product_code": rng.randrange(65536)})
        except Exception as e:  # noqa: BLE001
            R.disagree("LogixDriver.open (Micro800) against the reference target failed", {"product_name": pname.hex()}, "open", repr(e))
            continue
        scen["micro800"] = True
        # the call made inside open(): the first message-router request the target saw
        first = [e for e in tp.log() if e["ev"] == "request"]
        R.evaluations += 1
        if not (first and first[0]["transport"] == ("ucmm",) and first[0]["service"] == 1 and first[0]["data"] == b""
                and tp.parsemr(bytes([1, len(first[0]["path"]) // 2]) + first[0]["path"]).get("cia") == (1, 1, None)):
            fail(R, "the target did not receive exactly the helper's request", {"scenario": scen, "helper": "get_plc_info (inside open)"},
                 first[:1], "Get_Attributes_All of the Identity object, no data, through UCMM", "get_plc_info:micro800:ucmm-default-route")
        res, exc, sent, got, ev = helper_corr(env, drv, scen, "get_plc_info", ["plcinfo"], drv.get_plc_info)
        R.evaluations += 1
        expect_request(R, {"scenario": scen, "_tp": tp, "helper": "get_plc_info"}, ev, "ucmm", 1, (1, 1, None), b"",
                       "get_plc_info:micro800:ucmm-default-route")
        if exc is not None or res.get("product_name") != pname.decode("latin-1"):
            fail(R, "get_plc_info does not return the identity the target holds", {"scenario": scen}, repr(res if exc is None else exc), pname.decode("latin-1"), "get_plc_info:micro800:reply")
        # the target logs EvMalformed <service> 80 when data arrives with a service that takes none
        mal = [e for e in tp.log() if e["ev"] == "malformed"]
        R.evaluations += 1
        if mal:
            fail(R, "the Identity object received data with Get_Attributes_All", {"scenario": scen, "helper": "get_plc_info"}, mal[:3], "no malformed event",
                 "get_plc_info:micro800:ucmm-default-route")
        try:
            drv.close()
        except Exception:  # noqa: BLE001
            pass
    # ---- get_module_info on a CIPDriver with a multi-hop path
    for rd in range(2 if not thorough else 8):
        drv, scen = open_scenario(env, rng, rng.choice(["slot", "multi", "none"]), "CIP")
        for slot in [rng.randrange(256), 0]:
            res, exc, sent, got, ev = helper_corr(env, drv, scen, "get_module_info", ["modinfo", fw.t_int(slot)], lambda: drv.get_module_info(slot))
            R.evaluations += 1
            mroute = spec_route(scen["hops"][:-1] + [[1, slot]])
            expect_request(R, {"scenario": scen, "_tp": tp, "helper": "get_module_info", "slot": slot}, ev, "ucsend", 1, (1, 1, None), b"", "get_module_info:request", mroute)
        # a slot outside USINT: the route cannot be encoded -> ResponseError on both sides
        helper_corr(env, drv, scen, "get_module_info", ["modinfo", "256"], lambda: drv.get_module_info(256))
        drv.close()


# ------------------------------------------------------------------ run
def run_corpus(env):
    d = os.path.join(fw.VERIF, "corpus", "C14")
    if not os.path.isdir(d):
        return
    import json
    for fn in sorted(os.listdir(d)):
        if not fn.endswith(".json"):
            continue
        doc = json.load(open(os.path.join(d, fn)))
        for ent in doc.get("entries", []):
            drv = reopen(ent["scenario"], env)
            for c in ent["cases"]:
                run_case(env, drv, ent["scenario"], c, where="corpus")
            try:
                drv.close()
            except Exception:  # noqa: BLE001
                pass


def run(R, escalate=False):
    import target as T
    thorough = R.tier == "thorough" or escalate
    rng = R.rng
    logging.disable(logging.CRITICAL)
    R.rule = ("real CIPDriver.generic_message / LogixDriver helpers against the live reference target; per case: model frame == frame "
              "written (byte for byte), model generator == driver generator, model Tag == Tag, and the ORACLE: the request event logged by "
              "the target (transport, service, class/instance/attribute read by the target's path reader, data, route) == what the caller "
              "asked, Tag == reply data of the target's frame (raw / independently decoded), refusals (also injected) -> falsy Tag with the "
              "status text; set_plc_time/get_plc_time round trip on boundary and random times. Streams: corpus; every data length 0..600 in "
              "each of the three modes; random services/ids/data types/routes (none, slot, multi-hop with IP links) given as True/False/"
              "str/segments/bytes; the known-finding classes; a malformed stream (out-of-range arguments, bad routes, 128..255 services, "
              "explicit routes on direct UCMM). non-trivial = distinct case for which a frame was written")
    tp = T.TargetProc("targetcore")
    mp = fw.ModelProc("C14")
    env = Env(R, tp, mp)
    try:
        _SEEN_CLASSES.clear()
        run_corpus(env)
        run_helpers(env, rng, thorough)
        # ---- every data length in every mode (odd and even pads)
        top = 601 if not thorough else 1501
        for mode in ("conn", "ucmm", "ucsend"):
            drv, scen = open_scenario(env, rng, rng.choice(["slot", "multi"]) if mode == "ucsend" else rng.choice(["none", "slot"]), "CIP")
            for n in range(top):
                c = gen_case(rng, scen, mode=mode, n=n)
                c["dt"] = None
                run_case(env, drv, scen, c, where="lengths")
            drv.close()
        # ---- random stream over scenarios
        n_scen = 10 if not thorough else 120
        per = 220 if not thorough else 600
        for si in range(n_scen):
            kind = ["none", "slot", "multi"][si % 3]
            drv, scen = open_scenario(env, rng, kind, "CIP" if si % 4 else "Logix")
            if si % 5 == 3:                       # sequence counter about to wrap
                for _ in range(65535 - seq_state(drv) - rng.randrange(3, 40)):
                    next(drv._sequence)
            for i in range(per):
                r = rng.random()
                if r < 0.80:
                    run_case(env, drv, scen, gen_case(rng, scen, wide=thorough or i % 3 == 0), where="random")
                elif r < 0.86:                    # the input classes of the repaired findings
                    c = gen_case(rng, scen, mode="ucsend")
                    c["route"], c["hops"] = rng.choice([["false"], ["empty"], ["bytes", ""]]), None
                    c["inject"] = None
                    run_case(env, drv, scen, c, where="repaired-classes")
                else:
                    run_case(env, drv, scen, gen_malformed(rng, scen), where="malformed")
            try:
                drv.close()
            except Exception:  # noqa: BLE001
                pass
    finally:
        logging.disable(logging.NOTSET)
        tp.close()
        mp.close()


def replay(R, rp):
    """re-run the failing case of a replay file (or a known finding's `replay` object) on the real code"""
    import target as T
    logging.disable(logging.CRITICAL)
    tp = T.TargetProc("targetcore")
    mp = fw.ModelProc("C14")
    env = Env(R, tp, mp)
    try:
        run_corpus(env)
        f = rp.get("failure") or rp
        case = f if ("scenario" in f and "case" in f) else (f.get("case") or f)
        if isinstance(case, dict) and "scenario" in case and "case" in case:
            drv = reopen(case["scenario"], env)
            run_case(env, drv, case["scenario"], case["case"], where="replay")
        else:
            run_helpers(env, R.rng, False)
    finally:
        logging.disable(logging.NOTSET)
        tp.close()
        mp.close()
