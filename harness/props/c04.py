"""C04 — connected requests fit the connection; large data is tiled by fragments.

Tie: the planners of LogixDriver (`_read_build_requests`, `_write_build_requests`) and the fragment
loops (`_send_write_fragmented`, `_send_read_fragmented`) are run on a driver whose tag database is
synthetic and whose `_send`/`_receive` are replaced from outside (no socket, no change to /repo); the
same abstract inputs go to the extracted planner model (Model/LogixPlan.v via bin/modelrun_c04).

Oracle on the implementation (independent of the model, computed from the request list and the tag
database the harness generated): every packet of a plan, encoded by the real `build_request`, has a
connected data item no larger than the connection size; the reply a multi-service / single read
solicits (computed from the CIP reply layout: 2 sequence + 4 reply header + 2 count + per service
2 offset + 4 header + type + data) is no larger either; every valid request is in exactly one
packet; fragmented writes emit offsets 0, |s1|, |s1|+|s2|, ... whose segments concatenate to the
value; fragmented reads ask each time for the number of bytes received so far and reassemble the
value, for arbitrary fragment-length policies of the peer."""
import struct

import framework as fw

EXTRA_MODELS = ["TargetCore"]

ASSUMPTIONS = [
    "the connection size bounds the whole connected data item (sequence count included) in both directions",
    "reply layout of the Logix tag services as in DESIGN.md Appendix A (type field 2 bytes, 4 for structures)",
    "planner inputs (data size, message length) are measured on the real packet objects; their computation is covered by C09 (paths) and C01/C02 (parsing)",
]

ATOMS = {"SINT": 1, "INT": 2, "DINT": 4, "LINT": 8, "REAL": 4, "USINT": 1, "UINT": 2, "LREAL": 8}


class Hang(BaseException):
    pass


def mk_tags(rng):
    """a synthetic tag database in the shape _create_tag produces"""
    from pycomm3.cip import DataTypes, Array
    tags = {}
    iid = [rng.choice([3, 200, 300, 70000])]

    def add(name, dt, n):
        iid[0] += rng.choice([1, 1, 7, 300])
        cls = DataTypes.get(dt)
        tags[name] = {"tag_name": name, "dim": 1 if n else 0, "dimensions": [n, 0, 0], "instance_id": iid[0], "alias": False,
                      "external_access": "Read/Write", "data_type": dt, "data_type_name": dt, "tag_type": "atomic",
                      "type_class": Array(length_=n, element_type_=cls) if n else cls}

    for dt in ATOMS:
        add("a_" + dt, dt, 0)
    # small tags with long symbolic names: the request entry is much larger than the reply entry
    for dt in ("BOOL", "SINT", "INT"):
        if dt in ATOMS:
            add("Long_%s_" % dt + "n" * rng.choice([20, 31, 33]), dt, 0)
    for i, (dt, n) in enumerate([("SINT", 10000), ("INT", 6000), ("DINT", 3000), ("LINT", 1500), ("REAL", 3000), ("SINT", 9000)]):
        add("arr%d_%s" % (i, dt) + "x" * rng.randrange(0, 30), dt, n)
    add("bools", "DWORD", 400)
    # structure tags (read planning uses structure_size only; writes take bytes)
    for i, sz in enumerate([8, 88, 92, 480, 484, 488, 492, 496, 500, 3976, 3980, 3984, 3988, 3992, 3996, 4000, 4004, 7000]):
        iid[0] += 1
        name = "st%d" % i + "y" * (i % 5)
        tags[name] = {"tag_name": name, "dim": 0, "dimensions": [0, 0, 0], "instance_id": iid[0], "alias": False,
                      "external_access": "Read/Write", "tag_type": "struct", "data_type_name": "UDT%d" % i,
                      "template_instance_id": 0x100 + i,
                      "data_type": {"name": "UDT%d" % i, "internal_tags": {}, "attributes": [],
                                    "template": {"structure_size": sz, "structure_handle": 0x1000 + i}},
                      "type_class": None}
    return tags


def mk_driver(conn, micro, use_ids, tags):
    from pycomm3 import LogixDriver
    d = LogixDriver("10.0.0.1", init_tags=False, init_program_tags=False)
    d._cfg["connection_size"] = conn
    d._cfg["use_instance_ids"] = use_ids
    d._micro800 = micro
    d._tags = tags
    d._target_is_connected = True
    d._connection_opened = True
    d._session = 0x11223344
    d._target_cid = b"\x01\x02\x03\x04"
    return d


def data_item_len(frame):
    """length of the connected data item of a SendUnitData frame (strictly parsed)"""
    assert frame[0:2] == b"\x70\x00", frame[:2]
    ln = struct.unpack_from("<H", frame, 2)[0]
    assert ln == len(frame) - 24
    cnt = struct.unpack_from("<H", frame, 30)[0]
    assert cnt == 2
    at, al = struct.unpack_from("<HH", frame, 32)
    assert (at, al) == (0xA1, 4)
    dt, dl = struct.unpack_from("<HH", frame, 40)
    assert dt == 0xB1 and dl == len(frame) - 44
    return dl


def plan_of(requests):
    from pycomm3.packets import (MultiServiceRequestPacket, ReadTagFragmentedRequestPacket, WriteTagFragmentedRequestPacket,
                                 ReadModifyWriteRequestPacket)
    out = []
    for r in requests:
        if isinstance(r, MultiServiceRequestPacket):
            out += [fw.Sym("M"), len(r.requests)] + [x.request_id for x in r.requests]
        elif isinstance(r, (ReadTagFragmentedRequestPacket, WriteTagFragmentedRequestPacket)):
            out += [fw.Sym("F"), r.request_id]
        elif isinstance(r, ReadModifyWriteRequestPacket):
            out += [fw.Sym("R"), r.request_id, len(r._request_ids)] + list(r._request_ids)
        else:
            out += [fw.Sym("S"), r.request_id]
    return out


def plan_ids(plan):
    ids, i = [], 0
    while i < len(plan):
        k = str(plan[i])
        if k == "M":
            n = plan[i + 1]
            ids += plan[i + 2:i + 2 + n]
            i += 2 + n
        elif k == "R":
            n = plan[i + 2]
            ids += plan[i + 3:i + 3 + n]
            i += 3 + n
        else:
            ids.append(plan[i + 1])
            i += 2
    return ids


def unit_reply(service, status, data, seq=1):
    """a SendUnitData reply frame carrying one message-router reply"""
    mr = bytes([service | 0x80, 0, status, 0]) + data
    item = struct.pack("<H", seq) + mr
    body = bytes(4) + b"\x0a\x00" + struct.pack("<H", 2) + struct.pack("<HH", 0xA1, 4) + b"\x01\x02\x03\x04" + struct.pack("<HH", 0xB1, len(item)) + item
    return b"\x70\x00" + struct.pack("<H", len(body)) + struct.pack("<I", 0x11223344) + bytes(4) + bytes(8) + bytes(4) + body


def tlen_of(info):
    return 4 if info["tag_type"] == "struct" else 2


def elem_size(info):
    from pycomm3.cip import DataTypes
    return info["data_type"]["template"]["structure_size"] if info["tag_type"] == "struct" else DataTypes[info["data_type"]].size


def gen_read_requests(rng, tags, conn, thorough):
    """request lists whose sizes straddle every boundary of the planners"""
    names = list(tags)
    arrs = [n for n in names if tags[n]["dim"] and tags[n]["data_type"] != "DWORD"]
    lists = []
    # boundary sweeps: one array request whose data size is conn - k, alone, first, middle and last in a call
    small = [n for n in names if not tags[n]["dim"] and tags[n]["tag_type"] == "atomic"]
    ks = range(-4, 40) if thorough else [-2, 0, 1, 5, 8, 9, 10, 11, 12, 14, 15, 16, 17, 18, 20, 21, 22, 23, 24, 25, 26, 30, 34, 38]
    for arr in (arrs if thorough else rng.sample(arrs, 3)):
        es = ATOMS[tags[arr]["data_type"]]
        for k in ks:
            n = (conn - k) // es
            if n < 1 or n > tags[arr]["dimensions"][0]:
                continue
            big = "%s{%d}" % (arr, n)
            lists.append([big])
            lists.append([big, rng.choice(small)])
            lists.append([rng.choice(small), big, rng.choice(small)])
            lists.append([rng.choice(small), rng.choice(small), big])
    for st in [n for n in names if tags[n]["tag_type"] == "struct"]:
        lists.append([st])
        lists.append([st, rng.choice(small)])
        lists.append([rng.choice(small), st, rng.choice(small)])
    # many small tags and nothing else: the request entries (path by name or by instance id) outweigh the reply
    # entries, so the REQUEST side is what fills the packet
    tiny = [n for n in small if ATOMS[tags[n]["data_type"]] <= 2]
    longs = [n for n in tiny if n.startswith("Long_")]
    for n in ([12, 20, 45, 60, 120, 200, 400, 700] if thorough else [20, 60, 120, 400 if conn > 1000 else 200]):
        lists.append([rng.choice(tiny) for _ in range(n)])
        if longs:
            lists.append([rng.choice(longs) for _ in range(n)])
            lists.append([rng.choice(longs if rng.random() < 0.7 else small) for _ in range(n)])
    # random mixes incl. errors, duplicates, many small tags (several groups)
    for _ in range(400 if thorough else 60):
        n = rng.choice([0, 1, 2, 3, 5, 8, 20, 60, 150])
        l = []
        for _ in range(n):
            c = rng.random()
            if c < 0.08:
                l.append("nosuchtag%d" % rng.randrange(5))
            elif c < 0.55:
                l.append(rng.choice(small))
            elif c < 0.65:
                l.append(rng.choice(names))
            else:
                arr = rng.choice(arrs)
                es = ATOMS[tags[arr]["data_type"]]
                top = min(tags[arr]["dimensions"][0], (conn + 60) // es)
                l.append("%s[%d]{%d}" % (arr, rng.randrange(0, 3), rng.choice([1, 2, 3, max(1, top // 3), max(1, top // 2), max(1, top - rng.randrange(0, 40))])))
        lists.append(l)
    return lists


def check_read_plan(R, mp, d, tags, reqs, conn, micro):
    from pycomm3.packets import ReadTagRequestPacket, ReadTagFragmentedRequestPacket, MultiServiceRequestPacket
    from pycomm3.logix_driver import _tag_return_size
    from pycomm3.util import cycle
    parsed = d._parse_requested_tags(reqs, "r")
    toks = ["rplan", str(conn), "1" if micro else "0"]
    info = {}
    for i in sorted(parsed):
        p = parsed[i]
        if p.get("error"):
            toks += [str(i), "1", "0", "0"]
        else:
            pk = ReadTagRequestPacket(cycle(65535, 1), p["plc_tag"], p["elements"], p["tag_info"], i, d._cfg["use_instance_ids"])
            pk.build_message()
            data = _tag_return_size(p)
            info[i] = (data, len(pk.message), p)
            toks += [str(i), "0", str(data), str(len(pk.message))]
    requests = d._read_build_requests(parsed)
    impl_plan = plan_of(requests)
    model_plan = mp.ask(*toks)
    case = {"op": "read", "conn": conn, "micro800": micro, "requests": reqs[:12] + (["..."] if len(reqs) > 12 else []), "n": len(reqs)}
    R.case(("r", conn, micro, tuple(reqs)), nontrivial=len(info) > 0)
    R.corr_checked += 1
    R.count("read_plan_shape", "".join(sorted(set(str(t) for t in impl_plan if isinstance(t, fw.Sym)))) or "empty")
    if [str(t) if isinstance(t, fw.Sym) else t for t in impl_plan] != [str(t) if isinstance(t, fw.Sym) else t for t in model_plan]:
        R.disagree("read plan", case, model_plan, impl_plan)
    # ---- oracle
    ids = plan_ids(impl_plan)
    valid = sorted(info)
    if sorted(ids) != valid:
        R.fail("read plan loses or duplicates a request", case, sorted(ids), valid, "read:partition")
    for r in requests:
        if isinstance(r, ReadTagFragmentedRequestPacket):
            continue   # sizes of fragment transfers are checked by the fragment oracle
        frame = r.build_request(d._target_cid, d._session, d._cfg["context"], d._cfg["option"])
        dl = data_item_len(frame)
        if isinstance(r, MultiServiceRequestPacket):
            reply = 2 + 4 + 2 + sum(2 + 4 + tlen_of(info[x.request_id][2]["tag_info"]) + info[x.request_id][0] for x in r.requests)
            kind = "multi"
        else:
            reply = 2 + 4 + tlen_of(info[r.request_id][2]["tag_info"]) + info[r.request_id][0]
            kind = "single"
        R.count("read_margin_" + kind, min(40, max(-1, (conn - reply) // 4 * 4)))
        if dl > conn:
            R.fail("read request larger than the connection size", {**case, "item": dl}, dl, conn, f"read:{kind}:request-oversize")
        if reply > conn:
            R.fail("read solicits a reply larger than the connection size", {**case, "reply": reply, "ids": plan_ids(plan_of([r]))}, reply, conn, f"read:{kind}:reply-oversize")


def gen_write_requests(rng, tags, conn, thorough):
    names = list(tags)
    small = [n for n in names if not tags[n]["dim"] and tags[n]["tag_type"] == "atomic"]
    arrs = [n for n in names if tags[n]["dim"] and tags[n]["data_type"] not in ("DWORD", "REAL")]
    ints = [n for n in small if tags[n]["data_type"] in ("SINT", "INT", "DINT", "LINT")]
    lists = []
    ks = range(-4, 60) if thorough else [0, 1, 8, 9, 10, 11, 12, 16, 18, 19, 20, 21, 22, 23, 24, 26, 28, 30, 36, 44]
    for arr in (arrs if thorough else rng.sample(arrs, 3)):
        es = ATOMS[tags[arr]["data_type"]]
        for k in ks:
            n = (conn - k) // es
            if n < 1 or n > tags[arr]["dimensions"][0]:
                continue
            big = ("%s{%d}" % (arr, n), [1] * n)
            lists.append([big])
            lists.append([big, (rng.choice(ints), 1)])
            lists.append([(rng.choice(ints), 2), big, (rng.choice(ints), 3)])
    for st in [n for n in names if tags[n]["tag_type"] == "struct"]:
        v = bytes(tags[st]["data_type"]["template"]["structure_size"])
        lists.append([(st, v)])
        lists.append([(st, v), (rng.choice(ints), 1)])
    for _ in range(300 if thorough else 50):
        n = rng.choice([0, 1, 2, 3, 5, 8, 20, 60])
        l = []
        for _ in range(n):
            c = rng.random()
            if c < 0.08:
                l.append(("nosuchtag%d" % rng.randrange(5), 1))
            elif c < 0.4:
                l.append((rng.choice(ints), rng.randrange(0, 100)))
            elif c < 0.6:
                l.append(("%s.%d" % (rng.choice(ints), rng.randrange(0, 8)), rng.choice([0, 1])))      # bit writes, merged per tag
            elif c < 0.68:
                l.append((rng.choice(ints), "not a number"))                                            # unencodable
            elif c < 0.72:
                l.append(("bools[%d]{32}" % rng.choice([0, 32, 64]), [True] * 32))
            else:
                arr = rng.choice(arrs)
                es = ATOMS[tags[arr]["data_type"]]
                top = min(tags[arr]["dimensions"][0], (conn + 60) // es)
                cnt = rng.choice([1, 2, 3, max(1, top // 3), max(1, top // 2), max(1, top - rng.randrange(0, 40))])
                l.append(("%s{%d}" % (arr, cnt), [1] * (cnt if rng.random() < 0.93 else max(0, cnt - 1))))   # sometimes too short
        lists.append(l)
    return lists


def check_write_plan(R, mp, d, tags, reqs, conn, micro):
    from pycomm3.packets import WriteTagRequestPacket, WriteTagFragmentedRequestPacket, MultiServiceRequestPacket
    from pycomm3.logix_driver import encode_value
    from pycomm3.util import cycle
    import copy
    parsed = d._parse_requested_tags([t for t, _ in reqs], "w")
    for i, (t, v) in enumerate(reqs):
        parsed[i]["value"] = v
    toks = ["wplan", str(conn), "1" if micro else "0"]
    info, valid = {}, []
    for i in sorted(parsed):
        p = parsed[i]
        if p.get("error"):
            toks += [str(i), "1", "0", "x", "0", "0", "0"]
            continue
        bit = p.get("bit") is not None and p["bool_elements"] is None
        if bit:
            toks += [str(i), "0", "1", fw.t_bytes(p["plc_tag"].encode()), "0", "0", "0"]
            valid.append(i)
            continue
        q = copy.copy(p)
        try:
            wv = encode_value(q)
        except Exception:
            toks += [str(i), "0", "0", "x", "1", "0", "0"]
            continue
        pk = WriteTagRequestPacket(cycle(65535, 1), q["plc_tag"], q["elements"], q["tag_info"], i, d._cfg["use_instance_ids"], wv)
        pk.build_message()
        info[i] = (len(wv), len(pk.message))
        valid.append(i)
        toks += [str(i), "0", "0", "x", "0", str(len(pk.message)), str(len(wv))]
    requests = d._write_build_requests(parsed)
    impl_plan = plan_of(requests)
    model_plan = mp.ask(*toks)
    case = {"op": "write", "conn": conn, "micro800": micro, "n": len(reqs),
            "requests": [(t, (v if not isinstance(v, (list, bytes)) else "<%d items>" % len(v))) for t, v in reqs[:12]]}
    R.case(("w", conn, micro, tuple(t for t, _ in reqs), tuple(len(v) if isinstance(v, (list, bytes)) else v for _, v in reqs)), nontrivial=len(valid) > 0)
    R.corr_checked += 1
    R.count("write_plan_shape", "".join(sorted(set(str(t) for t in impl_plan if isinstance(t, fw.Sym)))) or "empty")
    if [str(t) if isinstance(t, fw.Sym) else t for t in impl_plan] != [str(t) if isinstance(t, fw.Sym) else t for t in model_plan]:
        R.disagree("write plan", case, model_plan, impl_plan)
    ids = plan_ids(impl_plan)
    if sorted(ids) != sorted(valid):
        R.fail("write plan loses or duplicates a request", case, sorted(ids), sorted(valid), "write:partition")
    for r in requests:
        if isinstance(r, WriteTagFragmentedRequestPacket):
            continue
        frame = r.build_request(d._target_cid, d._session, d._cfg["context"], d._cfg["option"])
        dl = data_item_len(frame)
        kind = "multi" if isinstance(r, MultiServiceRequestPacket) else "single"
        R.count("write_margin_" + kind, min(40, max(-1, (conn - dl) // 4 * 4)))
        if dl > conn:
            R.fail("write request larger than the connection size", {**case, "item": dl, "ids": plan_ids(plan_of([r]))}, dl, conn, f"write:{kind}:request-oversize")
    return requests, parsed


def check_write_fragments(R, mp, d, conn, tag, info, nbytes, rng):
    """run _send_write_fragmented with _send/_receive replaced; compare with the model; oracle: tiling"""
    from pycomm3.packets import WriteTagRequestPacket, WriteTagFragmentedRequestPacket
    value = rng.randbytes(nbytes)
    es = elem_size(info)
    base = WriteTagRequestPacket(d._sequence, tag, nbytes // es, info, 0, d._cfg["use_instance_ids"], value)
    base.build_message()
    frag = WriteTagFragmentedRequestPacket.from_request(d._sequence, base)
    sent = []
    d._send = lambda msg: sent.append(bytes(msg))
    d._receive = lambda: unit_reply(0x53, 0, b"")
    resp = d.send(frag)
    # what the fragments said, parsed independently from the frames
    pathlen = len(base.request_path)
    tl = tlen_of(info)
    segs = []
    for f in sent:
        dl = data_item_len(f)
        item = f[44:]
        mr = item[2:]
        assert mr[0] == 0x53, mr[:1]
        off = struct.unpack_from("<I", mr, 1 + pathlen + tl + 2)[0]
        data = mr[1 + pathlen + tl + 2 + 4:]
        segs.append((off, data, dl))
    ovh = 2 + 1 + pathlen + tl + 2 + 4
    m = mp.ask("wfrag", str(conn), str(ovh), fw.t_bytes(value))
    model = [(m[i], m[i + 1]) for i in range(0, len(m), 2)]
    case = {"op": "write-fragments", "conn": conn, "tag": tag, "bytes": nbytes, "overhead": ovh}
    R.case(("wf", conn, tag, nbytes), nontrivial=len(segs) > 1)
    R.corr_checked += 1
    R.count("write_fragments", min(len(segs), 12))
    if model != [(o, s) for o, s, _ in segs]:
        R.disagree("write fragments", case, [(o, len(s)) for o, s in model], [(o, len(s)) for o, s, _ in segs])
    exp_off, ok = 0, True
    for o, s, dl in segs:
        if o != exp_off or len(s) == 0:
            ok = False
        if dl > conn:
            R.fail("write fragment larger than the connection size", {**case, "item": dl}, dl, conn, "write:fragment:request-oversize")
        exp_off += len(s)
    if not ok or b"".join(s for _, s, _ in segs) != value:
        R.fail("write fragments do not tile the value (offsets 0, contiguous, exact cover)", case, [(o, len(s)) for o, s, _ in segs], "prefix sums covering %d bytes" % nbytes, "write:fragment:tiling")
    if not resp:
        R.fail("fragmented write of a tag that exists reported failure", case, str(resp.error), "success", "write:fragment:result")


def check_read_fragments(R, mp, d, conn, tag, info, nelem, policy, rng):
    from pycomm3.packets import ReadTagRequestPacket, ReadTagFragmentedRequestPacket
    es = elem_size(info)
    value = rng.randbytes(nelem * es)
    base = ReadTagRequestPacket(d._sequence, tag, nelem, info, 0, d._cfg["use_instance_ids"])
    base.build_message()
    frag = ReadTagFragmentedRequestPacket.from_request(d._sequence, base)
    pathlen = len(base.request_path)
    asked, frs, pos = [], [], [0]
    from pycomm3.cip import DataTypes
    typ = struct.pack("<H", DataTypes[info["data_type"]].code)
    state = {"last": None}

    def _send(msg):
        budget[0] -= 1
        if budget[0] < 0:
            raise Hang()
        f = bytes(msg)
        mr = f[44 + 2:]
        assert mr[0] == 0x52
        off = struct.unpack_from("<I", mr, 1 + pathlen + 2)[0]
        asked.append((off, data_item_len(f)))
        state["last"] = off

    def _receive():
        off = state["last"]
        k = policy(len(value) - off)
        chunk = value[off:off + k]
        more = off + k < len(value)
        frs.append((chunk, more))
        return unit_reply(0x52, 6 if more else 0, typ + chunk)
    d._send, d._receive = _send, _receive
    budget = [2 * len(value) + 8]
    try:
        resp = d.send(frag)
    except Hang:
        R.case(("rf-hang", conn, tag, len(value)))
        R.fail("fragmented read does not terminate (more requests than bytes in the value)",
               {"op": "read-fragments", "conn": conn, "tag": tag, "bytes": len(value), "fragments": [len(c) for c, _ in frs][:20], "offsets": [o for o, _ in asked][:20]},
               "no termination within %d requests" % (2 * len(value) + 8), "terminates", "read:fragment:hang")
        return
    toks = ["rfrag"]
    for c, mflag in frs:
        toks += [fw.t_bytes(c), "1" if mflag else "0"]
    m = mp.ask(*toks)
    case = {"op": "read-fragments", "conn": conn, "tag": tag, "bytes": len(value), "fragments": [len(c) for c, _ in frs][:40]}
    R.case(("rf", conn, tag, len(value), tuple(len(c) for c, _ in frs)), nontrivial=len(frs) > 1)
    R.corr_checked += 1
    R.count("read_fragments", min(len(frs), 12))
    impl = (str(fw.Sym("ok")), len(asked), [o for o, _ in asked], b"".join(r.value_bytes for r in [resp]) if resp else None)
    if str(m[0]) != "ok" or m[1] != len(asked) or list(m[2:2 + m[1]]) != [o for o, _ in asked]:
        R.disagree("read fragment offsets", case, m[:12], [o for o, _ in asked][:12])
    got, exp = 0, []
    for (c, _), (o, dl) in zip(frs, asked):
        exp.append(got)
        got += len(c)
        if dl > conn:
            R.fail("read fragment request larger than the connection size", {**case, "item": dl}, dl, conn, "read:fragment:request-oversize")
    if [o for o, _ in asked] != exp:
        R.fail("a follow-up read fragment does not ask for the number of bytes received so far", case, [o for o, _ in asked][:20], exp[:20], "read:fragment:offsets")
    if not resp or resp.value is None or b"".join(int(x).to_bytes(es, "little", signed=x < 0) for x in resp.value) != value:
        R.fail("fragmented read did not reassemble the value", case, None if not resp else "wrong value", "the value", "read:fragment:value")
    if str(m[0]) == "ok" and m[-1] != value:
        R.disagree("read fragment reassembly", case, "model data differs", "value")


def check_negotiation(R, mp, rng, thorough):
    """with_forward_open against the live reference target core: the size the target granted must be the
    size the driver then plans with; a standard Forward Open after a refused Large one asks for 500."""
    import target as T
    from pycomm3 import CIPDriver, LogixDriver
    from pycomm3.exceptions import PycommError
    for cls in (CIPDriver, LogixDriver):
        for al in (True, False):
            for ast in (True, False):
                for csize in ([4000] if not thorough else [4000, 4002, 511, 1500]):
                    tp = T.TargetProc("targetcore")
                    try:
                        tp.cfg(accept_large_fo=al, accept_std_fo=ast, session_handle=rng.randrange(1, 2 ** 31), conn_id=rng.randrange(1, 2 ** 31))
                        kw = dict(init_tags=False, init_program_tags=False) if cls is LogixDriver else {}
                        drv = T.open_driver(cls, "10.0.0.1", tp, open=False, **kw)
                        drv._cfg["connection_size"] = csize
                        opened = True
                        try:
                            drv.open()
                            r = drv.generic_message(service=0x4B, class_code=0x300, instance=1, request_data=b"ab", connected=True)
                            opened = bool(drv._target_is_connected)
                        except PycommError:
                            opened = False
                        log = tp.log()
                        attempts = []
                        for e in log:
                            if e["ev"] == "app" and e["tag"] == 1010:      # connection opened: [.., ot_size, to_size, large]
                                attempts.append((int(e["args"][7]), int(e["args"][5])))
                            elif e["ev"] == "app" and e["tag"] == 1011:    # Forward Open refused: [service, status ...]
                                attempts.append((1 if e["args"][0] == 0x5B else 0, None))
                        conns = tp.conns()
                        m = mp.ask("nego", "1", str(csize), "1" if al else "0", "1" if ast else "0")
                        case = {"op": "negotiate", "driver": cls.__name__, "accept_large": al, "accept_std": ast, "configured": csize}
                        R.case(("nego", cls.__name__, al, ast, csize))
                        R.corr_checked += 1
                        R.count("negotiation", f"large={al},std={ast}")
                        m_att = [(m[i], m[i + 1]) for i in range(3, len(m), 2)]
                        if bool(m[0]) != opened or [a for a, _ in m_att] != [a for a, _ in attempts] or (opened and m[2] != drv.connection_size):
                            R.disagree("forward open negotiation", case, m, {"opened": opened, "attempts": attempts, "connection_size": drv.connection_size})
                        if opened:
                            if len(conns) != 1 or conns[0]["ot_size"] != drv.connection_size or conns[0]["to_size"] != drv.connection_size:
                                R.fail("the connection size the target granted differs from the size the driver plans with", case,
                                       {"granted": [(c["ot_size"], c["to_size"]) for c in conns], "driver": drv.connection_size}, "equal", "negotiation:size-mismatch")
                            if not al and (drv.connection_size != 500 or attempts[-1] != (0, 500)):
                                R.fail("standard Forward Open after a refused Large one must use 500 bytes", case, {"attempts": attempts, "driver": drv.connection_size}, 500, "negotiation:fallback-size")
                        if T.bad_events(log):
                            R.fail("target saw an oversize / malformed event during negotiation", case, T.bad_events(log)[:3], [], "negotiation:bad-event")
                        try:
                            drv.close()
                        except PycommError:
                            pass
                    finally:
                        tp.close()


def run(R, escalate=False):
    thorough = R.tier == "thorough" or escalate
    rng = R.rng
    R.rule = ("request lists over a synthetic tag database (atomics, arrays of every element size, BOOL arrays, structures of sizes around both "
              "connection sizes): boundary sweeps (one request whose data is conn-k bytes, alone / first / middle / last) + random mixes with "
              "unknown tags, duplicates, bit writes merged per tag, unencodable and too-short values; both connection sizes (500, 4000) and odd ones; "
              "Micro800 (single requests) and instance-id / symbolic paths; fragment transfers of sizes around multiples of the segment size under "
              "peer fragment-length policies 1, 2, 7, conn/3, conn-k, random. non-trivial = distinct request list with at least one valid request / "
              "transfer with more than one fragment")
    mp = fw.ModelProc("C04")
    check_negotiation(R, mp, rng, thorough)
    for conn in ([500, 4000] + ([508, 1000, 4002, 511] if thorough else [rng.choice([508, 1000, 4002])])):
        for micro in (False, True):
            for use_ids in ((True, False) if thorough or conn in (500, 4000) else (True,)):
                tags = mk_tags(rng)
                d = mk_driver(conn, micro, use_ids, tags)
                R.count("config", f"conn={conn},micro={micro},ids={use_ids}")
                for reqs in gen_read_requests(rng, tags, conn, thorough):
                    check_read_plan(R, mp, d, tags, reqs, conn, micro)
                for reqs in gen_write_requests(rng, tags, conn, thorough):
                    check_write_plan(R, mp, d, tags, reqs, conn, micro)
                # fragment loops
                arr = [n for n in tags if tags[n]["dim"] and tags[n]["data_type"] == "SINT"][0]
                info = tags[arr]
                seg = conn - 30
                sizes = sorted(set([1, 2, conn - 40, conn - 20, conn, conn + 1, 2 * seg - 1, 2 * seg, 2 * seg + 1, 3 * conn] +
                                   [rng.randrange(1, 3 * conn) for _ in range(12 if thorough else 4)]))
                for nb in sizes:
                    if 1 <= nb <= info["dimensions"][0]:
                        check_write_fragments(R, mp, mk_driver(conn, micro, use_ids, tags), conn, arr, info, nb, rng)
                pols = [("1", lambda left: 1), ("2", lambda left: 2), ("7", lambda left: 7), ("conn/3", lambda left: max(1, conn // 3)),
                        ("conn-12", lambda left: conn - 12), ("rand", lambda left: rng.randrange(1, conn))]
                int_arrs = [n for n in tags if tags[n]["dim"] and tags[n]["data_type"] in ("SINT", "INT", "DINT", "LINT")]
                for pname, pol in pols:
                    for nb in ([conn - 5, conn + 3, 2 * conn + 1] if thorough else [conn + 3]):
                        if pname in ("1", "2") and nb > 1200:
                            nb = 600 + nb % 100
                        for a2 in (int_arrs if thorough else [arr, rng.choice([a for a in int_arrs if a != arr])]):
                            i2 = tags[a2]
                            ne = max(1, min(nb // ATOMS[i2["data_type"]], i2["dimensions"][0]))
                            check_read_fragments(R, mp, mk_driver(conn, micro, use_ids, tags), conn, a2, i2, ne, pol, rng)
                            R.count("fragment_policy", pname + ":" + i2["data_type"])
    mp.close()


def replay(R, rp):
    run(R, escalate=True)
