"""C12 — reply frames survive any TCP segmentation (Socket.receive / Socket.send).
The kernel socket is replaced by a scripted fake; the same script is given to the extracted model
(Model/Sock.v).  Oracle (independent of the model): a well-formed frame delivered in any
segmentation is returned exactly; a peer that stops after any strict prefix gives CommError (no
hang, no partial frame, no foreign exception); send hands over every byte in order or fails with
CommError having sent a prefix."""
import socket
import struct

import framework as fw

ASSUMPTIONS = [
    "the kernel socket is modelled by a script: recv(n) returns at most n bytes of what is available, b'' once the peer closed, or raises socket.error; send(buf) accepts a prefix, 0 (broken) or raises",
    "a reply is one frame: the peer does not send bytes beyond the frame before the next request",
]


class Hang(BaseException):
    pass


class FakeSock:
    def __init__(self, script=None, tail="timeout", sscript=None, budget=0):
        self.script = list(script or [])
        self.tail = tail
        self.sscript = list(sscript or [])
        self.wire = b""
        self.calls = 0
        self.budget = budget

    def settimeout(self, t):
        pass

    def setsockopt(self, *a):
        pass

    def _tick(self):
        self.calls += 1
        if self.calls > self.budget:
            raise Hang()

    def recv(self, n):
        self._tick()
        if not self.script:
            if self.tail == "closed":
                return b""
            raise socket.timeout("timed out")
        ev = self.script[0]
        if ev[0] == "c":
            bs = ev[1]
            if len(bs) <= n:
                self.script.pop(0)
                return bs
            self.script[0] = ("c", bs[n:])
            return bs[:n]
        if ev[0] == "closed":
            return b""
        self.script.pop(0)
        raise ConnectionResetError("reset")

    def send(self, buf):
        self._tick()
        if not self.sscript:
            return 0
        ev = self.sscript.pop(0)
        if ev[0] == "raise":
            raise BrokenPipeError("broken")
        k = min(ev[1], len(buf))
        self.wire += bytes(buf[:k])
        return k

    def close(self):
        pass


def make_socket(fake):
    from pycomm3.socket_ import Socket
    s = Socket.__new__(Socket)
    s.sock = fake
    return s


def impl_receive(script, tail, budget):
    from pycomm3.exceptions import CommError, PycommError
    fake = FakeSock(script, tail, budget=budget)
    s = make_socket(fake)
    try:
        return ("ok", s.receive())
    except Hang:
        return ("HANG",)
    except CommError:
        return ("err", 3)
    except PycommError as e:
        return ("err", type(e).__name__)
    except struct.error:
        return ("err", 14)
    except Exception as e:
        return ("err", "foreign:" + type(e).__name__)


def impl_send(msg, sscript, budget):
    from pycomm3.exceptions import CommError
    fake = FakeSock(sscript=sscript, budget=budget)
    s = make_socket(fake)
    try:
        n = s.send(msg)
        return ("ok", n, fake.wire)
    except Hang:
        return ("HANG", fake.wire)
    except CommError:
        return ("err", 3, fake.wire)
    except Exception as e:
        return ("err", "foreign:" + type(e).__name__, fake.wire)


def frame(body, rng):
    hdr = bytearray(rng.randbytes(24))
    hdr[2:4] = struct.pack("<H", len(body))
    return bytes(hdr) + body


def compositions(n):
    """all compositions of n (n small)"""
    if n == 0:
        yield []
        return
    for first in range(1, n + 1):
        for rest in compositions(n - first):
            yield [first] + rest


def split(f, sizes):
    out, i = [], 0
    for k in sizes:
        out.append(f[i:i + k])
        i += k
    assert i == len(f)
    return out


def rest_patterns(n, rng):
    """ways to split the remaining n bytes"""
    pats = []
    if n == 0:
        return [[]]
    pats.append([n])
    if n <= 64:
        pats.append([1] * n)
    if n > 1:
        pats.append([n - 1, 1])
    if n > 256:
        pats.append([256] * (n // 256) + ([n % 256] if n % 256 else []))
        pats.append([300] * (n // 300) + ([n % 300] if n % 300 else []))
    r, left = [], n
    while left:
        k = rng.choice([1, 2, 3, 7, 20, 23, 24, 100, 255, 256, 257, 1000, 1460])
        k = min(k, left)
        r.append(k)
        left -= k
    pats.append(r)
    return pats


def script_line(script):
    toks = []
    for ev in script:
        if ev[0] == "c":
            toks += ["c", fw.t_bytes(ev[1])]
        else:
            toks.append(ev[0])
    return toks


def run(R, escalate=False):
    thorough = R.tier == "thorough" or escalate
    rng = R.rng
    R.rule = ("frames (24-byte header, body 0..65511) x segmentations: all compositions of the first 5 bytes x rest patterns, every first-chunk "
              "size 1..30, single bytes, 256/300-byte reads, last byte alone, random; x peer stop (closed / timeout / Closed event / Raise) after "
              "every strict prefix (small frames) or sampled prefixes; sends x partial-send patterns incl. 0 and raise. "
              "non-trivial = distinct (frame length, segmentation or stop point, outcome class)")
    mp = fw.ModelProc("C12")
    cases = []   # (kind, frame, script, tail)
    # 32744 / 32745 straddle a 16-bit SIGNED reading of the length field (24 + 32744 = 32768); 65511 is the largest body
    bodies = [0, 1, 2, 3, 4, 20, 232, 233, 234, 255, 256, 257, 476, 500, 1000] + ([4000, 4002, 65511, 30000, 32743, 32744, 32745, 32767, 32768, 40000] if thorough else [4002, 32767, 32768, 65511])
    bodies += [rng.randrange(0, 600) for _ in range(20 if thorough else 6)]
    for bl in bodies:
        f = frame(rng.randbytes(bl), rng)
        n = len(f)
        segs = []
        for head in compositions(5):
            for rp in rest_patterns(n - 5, rng)[: (6 if thorough else 3)]:
                segs.append(head + rp)
        for k in range(1, min(31, n + 1)):
            for rp in rest_patterns(n - k, rng)[:2]:
                segs.append([k] + rp)
        for rp in rest_patterns(n, rng):
            segs.append(rp)
        if not thorough and len(segs) > 60:
            segs = segs[:16] + rng.sample(segs[16:], 44)
        if not thorough and n > 20000:
            segs = rng.sample(segs, 6) + [[256] * (n // 256) + ([n % 256] if n % 256 else []), [n]]
        for sz in segs:
            for tail in ("timeout", "closed"):
                cases.append(("full", f, [("c", c) for c in split(f, sz)], tail))
        # peer stops after a strict prefix
        cuts = list(range(0, n)) if n <= 60 else sorted(set([0, 1, 2, 3, 4, 5, 23, 24, 25, 255, 256, 257, n - 1] + [rng.randrange(0, n) for _ in range(20)]))
        cuts = [c for c in cuts if 0 <= c < n]
        if not thorough and len(cuts) > 14:
            cuts = cuts[:8] + rng.sample(cuts[8:], 6)
        for p in cuts:
            for rp in rest_patterns(p, rng)[: (4 if thorough else 2)]:
                chunks = [("c", c) for c in split(f[:p], rp)]
                for stop, tail in ((None, "closed"), (None, "timeout"), ("closed", "timeout"), ("raise", "closed")):
                    cases.append(("cut", f, chunks + ([(stop,)] if stop else []), tail))
    lines = []
    for kind, f, script, tail in cases:
        fuel = len(f) + 4
        lines.append(" ".join(["recv", str(fuel), tail] + script_line(script)))
    outs = mp.batch(lines)
    for (kind, f, script, tail), o in zip(cases, outs):
        budget = 4 * (len(f) + 4)
        impl = impl_receive(script, tail, budget)
        m = fw.parse_line(o)
        mcanon = ("ok", m[1]) if str(m[0]) == "ok" else (("err", m[1]) if str(m[0]) == "err" else ("HANG",))
        sizes = [len(e[1]) if e[0] == "c" else e[0] for e in script]
        case = {"kind": kind, "frame_len": len(f), "chunks": sizes[:40], "tail": tail}
        first = sizes[0] if sizes and isinstance(sizes[0], int) else 0
        R.case((kind, len(f), tuple(sizes), tail))
        R.corr_checked += 1
        R.count("kind", kind)
        R.count("first_chunk", "<4" if first < 4 else ("<24" if first < 24 else ">=24"))
        R.count("outcome", impl[0])
        if mcanon != impl:
            R.disagree("Socket.receive", {**case, "frame": f, "script": script}, mcanon, impl)
        # oracle
        if kind == "full":
            if impl != ("ok", f):
                cls = "receive:first-chunk<4" if first < 4 else "receive:full-frame"
                R.fail("receive did not return exactly the frame", {**case, "frame": f, "script": script}, impl, ("ok", f), cls)
        else:
            if impl != ("err", 3):
                cls = "receive:peer-stops:" + ("hang" if impl[0] == "HANG" else ("partial" if impl[0] == "ok" else "foreign"))
                R.fail("peer stopped before the frame was complete: expected CommError", {**case, "frame": f, "script": script}, impl, ("err", 3), cls)

    # ---- send
    scases = []
    for ml in [0, 1, 2, 24, 100, 500, 4100] + [rng.randrange(1, 300) for _ in range(40 if thorough else 10)]:
        msg = rng.randbytes(ml)
        pats = []
        for rp in rest_patterns(ml, rng):
            pats.append([("a", k) for k in rp])
            pats.append([("a", k + rng.randrange(0, 5)) for k in rp])          # kernel offers more than needed
        if ml:
            pats.append([("a", 10 ** 6)])
            for _ in range(6 if thorough else 3):                            # broken at a random point
                rp = rest_patterns(ml, rng)[-1]
                i = rng.randrange(0, len(rp) + 1)
                pats.append([("a", k) for k in rp[:i]] + [rng.choice([("a", 0), ("raise",)])])
                pats.append([("a", k) for k in rp[:i]])                       # script ends: nothing more accepted
        for p in pats:
            scases.append((msg, p))
    lines = []
    for msg, p in scases:
        toks = []
        for ev in p:
            toks += ["a", str(ev[1])] if ev[0] == "a" else ["raise"]
        lines.append(" ".join(["send", str(len(msg) + 4), fw.t_bytes(msg)] + toks))
    outs = mp.batch(lines)
    for (msg, p), o in zip(scases, outs):
        impl = impl_send(msg, p, 4 * (len(msg) + 4))
        m = fw.parse_line(o)
        mcanon = (str(m[0]),) + tuple(m[1:]) if str(m[0]) != "fuel" else ("HANG", m[1])
        R.case(("send", len(msg), tuple(tuple(e) for e in p)))
        R.corr_checked += 1
        R.count("kind", "send")
        R.count("send_outcome", impl[0])
        if tuple(mcanon) != tuple(impl):
            R.disagree("Socket.send", {"msg_len": len(msg), "script": p}, mcanon, impl)
        enough = all(e[0] == "a" and e[1] > 0 for e in p) and sum(e[1] for e in p) >= len(msg)
        if enough or len(msg) == 0:
            if impl != ("ok", len(msg), msg):
                R.fail("send did not deliver every byte in order", {"msg": msg, "script": p}, impl, ("ok", len(msg)), "send:all")
        else:
            ok = impl[0] == "err" and impl[1] == 3 and msg.startswith(impl[2])
            # a script that is exhausted or broken before completion must fail with CommError
            complete = False
            tot = 0
            for e in p:
                if e[0] != "a" or e[1] == 0:
                    break
                tot += e[1]
                if tot >= len(msg):
                    complete = True
                    break
            if complete:
                ok = impl == ("ok", len(msg), msg)
            if not ok:
                R.fail("broken send: expected CommError after a prefix", {"msg": msg, "script": p}, impl, ("err", 3), "send:broken")
    mp.close()


def replay(R, rp):
    run(R, escalate=True)
