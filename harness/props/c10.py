"""C10 — connection lifecycle is safe under any call history and failure point.

The REAL drivers (CIPDriver, LogixDriver(init_tags=False)) run a call history against the live
reference target (bin/modelrun_targetcore, Spec/TargetCore.tstep) through a fault-injecting fake
socket; the extracted model (Model/Lifecycle.v composed with the same tstep, bin/modelrun_c10) runs
the same (policy, fault schedule, history).

Correspondence (model vs implementation), after every call: outcome class, `connected`,
`_target_is_connected`, `_session`, Forward Open flavour/size, `_target_cid`, the target's session
and connection tables, every socket event (connect / frame delivered + the target's reply / close /
peer vanished) — and the target's whole event log at the end.

Oracle on the implementation (target tables and log, driver's public state only):
  O1 no SendUnitData frame is ever rejected by the target as "unregistered session" / "unknown
     connection" (EvBadFrame 100 / 101 right after an EvFrame with command 0x70);
  O2 Forward Open attempts: the first is Large with 4000; a standard one carries 500 and comes after
     a Large one the target did not grant;
  O3 every exception escaping a call is a PycommError (the with-body's own exception excepted);
  O4 after close(): `connected` is False and, when no fault fired during that close, the target
     holds no session and no connection;
  O5 a later open() (no fault, session-granting policy) succeeds and its session is in the target's table.
"""
import itertools
import json
import logging
import os
import socket
from unittest import mock

import framework as fw
import target as T

EXTRA_MODELS = ["TargetCore"]

ASSUMPTIONS = [
    "the peer is the reference target (Spec/TargetCore.v): one TCP peer, sessions and connections vanish with the TCP connection, handles/ids never reused",
    "transport faults are those of the fake socket: k-th connect/send/receive/close raises (OS error or any other exception), reply lost, reply left queued (late), peer vanishes",
    "user messages of generic_message are byte strings below 60000 bytes that do not address the connection manager (Forward Open/Close by hand)",
    "LogixDriver is opened with init_tags=False (the tag upload is abstracted to connected requests)",
    "urandom draws are inputs; logging is not modelled",
    "Props/C10.v: C10_holds = all five clauses for every fault schedule (since fix f3bd898 a failed send/receive abandons the transport; "
    "before it the late-reply schedules — recv / send_after faults — refuted no_connected_before_fo and fo_order: corpus/C10 witnesses 1-3)",
    "real read()/write() of uploaded tags run against bin/modelrun_target with the oracle only (the model co-process embeds the core handler; the theorems hold for any handler)",
]

IP = "192.168.1.10"


class BodyError(Exception):
    """the exception the body of a with statement raises itself"""


# ------------------------------------------------------------------ the socket
class LifecycleSocket(T.FakeSocket):
    """FakeSocket + (a) I/O on a socket that is not connected fails like the OS does, (b) the peer can
    vanish at the k-th send, (c) close faults are indexed by the close count, (d) events in the
    vocabulary of Model/Lifecycle.v [tev]."""

    def __init__(self, tp, faults=None):
        super().__init__(tp, faults)
        self.dead = False
        self.events = []
        self.fired = 0            # number of injected faults that actually fired
        self.stale = False        # a receive() handed out a reply that is not the answer to the last frame sent
        self.last_reply = None
        self.attempts = []        # every frame handed to send(), delivered or not

    def _fault(self, key, k):
        f = self.faults.get(key)
        if f is None:
            return None
        if key == "close":
            k = self.n_close - 1
        e = f.get(k)
        if e is not None:
            self.fired += 1
        return e

    def _down(self, where, k):
        from pycomm3.exceptions import CommError
        self.trace.append(("fault", where, k))
        raise CommError("socket is not connected")

    def connect(self, host, port):
        n = len(self.trace)
        try:
            super().connect(host, port)
        except BaseException:
            self.events.append(["k", 0])
            raise
        self.dead = False
        self.events.append(["k", 1])

    def send(self, msg, timeout=0):
        k = self.n_send
        self.attempts.append(bytes(msg))
        if not self.is_open or self.dead:
            self.n_send += 1
            self._down("send-down", k)
        if k in self.faults.get("vanish", ()):
            self.n_send += 1
            self.fired += 1
            self.tp.closed()
            self.dead = True
            self.queue = []
            self.events.append(["v"])
            self._down("vanish", k)
        n = len(self.sent)
        try:
            return super().send(msg, timeout)
        finally:
            if len(self.sent) > n:
                self.events.append(["f", self.sent[-1], self.replies[-1]])
                self.last_reply = self.replies[-1]
                if k in self.faults.get("drop_reply", ()) and self.replies[-1] is not None:
                    self.fired += 1

    def receive(self, timeout=0):
        k = self.n_recv
        if not self.is_open or self.dead:
            self.n_recv += 1
            self._down("recv-down", k)
        data = super().receive(timeout)
        if data is not self.last_reply:
            self.stale = True
        return data

    def close(self):
        was_open = self.is_open
        self.events.append(["q", 1 if was_open else 0])
        super().close()


def attach(drv, tp, faults):
    fs = LifecycleSocket(tp, faults)
    cls_open = drv.open

    def open_():
        if drv._sock is None:
            drv._sock = fs
        return cls_open()

    drv.open = open_
    drv.fakesock = fs
    return fs


# ------------------------------------------------------------------ cases
# policy = target configuration; the four of the property + variations
POLICIES = {
    "large_ok": {},
    "large_refused": {"accept_large_fo": 0},
    "all_fo_refused": {"accept_large_fo": 0, "accept_std_fo": 0},
    "session_refused": {"accept_session": 0},
    "fclose_refused": {},          # the Forward Close is answered with a service error (twice)
}
POLICY_INJECT = {"fclose_refused": [[0, 0x4E, 1, 0x0107], [0, 0x4E, 8]]}
BASE_POLICIES = ["large_ok", "large_refused", "all_fo_refused", "session_refused"]

RAISE_KINDS = [True, "comm", "response", "request", "data"]     # what the body of a with statement raises itself


def body_exception(kind):
    """the exception instance the body raises: a non-library one, or a library class (user code, or a
    pycomm3 call that fails without touching the transport)"""
    from pycomm3 import exceptions as X
    return {"comm": X.CommError, "response": X.ResponseError, "request": X.RequestError, "data": X.DataError}.get(kind, BodyError)("raised by the body")

# message-router requests used by generic_message: (kwargs of the call, message bytes = service + path + data)
ECHO = (dict(service=0x4B, class_code=0x300, instance=1, request_data=b"abcdefgh"), bytes.fromhex("4b03210000032401") + b"abcdefgh")
ECHO2 = (dict(service=0x4C, class_code=0x3A0, instance=0x1234, request_data=b"\x01\x02\x03"), bytes.fromhex("4c04" + "2100a003" + "25003412") + b"\x01\x02\x03")
NOOBJ = (dict(service=0x0E, class_code=0x77, instance=1, attribute=1), bytes.fromhex("0e03207724013001"))
SETATTR = (dict(service=0x10, class_code=0x301, instance=7, attribute=3, request_data=b"\x11\x22"), bytes.fromhex("1004210001032407" + "3003") + b"\x11\x22")
GETATTR = (dict(service=0x0E, class_code=0x301, instance=7, attribute=3), bytes.fromhex("0e04210001032407" + "3003"))
IDENT = (dict(service=0x01, class_code=0x01, instance=1), bytes.fromhex("010220012401"))
PLCNAME = (dict(service=0x01, class_code=0x64, instance=1), bytes.fromhex("010220642401"))
SHORT = (dict(service=0x4B, class_code=0x300, instance=1, request_data=b"ab"), bytes.fromhex("4b03210000032401") + b"ab")
REQS = {"echo": ECHO, "echo2": ECHO2, "noobj": NOOBJ, "set": SETATTR, "get": GETATTR, "ident": IDENT, "plcname": PLCNAME, "short": SHORT}

FAKE_TAGS = None


def fake_tags():
    """tag definitions for LogixDriver.read/write without an upload (the core target answers 0x05)"""
    global FAKE_TAGS
    if FAKE_TAGS is None:
        from pycomm3.cip import DINT
        mk = lambda name, iid: {"tag_name": name, "dim": 0, "instance_id": iid, "symbol_address": 0, "symbol_object_address": 0,  # noqa: E731
                                "software_control": 0, "alias": False, "external_access": "Read/Write", "dimensions": [0, 0, 0],
                                "tag_type": "atomic", "data_type": "DINT", "data_type_name": "DINT", "type_class": DINT}
        FAKE_TAGS = {"t1": mk("t1", 5), "t2": mk("t2", 6)}
    return FAKE_TAGS


def sop_tokens(o):
    k = o[0]
    if k in ("open", "close"):
        return [k]
    if k == "gc":
        return ["gc", fw.t_bytes(REQS[o[1]][1])]
    if k == "gu":                      # ("gu", req, route_path True/False): resolved message in o[3]
        return ["gu", fw.t_bytes(o[3])]
    if k == "call":                    # ("call", what, args, items, seq_after)
        toks = ["call", str(o[4]), str(len(o[3]))]
        for sq, m in o[3]:
            toks += [str(sq), fw.t_bytes(m)]
        return toks
    raise ValueError(o)


def op_tokens(o):
    if o[0] == "with":
        toks = ["with", "1" if o[2] else "0", str(len(o[1]))]
        for so in o[1]:
            toks += sop_tokens(so)
        return toks
    return sop_tokens(o)


def fault_tokens(flt):
    toks = []
    for key, sym in (("connect", "c"), ("send", "s"), ("send_after", "a"), ("recv", "r"), ("close", "z")):
        for k, fk in sorted(flt.get(key, {}).items()):
            toks += [sym, str(k), str(fk)]
    for k in sorted(flt.get("drop_reply", ())):
        toks += ["d", str(k)]
    for k in sorted(flt.get("vanish", ())):
        toks += ["v", str(k)]
    return toks


def impl_faults(flt):
    """the schedule as exception instances for the socket"""
    def exc(fk):
        return socket.timeout("injected") if fk == 0 else ValueError("injected")
    out = {}
    for key in ("connect", "send", "send_after", "recv", "close"):
        if flt.get(key):
            out[key] = {k: exc(fk) for k, fk in flt[key].items()}
    if flt.get("drop_reply"):
        out["drop_reply"] = set(flt["drop_reply"])
    if flt.get("vanish"):
        out["vanish"] = set(flt["vanish"])
    return out


def rand_stream(seed):
    """the urandom draws of a run: deterministic, never repeating"""
    i = 0
    while True:
        i += 1
        yield ((seed * 7919 + i * 104729) % (2 ** 32 - 5) + 1).to_bytes(4, "little")


class CountingSeq:
    """wraps the driver's sequence generator to know the last count drawn"""
    def __init__(self, gen):
        self.last = None

        def g():
            for v in gen:
                self.last = v
                yield v
        self.gen = g()


# ------------------------------------------------------------------ the implementation side
def exc_code(e):
    from pycomm3 import exceptions as X
    if isinstance(e, BodyError):
        return ("user",)
    table = [(X.BufferEmptyError, 2), (X.DataError, 1), (X.CommError, 3), (X.RequestError, 4), (X.ResponseError, 5)]
    for cls, code in table:
        if type(e) is cls:
            return ("err", code)
    if isinstance(e, X.PycommError):
        return ("err", "pycomm:" + type(e).__name__)
    return ("err", "foreign:" + type(e).__name__)


def snapshot(drv, tp, fs, ev_from):
    cid = drv._target_cid
    return {
        "st": [1 if drv.connected else 0, 1 if drv._target_is_connected else 0, drv._session if drv._session is not None else -1,
               1 if drv._cfg["extended forward open"] else 0, drv._cfg["connection_size"], cid],
        "sessions": tp.sessions(),
        "conns": [[c[f] for f in T.CONN_FIELDS] for c in tp.conns()],
        "events": [list(e) for e in fs.events[ev_from:]],
    }


def run_impl(tp, case):
    """-> (observations, resolved ops, whole target log tokens, socket)"""
    import pycomm3.cip_driver as cd
    from pycomm3 import CIPDriver, LogixDriver
    tp.reset()
    for k, v in case["cfg"].items():
        tp.ask(f"cfg {k} {T._tok(v)}")
    for inj in case["inject"]:
        tp.inject(*inj)
    rs = rand_stream(case["seed"])
    used = []

    def urandom(n):
        b = next(rs)
        used.append(b)
        return b

    obs, resolved = [], []
    with mock.patch.object(cd, "urandom", urandom):
        if case["logix"]:
            drv = LogixDriver(case["path"], init_tags=False, init_program_tags=False)
            drv._tags = dict(fake_tags())
        else:
            drv = CIPDriver(case["path"])
        fs = attach(drv, tp, impl_faults(case["faults"]))
        cs = CountingSeq(drv._sequence)
        drv._sequence = cs.gen
        from pycomm3.cip import PADDED_EPATH
        route = [PADDED_EPATH.encode([seg]) for seg in drv._cfg["cip_path"]]

        def do_sop(o):
            """-> (resolved op, outcome, the exception that escaped or None)"""
            k = o[0]
            try:
                if k == "open":
                    r = drv.open()
                    return o, ("bool", 1 if r else 0), None
                if k == "close":
                    drv.close()
                    return o, ("none",), None
                if k == "gc":
                    t = drv.generic_message(**REQS[o[1]][0])
                    return o, ("tag", 1 if t else 0), None
                if k == "gu":
                    # o[2]: False -> route_path=False; True -> the default route_path=True (nothing is appended
                    # since the fix of F13); "us" -> unconnected_send=True (message wrapped, the route inside)
                    base = REQS[o[1]][1]
                    if o[2] == "us":
                        rp = b"".join(PADDED_EPATH.encode([seg]) for seg in drv._cfg["cip_path"])
                        msg = (bytes.fromhex("5202200624010a05") + len(base).to_bytes(2, "little") + base
                               + (b"\x00" if len(base) % 2 else b"") + bytes([len(rp) // 2, 0]) + rp)
                        kw = dict(unconnected_send=True)
                    else:
                        msg = base
                        kw = dict(route_path=True if o[2] else False)
                    o = ("gu", o[1], o[2], msg)
                    t = drv.generic_message(connected=False, **kw, **REQS[o[1]][0])
                    return o, ("tag", 1 if t else 0), None
                if k == "call":
                    n0 = len(fs.attempts)
                    exc = None
                    try:
                        if o[1] == "read":
                            r = drv.read(*o[2])
                        else:
                            r = drv.write(*o[2])
                        out = ("tags",)
                    except Exception as e:  # noqa: BLE001
                        out, exc = exc_code(e), e
                    items = [(int.from_bytes(f[44:46], "little"), f[46:]) for f in fs.attempts[n0:] if f[:2] == b"\x70\x00"]
                    seq_after = (cs.last + 1) if cs.last is not None else 1
                    return ("call", o[1], o[2], items, seq_after), out, exc
                raise ValueError(o)
            except Exception as e:  # noqa: BLE001
                if k == "gu" and len(o) == 3:
                    o = ("gu", o[1], o[2], REQS[o[1]][1])
                return o, exc_code(e), e

        for o in case["ops"]:
            ev0 = len(fs.events)
            fired0 = fs.fired
            if o[0] != "with":
                ro, out, _ = do_sop(o)
                resolved.append(ro)
                s = snapshot(drv, tp, fs, ev0)
                s.update(out=list(out), op=o[0], fired=fs.fired - fired0)
                obs.append(s)
                continue
            body_res = []
            inner = []
            entered = False
            raised = None
            try:
                with drv:
                    entered = True
                    for so in o[1]:
                        ro, out, exc = do_sop(so)
                        body_res.append(ro)
                        s = snapshot(drv, tp, fs, ev0)
                        s.update(out=list(out), op=so[0], fired=fs.fired - fired0, inner=True)
                        inner.append(s)
                        ev0 = len(fs.events)
                        fired0 = fs.fired
                        if exc is not None:
                            raise exc               # the statement's own exception propagates out of the body
                    if o[2]:
                        raised = body_exception(o[2])
                        raise raised
                final = ("none",)
            except Exception as e:  # noqa: BLE001
                final = ("user",) if e is raised else exc_code(e)
            # a with statement whose body did not start: the body ops are not resolved
            body_res += [((so[0], so[1], so[2], REQS[so[1]][1]) if so[0] == "gu" else (("call", so[1], so[2], [], 1) if so[0] == "call" else so))
                         for so in o[1][len(body_res):]]
            resolved.append(("with", body_res, o[2]))
            obs.extend(inner)
            s = snapshot(drv, tp, fs, ev0)
            s.update(out=list(final), op="with", fired=fs.fired - fired0, entered=entered)
            obs.append(s)
    log = [str(x) if isinstance(x, fw.Sym) else x for x in tp.ask("dump log 0")[2:]]
    return obs, resolved, route, used, log, fs


# ------------------------------------------------------------------ the model side
def model_line(case, resolved, route, used):
    toks = ["run", "1" if case["logix"] else "0", "|"]
    toks += [fw.t_bytes(r) for r in route] + ["|"]
    for k, v in case["cfg"].items():
        toks += [k, T._tok(v)]
    toks += ["|"]
    for inj in case["inject"]:
        toks += ["inj"] + [str(int(x)) for x in inj]
    toks += ["|"] + fault_tokens(case["faults"]) + ["|"]
    # the urandom draws the implementation made, then spare ones (the model may draw where the implementation did not)
    spare = rand_stream(case["seed"] + 1)
    toks += [fw.t_bytes(b) for b in used] + [fw.t_bytes(next(spare)) for _ in range(4)] + ["|"]
    for o in resolved:
        toks += op_tokens(o)
    return " ".join(toks)


def parse_model(ans):
    """-> (observations, log tokens)"""
    if not ans or str(ans[0]) != "ok":
        raise RuntimeError(f"model answered {ans[:6]!r}")
    groups = T._groups(ans[1:])[1:]
    obs, log = [], None
    for gi, g in enumerate(groups):
        if str(g[0]) == "log":
            log = []
            for gg in groups[gi + 1:]:
                log += ["|"] + [str(x) if isinstance(x, fw.Sym) else x for x in gg]
            break
        assert str(g[0]) == "obs", g[:3]
        i = 1
        kind = str(g[i])
        if kind in ("bool", "tag", "err"):
            out = [kind, g[i + 1]]
            i += 2
        elif kind == "tags":
            i += 1
            while str(g[i]) != "st":
                i += 1
            out = ["tags"]
        else:
            out = [kind]
            i += 1
        assert str(g[i]) == "st", g
        st = list(g[i + 1:i + 7])
        st[5] = None if isinstance(st[5], fw.Sym) else st[5]
        i += 7
        assert str(g[i]) == "s"
        i += 1
        sessions = []
        while i < len(g) and isinstance(g[i], int):
            sessions.append(g[i])
            i += 1
        conns, events = [], []
        while i < len(g):
            t = str(g[i])
            if t == "c":
                conns.append(list(g[i + 2:i + 12]))
                i += 12
            elif t == "k" or t == "q":
                events.append([t, g[i + 1]])
                i += 2
            elif t == "f":
                events.append(["f", g[i + 1], None if isinstance(g[i + 2], fw.Sym) else g[i + 2]])
                i += 3
            elif t == "v":
                events.append(["v"])
                i += 1
            else:
                raise RuntimeError(f"unexpected token {t} in {g[:8]}")
        obs.append({"out": out, "st": st, "sessions": sessions, "conns": conns, "events": events})
    return obs, log


# ------------------------------------------------------------------ the oracle on the implementation
def fo_attempts(log_events):
    """Forward Open attempts the target saw: [(large, size, granted)] from its request / app events"""
    out = []
    cur = None
    for e in log_events:
        if e["ev"] == "request" and e["transport"] == ("ucmm",) and e["path"] == bytes.fromhex("20062401") and e["service"] in (0x54, 0x5B):
            large = e["service"] == 0x5B
            d = e["data"]
            size = (int.from_bytes(d[26:30], "little") & 0xFFFF) if large else (int.from_bytes(d[26:28], "little") & 0x1FF)
            cur = [large, size, False]
            out.append(cur)
        elif e["ev"] == "app" and e["tag"] == 1010 and cur is not None:
            cur[2] = True
    return out


def oracle(R, case, obs, fs, tp_log, label):
    cls_suffix = ":stale-reply" if fs.stale else ""
    brief = {k: case[k] for k in ("logix", "path", "policy", "cfg", "inject", "faults", "ops", "seed")}
    # O1
    last_cmd = None
    for e in tp_log:
        if e["ev"] == "frame":
            last_cmd = e["cmd"]
        elif e["ev"] == "badframe" and e["why"] in (100, 101) and last_cmd == 0x70:
            R.fail("a SendUnitData frame was sent on a connection the target does not hold", brief,
                   {"badframe": e["why"]}, "every 0x70 frame addresses a registered session and an open connection",
                   "unitdata-before-forward-open" + cls_suffix)
            break
    # O2
    att = fo_attempts(tp_log)
    if att and not (att[0][0] and att[0][1] == 4000):
        R.fail("the first Forward Open is not Large with 4000", brief, att[:4], "(large, 4000)", "fo-order:first" + cls_suffix)
    for i, (large, size, granted) in enumerate(att):
        if not large:
            if size != 500:
                R.fail("standard Forward Open with a size other than 500", brief, att[:i + 1], 500, "fo-order:std-size" + cls_suffix)
                break
            if not any(a[0] and not a[2] for a in att[:i]):
                R.fail("standard Forward Open without an earlier refused Large one", brief, att[:i + 1],
                       "a Large attempt the target did not grant comes first", "fo-order:std-before-refusal" + cls_suffix)
                break
        elif size != 4000:
            R.fail("Large Forward Open with a size other than 4000", brief, att[:i + 1], 4000, "fo-order:large-size" + cls_suffix)
            break
    # O3 / O4 / O5
    closed = False          # the previous call was a close() (or a with statement whose __exit__ ran)
    for i, o in enumerate(obs):
        out = o["out"]
        if out[0] == "err" and not isinstance(out[1], int):
            if str(out[1]).startswith("foreign:"):
                R.fail("a call raised an exception that is not a PycommError", brief, {"call": i, "op": o["op"], "exception": out[1]},
                       "PycommError subclass or falsy Tag", f"foreign-exception:{o['op']}" + cls_suffix)
        if o["op"] in ("close", "with"):
            if o["op"] == "with" and not o.get("entered", True):
                pass          # __enter__ raised: __exit__ (close) never ran
            else:
                if o["st"][0] != 0:
                    R.fail("connected is True after close()", brief, {"call": i}, False, "close:connected" + cls_suffix)
                if o["fired"] == 0 and (o["sessions"] or o["conns"]):
                    R.fail("the target still holds a session/connection after a close() that met no fault", brief,
                           {"call": i, "sessions": o["sessions"], "conns": o["conns"]}, "empty tables", "close:leftover" + cls_suffix)
                R.count("close_tables", "empty" if not (o["sessions"] or o["conns"]) else "left")
                closed = True
                continue
        elif o["op"] == "open" and closed and o["fired"] == 0:
            if case["cfg"].get("accept_session", 1) and not case["logix"]:
                ok = out == ["bool", 1] and o["st"][0] == 1 and o["st"][2] in o["sessions"]
                if not ok:
                    R.fail("open() after close() did not work", brief, {"call": i, "out": out, "st": o["st"], "sessions": o["sessions"]},
                           "True, connected, session registered at the target", "reopen" + cls_suffix)
                R.count("reopen", "ok" if ok else "failed")
        closed = False


# ------------------------------------------------------------------ one case, both sides
def canon_out(out):
    out = list(out)
    if out and out[0] == "tags":
        return ["tags"]
    return out


def run_case(R, tp, mp, case, label, check=True):
    obs, resolved, route, used, log, fs = run_impl(tp, case)
    line = model_line(case, resolved, route, used)
    mobs, mlog = parse_model(fw.parse_line(mp.ask_raw(line)))
    brief = {k: case[k] for k in ("logix", "path", "policy", "cfg", "inject", "faults", "ops", "seed")}
    R.corr_checked += 1
    nontrivial = any(ev[0] == "f" for o in obs for ev in o["events"])
    R.case((case["logix"], case["path"], sorted(case["cfg"].items()), case["inject"], json.dumps(case["faults"], sort_keys=True, default=list),
            repr(case["ops"])), nontrivial)
    if len(mobs) != len(obs):
        R.disagree("number of observations", brief, len(mobs), len(obs))
    else:
        for i, (m, o) in enumerate(zip(mobs, obs)):
            mi = {"out": canon_out(m["out"]), "st": m["st"], "sessions": m["sessions"], "conns": m["conns"], "events": m["events"]}
            oi = {"out": canon_out(o["out"]), "st": o["st"], "sessions": o["sessions"], "conns": o["conns"], "events": o["events"]}
            if mi != oi:
                diff = [k for k in mi if mi[k] != oi[k]]
                R.disagree(f"call {i} ({o['op']}): {','.join(diff)}", brief, {k: mi[k] for k in diff}, {k: oi[k] for k in diff})
                break
        else:
            if mlog is not None and mlog != log:
                R.disagree("target event log", brief, mlog[-40:], log[-40:])
    tp_log = tp.log()
    if check:
        oracle(R, case, obs, fs, tp_log, label)
    # histograms
    R.count("driver", "LogixDriver" if case["logix"] else "CIPDriver")
    R.count("policy", case["policy"])
    R.count("history_len", len(case["ops"]))
    nf = sum(len(v) for v in case["faults"].values())
    R.count("faults", nf)
    for k, v in case["faults"].items():
        if v:
            R.count("fault_kind", k, len(v))
    R.count("faults_fired", fs.fired)
    for o in obs:
        R.count("outcome", o["op"] + ":" + ":".join(str(x) for x in canon_out(o["out"])))
    R.count("frames_per_case", min(len(fs.sent), 30) // 5 * 5)
    if fs.stale:
        R.count("stale_reply_runs", "yes")
    return obs, fs


# ------------------------------------------------------------------ real tags: LogixDriver against the Logix target
def run_real_case(R, tp, seed):
    """LogixDriver(init_tags=True) with real read()/write() of real tags against the WHOLE reference target
    (bin/modelrun_target: core + Logix handler, a generated controller project).  The model co-process
    embeds the core handler only, so this stage has no model side: it evaluates the oracle on the
    implementation (O1-O5) over histories that contain genuine tag services and the tag upload in open()."""
    import scenarios as S
    import refview as RV
    import pycomm3.cip_driver as cd
    from pycomm3 import LogixDriver
    import random
    rng = random.Random(seed * 7919 + 13)          # the whole case is a function of its seed (replayable)
    sc = S.gen_scenario(rng, n_tags=rng.randrange(3, 12))
    policy = rng.choice(list(POLICIES))
    cfg = dict(POLICIES[policy])
    inject = [list(i) for i in POLICY_INJECT.get(policy, [])]
    flt = {}
    for _f in range(rng.choice([0, 1, 1, 1, 2])):
        key = rng.choice(["connect", "send", "send_after", "recv", "drop_reply", "vanish", "close"])
        k = rng.randrange(0, 3 if key in ("connect", "close") else 70)
        if key in ("drop_reply", "vanish"):
            flt.setdefault(key, [])
            if k not in flt[key]:
                flt[key].append(k)
        else:
            flt.setdefault(key, {})[k] = rng.choice([0, 0, 1])
    flt = norm_faults(flt)
    reads = S.gen_read_requests(rng, sc, 6)
    writes = [(q, RV.to_python(v)) for q, v in S.gen_write_requests(rng, sc, 4)]
    pool = [("open",), ("close",), ("gc", "echo"), ("gu", "echo", False)]
    pool += [("read", tuple(reads[:k])) for k in (1, 2, 4) if len(reads) >= k]
    pool += [("write", tuple(writes[:k])) for k in (1, 2) if len(writes) >= k]
    pool += [("with", [pool[rng.randrange(2, len(pool))]], rng.choice([False, False] + RAISE_KINDS)) for _ in range(2)]
    ops = [rng.choice(pool) for _ in range(rng.randrange(2, 8))]
    if rng.random() < 0.8 and ops[0][0] != "with":
        ops[0] = ("open",)
    case = {"logix": True, "path": "10.0.0.1", "policy": policy, "cfg": cfg, "inject": inject, "faults": flt, "ops": ops, "seed": seed,
            "real_tags": True}
    tp.reset()
    tp.lines(sc.cfg_lines())
    tp.lines(sc.lines())
    for k, v in cfg.items():
        tp.ask(f"cfg {k} {T._tok(v)}")
    for inj in inject:
        tp.inject(*inj)
    rs = rand_stream(seed)
    obs = []
    with mock.patch.object(cd, "urandom", lambda n: next(rs)):
        drv = LogixDriver(case["path"])
        fs = attach(drv, tp, impl_faults(flt))

        def do(o):
            try:
                if o[0] == "open":
                    return ("bool", 1 if drv.open() else 0), None
                if o[0] == "close":
                    drv.close()
                    return ("none",), None
                if o[0] == "gc":
                    return ("tag", 1 if drv.generic_message(**REQS[o[1]][0]) else 0), None
                if o[0] == "gu":
                    return ("tag", 1 if drv.generic_message(connected=False, route_path=False, **REQS[o[1]][0]) else 0), None
                if o[0] == "read":
                    drv.read(*o[1])
                    return ("tags",), None
                if o[0] == "write":
                    drv.write(*o[1])
                    return ("tags",), None
                raise ValueError(o)
            except Exception as e:  # noqa: BLE001
                return exc_code(e), e

        for o in ops:
            ev0, fired0 = len(fs.events), fs.fired
            if o[0] != "with":
                out, _ = do(o)
                s = snapshot(drv, tp, fs, ev0)
                s.update(out=list(out), op=o[0], fired=fs.fired - fired0)
                obs.append(s)
                continue
            entered, raised = False, None
            try:
                with drv:
                    entered = True
                    for so in o[1]:
                        out, exc = do(so)
                        s = snapshot(drv, tp, fs, ev0)
                        s.update(out=list(out), op=so[0], fired=fs.fired - fired0, inner=True)
                        obs.append(s)
                        ev0, fired0 = len(fs.events), fs.fired
                        if exc is not None:
                            raise exc
                    if o[2]:
                        raised = body_exception(o[2])
                        raise raised
                final = ("none",)
            except Exception as e:  # noqa: BLE001
                final = ("user",) if e is raised else exc_code(e)
            s = snapshot(drv, tp, fs, ev0)
            s.update(out=list(final), op="with", fired=fs.fired - fired0, entered=entered)
            obs.append(s)
    def brief(o):
        if o[0] in ("read", "write"):
            return [o[0], len(o[1])]
        if o[0] == "with":
            return ["with", [brief(x) for x in o[1]], o[2]]
        return list(o)
    brief_ops = [brief(o) for o in ops]
    case["ops"] = brief_ops
    case["scenario_seed"] = seed
    oracle(R, case, obs, fs, tp.log(), "real-tags")
    R.case(("real", seed, policy, json.dumps(flt, sort_keys=True, default=list), repr(brief_ops)), any(ev[0] == "f" for o in obs for ev in o["events"]))
    R.count("source", "real-tags")
    R.count("real_tags_frames", min(len(fs.sent), 200) // 20 * 20)
    for o in obs:
        R.count("outcome_real", o["op"] + ":" + ":".join(str(x) for x in canon_out(o["out"])))
    if fs.stale:
        R.count("stale_reply_runs", "real")


# ------------------------------------------------------------------ generators
def alphabet(logix):
    a = [("open",), ("close",), ("gc", "echo"), ("gu", "echo", False), ("gc", "noobj"),
         ("with", [("gc", "echo2")], False), ("with", [("gu", "ident", False)], True)]
    a.append(("call", "read", ("t1",)) if logix else ("gu", "short", True))
    return a


def more_ops(logix, rng):
    """a wider alphabet for the random histories"""
    a = alphabet(logix) + [("gc", "set"), ("gc", "get"), ("gu", "get", False), ("gu", "plcname", False), ("gc", "plcname"), ("gc", "short"),
                           ("gu", "echo", True), ("gu", "echo", "us"), ("gu", "ident", "us"), ("with", [("open",), ("gc", "echo"), ("close",), ("gu", "echo", False)], False),
                           ("with", [("gc", "noobj"), ("gc", "echo")], rng.choice(RAISE_KINDS)), ("with", [], False),
                           ("with", [], rng.choice(RAISE_KINDS)), ("with", [("gc", "echo")], rng.choice(RAISE_KINDS))]
    if logix:
        a += [("call", "read", ("t1", "t2")), ("call", "write", (("t1", 5),)), ("call", "read", ("nosuch",)),
              ("with", [("call", "read", ("t1",))], False)]
    return a


def mk_case(logix, policy, ops, faults=None, seed=1, path=None, inject=(), extra_cfg=None):
    cfg = dict(POLICIES[policy])
    cfg.update(extra_cfg or {})
    inject = list(inject) + POLICY_INJECT.get(policy, [])
    return {"logix": logix, "path": path or IP, "policy": policy, "cfg": cfg, "inject": [list(i) for i in inject],
            "faults": faults or {}, "ops": list(ops), "seed": seed}


def single_faults(n_connect, n_send, n_recv, n_close, rng, every):
    """single-fault schedules for a run that makes these numbers of socket calls"""
    out = []
    kinds = []
    for k in range(n_connect):
        kinds.append(("connect", k))
    for k in range(n_send):
        kinds += [("send", k), ("send_after", k), ("drop_reply", k), ("vanish", k)]
    for k in range(n_recv):
        kinds.append(("recv", k))
    for k in range(n_close):
        kinds.append(("close", k))
    if not every and len(kinds) > 6:
        kinds = rng.sample(kinds, 6)
    for key, k in kinds:
        if key in ("drop_reply", "vanish"):
            out.append({key: [k]})
        else:
            out.append({key: {k: rng.choice([0, 0, 0, 1])}})
    return out


def norm_faults(f):
    return {k: (dict(v) if isinstance(v, dict) else sorted(v)) for k, v in f.items()}


def load_corpus():
    d = os.path.join(fw.VERIF, "corpus", "C10")
    cases = []
    if os.path.isdir(d):
        for fn in sorted(os.listdir(d)):
            if fn.endswith(".json"):
                for c in json.load(open(os.path.join(d, fn))):
                    cases.append(case_from_json(_unjson(c)))
    return cases


def case_from_json(c):
    def op(o):
        o = list(o)
        if o[0] == "with":
            return ("with", [op(x) for x in o[1]], o[2] if isinstance(o[2], str) else bool(o[2]))
        if o[0] == "call":
            return ("call", o[1], tuple(tuple(a) if isinstance(a, list) else a for a in o[2]))
        return tuple(o)
    flt = {}
    for k, v in c.get("faults", {}).items():
        flt[k] = {int(a): int(b) for a, b in v.items()} if isinstance(v, dict) else [int(x) for x in v]
    return {"logix": bool(c["logix"]), "path": c.get("path", IP), "policy": c.get("policy", "custom"), "cfg": dict(c.get("cfg", {})),
            "inject": [list(i) for i in c.get("inject", [])], "faults": flt, "ops": [op(o) for o in c["ops"]], "seed": int(c.get("seed", 1))}


def run(R, escalate=False):
    import time
    logging.disable(logging.CRITICAL)
    thorough = R.tier == "thorough" or escalate
    rng = R.rng
    t0 = time.time()
    # the big generators are capped by TIME: a share of the harness budget bin/check enforces
    budget = 0.62 * float(os.environ.get("VERIF_HARNESS_TIMEOUT", "900" if R.tier == "quick" else "5400"))

    def left(share):
        return time.time() - t0 < share * budget

    R.rule = ("call histories over {open, close, generic_message connected (echo / error reply) and unconnected, with-block with and without "
              "exception, read (LogixDriver) / unconnected with route (CIPDriver)} x {CIPDriver, LogixDriver(init_tags=False)} x policies {large FO ok, "
              "large refused, all FO refused, session refused, Forward Close refused}: all histories up to length 3 (thorough: 4, one policy drawn per "
              "length-4 history) without fault; with-blocks whose body raises each exception class (CommError / ResponseError / RequestError / DataError / "
              "a non-library one, raised by a failing request or by the body itself) under every policy; single faults at every socket call position of "
              "sampled (thorough: all length<=3) histories; random longer histories over a wider alphabet with 0-2 faults, error injections, routes, "
              "expected-route refusals; real tag reads/writes against the whole target (oracle only); the big generators stop when their share of the "
              "time budget is used; non-trivial = distinct case in which at least one frame reached the target")
    tp = T.TargetProc("targetcore")
    mp = fw.ModelProc("C10")
    try:
        for c in load_corpus():
            run_case(R, tp, mp, c, "corpus")
            R.count("source", "corpus")
        seed = 0
        # with-blocks: every exception class the body can end with x every policy x what precedes / follows
        for logix in (False, True):
            for pol in POLICIES:
                for body in ([], [("gc", "echo")], [("gu", "echo", False)], [("gc", "noobj")]):
                    for kind in [False] + RAISE_KINDS:
                        for pre in ([], [("open",)]):
                            for post in ([], [("open",)]):
                                seed += 1
                                case = mk_case(logix, pol, pre + [("with", list(body), kind)] + post, seed=seed)
                                run_case(R, tp, mp, case, "with-raises")
                                R.count("source", "with-raises")
                                R.count("with_raises", str(kind))
        base_runs = []          # (case, socket counters) of fault-free runs, for the fault stage
        for n in range(1, (4 if thorough else 3) + 1):
            for logix in (False, True):
                alpha = alphabet(logix)
                for hist in itertools.product(alpha, repeat=n):
                    if n > 3 and not left(0.3):
                        break
                    pols = list(POLICIES) if n <= 3 else [rng.choice(list(POLICIES))]
                    for pol in pols:
                        seed += 1
                        case = mk_case(logix, pol, hist, seed=seed)
                        obs, fs = run_case(R, tp, mp, case, "exhaustive")
                        R.count("source", "exhaustive")
                        if n <= 3:
                            base_runs.append((case, (fs.n_connect, fs.n_send, fs.n_recv, fs.n_close)))
        R.exhaustive = True
        # single faults
        if thorough:
            chosen = list(base_runs)
            rng.shuffle(chosen)            # the time cap may cut this stage: spread what is covered
        else:
            short = [b for b in base_runs if len(b[0]["ops"]) <= 2]
            chosen = rng.sample(short, min(len(short), 150)) + rng.sample(base_runs, 200)
        for case, (nc, ns, nr, ncl) in chosen:
            if thorough and not left(0.72):
                R.notes.append("single-fault stage stopped by the time budget")
                break
            every = thorough and len(case["ops"]) <= 3
            for flt in single_faults(nc, ns, nr, ncl, rng, every):
                seed += 1
                c2 = dict(case, faults=norm_faults(flt), seed=seed)
                run_case(R, tp, mp, c2, "single-fault")
                R.count("source", "single-fault")
        # random longer histories, wider alphabet, 0-2 faults, injections, routes
        paths = [IP, IP + "/bp/2", IP + "/bp/1/enet/10.0.0.5/bp/0", IP + "/1/2/2/3"]
        for _ in range(3000 if thorough else 300):
            if thorough and not left(0.9):
                break
            seed += 1
            logix = rng.random() < 0.5
            ops = [rng.choice(more_ops(logix, rng)) for _ in range(rng.randrange(2, 9))]
            pol = rng.choice(list(POLICIES))
            flt = {}
            for _f in range(rng.choice([0, 1, 1, 2, 2])):
                key = rng.choice(["connect", "send", "send_after", "recv", "drop_reply", "vanish", "close"])
                k = rng.randrange(0, 3 if key in ("connect", "close") else 12)
                if key in ("drop_reply", "vanish"):
                    flt.setdefault(key, [])
                    if k not in flt[key]:
                        flt[key].append(k)
                else:
                    flt.setdefault(key, {})[k] = rng.choice([0, 0, 1])
            inject = []
            if rng.random() < 0.3:
                inject.append([rng.randrange(0, 3), rng.choice([0x4B, 0x5B, 0x54, 0x4E, 0x01, 0x0E, 0x4C]), rng.choice([1, 5, 8, 0x1E, 0xFF])]
                              + ([rng.randrange(1, 0x400)] if rng.random() < 0.4 else []))
            extra = {}
            if rng.random() < 0.15:
                extra["max_large_size"] = rng.choice([500, 3999, 4000])
            if rng.random() < 0.15:
                extra["product_name"] = rng.choice([b"2080-LC50-24QWB", b"2080", b"", b"1756-L83E/B"])
            if rng.random() < 0.1:
                extra["session_handle"] = rng.choice([0xFFFFFFFF, 1, 0x80000000])
            if rng.random() < 0.1:
                extra["expect_route"] = rng.choice([b"", b"\x01\x00", b"\x01\x02"])
            case = mk_case(logix, pol, ops, faults=norm_faults(flt), seed=seed, path=rng.choice(paths), inject=inject, extra_cfg=extra)
            run_case(R, tp, mp, case, "random")
            R.count("source", "random")
        # real tags (implementation-side oracle only), when the Logix half of the target is built
        if os.path.exists(os.path.join(fw.VERIF, "bin", "modelrun_target")):
            tpl = None
            try:
                tpl = T.TargetProc("target")
                for _ in range(1500 if thorough else 250):
                    if thorough and not left(1.0):
                        break
                    seed += 1
                    run_real_case(R, tpl, seed)
            except T.TargetError as e:          # the Logix half is another vertical's work in progress
                R.notes.append(f"real-tags stage stopped: {e!r}"[:300])
            finally:
                if tpl is not None:
                    tpl.close()
        else:
            R.notes.append("real-tags stage skipped: bin/modelrun_target is not built")
    finally:
        tp.close()
        mp.close()


def replay(R, rp):
    logging.disable(logging.CRITICAL)
    f = rp.get("failure") or {}
    case = f.get("case") or (rp.get("correspondence_disagreements") or [{}])[0].get("case")
    tp = T.TargetProc("targetcore")
    mp = fw.ModelProc("C10")
    try:
        if case and case.get("real_tags"):
            tpl = T.TargetProc("target")
            try:
                run_real_case(R, tpl, int(case["scenario_seed"]))
            finally:
                tpl.close()
        elif case:
            run_case(R, tp, mp, case_from_json(_unjson(case)), "replay")
        else:
            run(R, escalate=True)
    finally:
        tp.close()
        mp.close()


def _unjson(x):
    if isinstance(x, dict):
        if set(x) == {"b"}:
            return bytes.fromhex(x["b"])
        return {k: _unjson(v) for k, v in x.items()}
    if isinstance(x, list):
        return [_unjson(v) for v in x]
    return x
