"""refview.py — Python view of the reference side of bin/modelrun_target: converts the answers of
`refread`, `refwrite`, `view tags|types|programs` (Extract/ExTarget.v) into the Python values a
correct client should return, and compares them with what pycomm3 returned.

Tagged values (also what scenarios.rand_value produces):
    ("i", int) ("b", bool) ("r", binary32 bits) ("l", binary64 bits) ("s", str)
    ("S", [(name, value), ...]) ("L", [value, ...])
"""
import math
import os
import struct
import sys

sys.path.insert(0, os.path.dirname(os.path.abspath(__file__)))
import framework as fw  # noqa: E402

EXTERNAL_ACCESS = {0: "Read/Write", 1: "Reserved", 2: "Read Only", 3: "None"}   # Logix Data Access manual
ATOM_NAMES = {0xC1: "BOOL", 0xC2: "SINT", 0xC3: "INT", 0xC4: "DINT", 0xC5: "LINT", 0xC6: "USINT", 0xC7: "UINT",
              0xC8: "UDINT", 0xC9: "ULINT", 0xCA: "REAL", 0xCB: "LREAL", 0xD1: "BYTE", 0xD2: "WORD", 0xD3: "DWORD",
              0xD4: "LWORD"}


def _text(t):
    return t.decode("latin-1") if isinstance(t, (bytes, bytearray)) else str(t)


# ------------------------------------------------------------------ values
def parse_value(toks, i=0):
    """tokens (as parsed by framework.parse_line) -> (tagged value, next index)"""
    k = str(toks[i])
    if k in ("i", "r", "l"):
        return (k, toks[i + 1]), i + 2
    if k == "b":
        return ("b", bool(toks[i + 1])), i + 2
    if k == "s":
        return ("s", _text(toks[i + 1])), i + 2
    if k == "L":
        n, j, out = toks[i + 1], i + 2, []
        for _ in range(n):
            v, j = parse_value(toks, j)
            out.append(v)
        return ("L", out), j
    if k == "S":
        n, j, out = toks[i + 1], i + 2, []
        for _ in range(n):
            name = _text(toks[j])
            v, j = parse_value(toks, j + 1)
            out.append((name, v))
        return ("S", out), j
    raise ValueError(f"bad value token {k!r}")


def to_tokens(v):
    k, a = v
    if k in ("i", "r", "l"):
        return f"{k} {int(a)}"
    if k == "b":
        return f"b {1 if a else 0}"
    if k == "s":
        return "s x" + a.encode("latin-1").hex()
    if k == "L":
        return f"L {len(a)}" + "".join(" " + to_tokens(e) for e in a)
    if k == "S":
        return f"S {len(a)}" + "".join(f" x{n.encode('latin-1').hex()} {to_tokens(e)}" for n, e in a)
    raise ValueError(k)


def f32(bits):
    return struct.unpack("<f", struct.pack("<I", bits))[0]


def f64(bits):
    return struct.unpack("<d", struct.pack("<Q", bits))[0]


def to_python(v):
    """the Python value pycomm3 documents for this value: int / bool / float / str / dict / list"""
    k, a = v
    if k == "i":
        return int(a)
    if k == "b":
        return bool(a)
    if k == "r":
        return f32(a)
    if k == "l":
        return f64(a)
    if k == "s":
        return a
    if k == "L":
        return [to_python(e) for e in a]
    if k == "S":
        return {n: to_python(e) for n, e in a}
    raise ValueError(k)


def same_value(expected, got, ordered=False):
    """`got` (from pycomm3) equals the tagged `expected`: ints / bools / strings exactly, floats by
    their bit pattern (any NaN matches any NaN), dicts with exactly the expected keys (ordered=True:
    in member order — pycomm3 lists BOOL members after all the others)"""
    k, a = expected
    if k == "i":
        return type(got) is int and got == a
    if k == "b":
        return type(got) is bool and got == a
    if k in ("r", "l"):
        if not isinstance(got, float):
            return False
        e = f32(a) if k == "r" else f64(a)
        if math.isnan(e):
            return math.isnan(got)
        return struct.pack("<d", e) == struct.pack("<d", got)
    if k == "s":
        return isinstance(got, str) and got == a
    if k == "L":
        return isinstance(got, list) and len(got) == len(a) and all(same_value(e, g, ordered) for e, g in zip(a, got))
    if k == "S":
        keys = [n for n, _ in a]
        if not isinstance(got, dict) or (list(got.keys()) != keys if ordered else sorted(got.keys()) != sorted(keys)):
            return False
        return all(same_value(e, got[n], ordered) for n, e in a)
    return False


def type_string(name, count):
    """documented type string: element type, with [n] for more than one element"""
    return f"{name}[{count}]" if count > 1 else name


def refread(tp, request, unwrap_single=True):
    """-> None (no reference value: the request does not exist in the project) or
    {"value": tagged value, "type": type string, "elem_type": name, "count": n (0 = single value)}.
    unwrap_single: an explicit {1} yields the single value (pycomm3's documented behaviour) instead
    of a 1-element list."""
    ans = tp.ask("refread x" + request.encode("latin-1").hex())
    if str(ans[0]) != "ok":
        return None
    name, count = _text(ans[1]), ans[2]
    if name == "ASCIISTRING82":          # pycomm3's documented name of the built-in string type
        name = "STRING"
    v, _ = parse_value(ans, 3)
    if unwrap_single and count == 1 and v[0] == "L" and len(v[1]) == 1:
        v = v[1][0]
    return {"value": v, "type": type_string(name, count), "elem_type": name, "count": count}


def refwrite(tp, request, value):
    """-> None or (instance id, expected image of that instance after the write)"""
    ans = tp.ask("refwrite x" + request.encode("latin-1").hex() + " " + to_tokens(value))
    if str(ans[0]) != "ok":
        return None
    return ans[1], bytes(ans[2])


def dump_mem(tp, inst):
    ans = tp.ask(f"dump mem {inst}")
    return bytes(ans[1]) if str(ans[0]) == "ok" else None


# ------------------------------------------------------------------ the abstract view
def _groups(toks):
    out, cur = [], []
    for t in toks:
        if isinstance(t, fw.Sym) and t == "|":
            out.append(cur)
            cur = []
        else:
            cur.append(t)
    out.append(cur)
    return out[1:]


def _ty(kind, code):
    return (str(kind), code)


def view(tp):
    """-> {"tags": {full name: {...}}, "types": {template id: {...}}, "programs": {name: {...}}, "tasks": {name: inst}}"""
    tags = {}
    for g in _groups(tp.ask("view tags")):
        name = _text(g[1])
        tags[name] = {"tag_name": name, "instance_id": g[2], "type": _ty(g[3], g[4]), "bit_position": g[5],
                      "access": g[6], "alias": bool(g[7]), "symbol_address": g[8], "symbol_object_address": g[9],
                      "software_control": g[10], "dims": list(g[11:])}
    types = {}
    for g in _groups(tp.ask("view types")):
        members = []
        i = 8
        while i < len(g):
            assert str(g[i]) == "m", g
            members.append({"name": _text(g[i + 1]), "type": _ty(g[i + 2], g[i + 3]), "array": g[i + 4],
                            "offset": g[i + 5], "bit": None if g[i + 6] < 0 else g[i + 6]})
            i += 7
        types[g[1]] = {"id": g[1], "name": _text(g[2]), "handle": g[3], "size": g[4], "defsize": g[5],
                       "member_count": g[6], "string": None if g[7] < 0 else g[7], "members": members}
    programs, tasks = {}, {}
    for g in _groups(tp.ask("view programs")):
        if str(g[0]) == "prog":
            programs[_text(g[1])] = {"instance_id": g[2], "routines": [_text(r) for r in g[3:]]}
        else:
            tasks[_text(g[1])] = {"instance_id": g[2]}
    return {"tags": tags, "types": types, "programs": programs, "tasks": tasks}


def type_name(v, ty):
    kind, code = ty
    if kind == "a":
        return ATOM_NAMES.get(code)
    name = v["types"][code]["name"]
    return "STRING" if name == "ASCIISTRING82" else name       # pycomm3's documented renaming of the built-in string


def diff_data_type(v, tid, dt, where, out, seen=None):
    """compare a pycomm3 data-type dict with the view's structure `tid`"""
    t = v["types"].get(tid)
    if t is None:
        out.append(f"{where}: template {tid} is not in the view")
        return
    if not isinstance(dt, dict):
        out.append(f"{where}: data type is {dt!r}, expected the definition of {t['name']}")
        return
    exp_name = type_name(v, ("s", tid))
    if dt.get("name") != exp_name:
        out.append(f"{where}: name {dt.get('name')!r} != {exp_name!r}")
    tm = dt.get("template", {})
    for k, e in (("structure_size", t["size"]), ("member_count", t["member_count"]),
                 ("structure_handle", t["handle"]), ("object_definition_size", t["defsize"])):
        if tm.get(k) != e:
            out.append(f"{where}: template[{k}] {tm.get(k)!r} != {e!r}")
    names = [m["name"] for m in t["members"]]
    if dt.get("attributes") != names:
        out.append(f"{where}: attributes {dt.get('attributes')!r} != visible members {names!r}")
    if t["string"] is not None:
        data = [m for m in t["members"] if m["name"] == "DATA"][0]
        if dt.get("string") != data["array"]:
            out.append(f"{where}: string length {dt.get('string')!r} != {data['array']}")
        tc = dt.get("type_class")
        if tc is not None and getattr(tc, "size", None) != t["string"]:
            out.append(f"{where}: string data area {getattr(tc, 'size', None)!r} != structure size - 4 = {t['string']}")
        if tc is not None and getattr(tc, "capacity", data["array"]) != data["array"]:
            out.append(f"{where}: string capacity {getattr(tc, 'capacity', None)!r} != DATA length {data['array']}")
    elif "string" in dt:
        out.append(f"{where}: marked as a string but is not a LEN/DATA structure")
    it = dt.get("internal_tags", {})
    for m in t["members"]:
        w = f"{where}.{m['name']}"
        got = it.get(m["name"])
        if got is None:
            out.append(f"{w}: member missing")
            continue
        if got.get("offset") != m["offset"]:
            out.append(f"{w}: offset {got.get('offset')!r} != {m['offset']}")
        if m["bit"] is not None:
            if got.get("bit") != m["bit"] or got.get("data_type") != "BOOL" or got.get("tag_type") != "atomic":
                out.append(f"{w}: BOOL bit {m['bit']} expected, got {dict((k, got.get(k)) for k in ('bit', 'data_type', 'tag_type'))}")
            continue
        if got.get("array") != m["array"]:
            out.append(f"{w}: array length {got.get('array')!r} != {m['array']}")
        if m["type"][0] == "a":
            if got.get("data_type") != ATOM_NAMES.get(m["type"][1]) or got.get("tag_type") != "atomic":
                out.append(f"{w}: type {got.get('data_type')!r}/{got.get('tag_type')!r} != {ATOM_NAMES.get(m['type'][1])}")
        else:
            if got.get("tag_type") != "struct":
                out.append(f"{w}: tag_type {got.get('tag_type')!r} != 'struct'")
            key = (m["type"][1],)
            if seen is None or key not in seen:
                diff_data_type(v, m["type"][1], got.get("data_type"), w, out, (seen or set()) | {key})


def diff_upload(v, drv, program_tags=True):
    """differences between a LogixDriver after open()/get_tag_list and the view; [] = mirrors"""
    out = []
    exp = {n: t for n, t in v["tags"].items() if program_tags or not n.startswith("Program:")}
    got = drv.tags
    for n in exp:
        if n not in got:
            out.append(f"tag {n}: missing from the upload")
    for n in got:
        if n not in exp:
            out.append(f"tag {n}: invented (not a user-visible tag of the project)")
    for n, e in exp.items():
        g = got.get(n)
        if g is None:
            continue
        w = f"tag {n}"
        if g.get("tag_name") != n:
            out.append(f"{w}: tag_name {g.get('tag_name')!r}")
        for k in ("instance_id", "alias", "symbol_address", "symbol_object_address", "software_control"):
            if g.get(k) != e[k]:
                out.append(f"{w}: {k} {g.get(k)!r} != {e[k]!r}")
        if g.get("dim") != len(e["dims"]):
            out.append(f"{w}: dim {g.get('dim')!r} != {len(e['dims'])}")
        if list(g.get("dimensions", []))[:len(e["dims"])] != e["dims"]:
            out.append(f"{w}: dimensions {g.get('dimensions')!r} != {e['dims']}")
        if drv.revision_major >= 18:
            if g.get("external_access") != EXTERNAL_ACCESS.get(e["access"], "Unknown"):
                out.append(f"{w}: external_access {g.get('external_access')!r} != {EXTERNAL_ACCESS.get(e['access'])!r}")
        kind, code = e["type"]
        if kind == "a":
            if g.get("tag_type") != "atomic" or g.get("data_type") != ATOM_NAMES.get(code) \
                    or g.get("data_type_name") != ATOM_NAMES.get(code):
                out.append(f"{w}: type {g.get('tag_type')!r} {g.get('data_type')!r} != atomic {ATOM_NAMES.get(code)}")
            if code == 0xC1 and g.get("bit_position") != e["bit_position"]:
                out.append(f"{w}: bit_position {g.get('bit_position')!r} != {e['bit_position']}")
        else:
            if g.get("tag_type") != "struct" or g.get("template_instance_id") != code:
                out.append(f"{w}: type {g.get('tag_type')!r} template {g.get('template_instance_id')!r} != struct {code}")
            if g.get("data_type_name") != type_name(v, e["type"]):
                out.append(f"{w}: data_type_name {g.get('data_type_name')!r} != {type_name(v, e['type'])!r}")
            diff_data_type(v, code, g.get("data_type"), w, out)
    # data_types: every listed definition must be a structure of the view, by name
    by_name = {type_name(v, ("s", tid)): tid for tid in v["types"]}
    for n, dt in drv.data_types.items():
        if n not in by_name:
            out.append(f"data_types[{n!r}]: not a structure reachable from the user tags")
        else:
            diff_data_type(v, by_name[n], dt, f"data_types[{n!r}]", out)
    for n in by_name:
        if n not in drv.data_types:
            out.append(f"data_types: {n!r} missing")
    gp = drv.info.get("programs", {})
    if {k: {"instance_id": p["instance_id"], "routines": p["routines"]} for k, p in v["programs"].items()} != \
            {k: {"instance_id": p.get("instance_id"), "routines": p.get("routines")} for k, p in gp.items()}:
        out.append(f"info['programs'] {gp!r} != {v['programs']!r}")
    if drv.info.get("tasks", {}) != v["tasks"]:
        out.append(f"info['tasks'] {drv.info.get('tasks')!r} != {v['tasks']!r}")
    return out
