"""manifest_data.py — per-property claims. Properties not (yet) claimed are listed in
NOT_APPLICABLE with the reason; the list shrinks as verticals land."""

COMMON_NOTE = ("Trusted: Coq 8.16.1 kernel (vm_compute, no native_compute), the table translator harness/gen_tables.py, "
               "extraction with ExtrOcamlBasic only + ocaml/driver.ml.in, the correspondence harness, the Python "
               "primitive semantics written in coq/Base. Axioms per property as printed by Print Assumptions (in evidence).")

CHECKS = [
    {
        "property_id": "C19",
        "text": ("Theorem C19_holds (coq/Props/C19.v): for every regenerated EnumMap table, every member name in ANY letter case "
                 "(universally quantified over strings with the same ASCII lower-casing) resolves to its value by item access, get and "
                 "membership; every code resolves back to a member name carrying that code; contains/get/getitem agree on every key; "
                 "DataTypes.get_type returns a type with the requested code; every status byte 0..255 has a non-empty text, the fallback "
                 "containing its two-digit hex code. Generic lemmas + finite residue by vm_compute on tables regenerated from /repo; the "
                 "lookup logic of map.py is tied by exhaustive differential correspondence with the extracted model."),
        "note": COMMON_NOTE + " C19: closed under the global context. ASCII case mapping only.",
        "technique": "Coq proof (generic lemmas + vm_compute on regenerated tables) + exhaustive model/implementation correspondence",
        "design_ref": "DESIGN.md section 7, C19",
    },
]

CHECKS.append({
    "property_id": "C12",
    "text": ("Theorem C12_holds (coq/Props/C12.v) over the model of Socket.receive/Socket.send (coq/Model/Sock.v, HEADER_SIZE regenerated "
             "from const.py): for EVERY well-formed frame (any body length the 16-bit length field allows) and EVERY segmentation of it into "
             "non-empty chunks (down to one byte; chunks longer than the 256-byte read are read piecewise) receive returns exactly the frame "
             "(fuel = frame length + 1 is never exhausted: no hang); if the peer closes, times out or errors after ANY strict prefix, however "
             "segmented, receive terminates with CommError (no hang, no partial frame); send hands every byte to the kernel in order for every "
             "pattern of positive partial sends, and under ANY send script it terminates, success implies everything was sent, failure is "
             "CommError with a prefix on the wire. Proved by induction on the chunk list with an accumulated-prefix invariant. The model is tied "
             "to socket_.py by differential correspondence over scripted fake sockets (all compositions of the first bytes, every first-chunk "
             "size, peer stop after every prefix, partial-send patterns)."),
    "note": COMMON_NOTE + " C12: closed under the global context. The kernel socket is an input script (recv returns at most n bytes of what is "
            "available, b'' after close, or raises socket.error); real TCP, timeouts and the OS are not modelled.",
    "technique": "Coq proof (induction over segmentations / send scripts with explicit fuel) + model/implementation correspondence on scripted sockets",
    "design_ref": "DESIGN.md section 7, C12",
})

CHECKS.append({
    "property_id": "C04",
    "text": ("Theorem C04_holds (coq/Props/C04.v) over the planner model coq/Model/LogixPlan.v (MULTISERVICE_READ_OVERHEAD regenerated from "
             "const.py), all sizes symbolic, every request list and every connection size: (1) every multi-service read packet has planner "
             "overhead + estimates <= connection size, and the estimate dominates the bytes really sent and really solicited (request item and "
             "reply item both <= connection size); (2) every multi-service write packet's connected item <= connection size; (3) a single read "
             "that is not fragmented solicits a reply that fits; (4) the packets of a read/write plan contain every valid request exactly once "
             "(permutation) — nothing is dropped or duplicated by grouping, fragmenting or bit-write merging; (5) fragmented writes: for every "
             "value and overhead the fragments are non-empty, fit, concatenate to the value, the k-th offset is the number of bytes before it and "
             "each fragment is the slice of the value at its offset; (6) fragmented reads: against ANY sequence of fragment lengths the offsets "
             "requested are the bytes received so far and the reassembly is the concatenation. Induction over request lists / fragment lists + lia. "
             "Tie: differential correspondence of the real _read_build_requests/_write_build_requests/_send_*_fragmented (socket layer replaced "
             "from outside) with the extracted model, plus the size/tiling oracle evaluated on the frames the real code builds. The Forward Open "
             "size negotiation (4000 -> 500 fallback) is covered under C10; end-to-end sweeps through the reference target are part of C01/C02."),
    "note": COMMON_NOTE + " C04: closed under the global context. Planner inputs (data size, message length) are measured on the real packet "
            "objects; the reply layout (2-byte type, 4 for structures) is the assumption stated in the evidence.",
    "technique": "Coq proof (induction over request/fragment lists, linear arithmetic) + model/implementation correspondence of planners and fragment loops",
    "design_ref": "DESIGN.md section 7, C04",
})

CHECKS.append({
    "property_id": "C17",
    "text": ("coq/Props/C17.v over the counter TRANSLATED from pycomm3.util.cycle on every run (harness/gen_seq.py -> coq/Gen/SeqGen.v, with "
             "the arguments CIPDriver.__init__ passes): C17_iff / C17_iff_by_index: for EVERY history of count allocations of any length (any number "
             "of wrap-arounds), with messages sent in any order relative to the order their counts were drawn, a connected message repeats the count "
             "of the message sent immediately before it IF AND ONLY IF the two counts were drawn a multiple of 65535 draws apart; hence "
             "C17_guarded / C17_small_gaps: freshness holds for every history in which fewer than 65534 counts are drawn between consecutive "
             "sends; C17_range: every count on the wire is in 1..65535; C17_window_distinct: the counts of ANY set of messages whose draw indices lie within one period are pairwise distinct (NoDup), C17_period_exact / C17_first_period: the period is exactly 65535 and the first 65535 counts are 1..65535 in order. The full statement is refuted by a vm_compute witness (C17_full_refuted: "
             "one message, 65534 wasted draws, next message) which is replayed on the real LogixDriver (read of 65534 tags) and listed as a known "
             "finding. Induction over histories + modular arithmetic (lia). Tie: regenerated translation + cross-check against the real generator "
             "over two periods, and draw-index traces of real CIP/Logix/Micro800/SLC driver histories around the wrap-around."),
    "note": COMMON_NOTE + " C17: closed under the global context. Additional trusted translator: harness/gen_seq.py (fail-closed AST "
            "translation of the generator body, cross-checked against the running generator).",
    "technique": "Coq proof over a model regenerated from source by an AST translator (induction, modular arithmetic) + allocation-trace correspondence on real drivers",
    "design_ref": "DESIGN.md section 7, C17",
})

CHECKS.append({
    "property_id": "C09",
    "text": ("Theorem C09_holds (coq/Props/C09.v) over coq/Model/Path.v (LogicalSegment/PortSegment/DataSegment._encode, EPATH.encode, request_path, "
             "tag_request_path, _find_tag_index; logical type/format bits and port names regenerated from /repo) against the independent strict "
             "padded-EPATH parser coq/Spec/EPathParser.v (CIP Vol 1 App. C): every logical value 0..2^32-1 of every logical type is emitted with even "
             "length and parsed back as exactly that type and number (format boundaries are case splits, not samples); every emitted path = word "
             "count (+ pad byte) + even body read back as exactly the intended segments, and emission fails only with DataError beyond 255 words; "
             "class/instance/attribute paths always emitted; for EVERY tag AST (program scope, any nesting, any number of indices < 2^32, symbol-"
             "instance addressing) tag_request_path(render p) reads back as the AST's names and numbers (induction on the member list with "
             "split/find/int() lemmas); routes over named ports or any port 1..65535 (extended port identifier), slot and IPv4 links. Tie: "
             "correspondence of the extracted model with the real encoders on grammar-generated and malformed inputs, and the parser applied to "
             "the bytes the real code emits (incl. driver-level Forward Open / generic_message / get_module_info paths)."),
    "note": COMMON_NOTE + " C09: closed under the global context. IPv6 link text, non-ASCII digits and attribute=0 are outside the model (stated in the evidence assumptions).",
    "technique": "Coq proof (parser-of-encoder = identity, induction on paths; arithmetic on format boundaries) + model/implementation correspondence",
    "design_ref": "DESIGN.md section 7, C09",
})
CHECKS.append({
    "property_id": "C15",
    "text": ("Theorem C15_holds (coq/Props/C15.v) over coq/Model/ConnPath.v (parse_connection_path, parse_cip_route, slot shortcuts, driver flags; "
             "port-name table regenerated) against the independent grammar/reference reader coq/Spec/ConnPathGrammar.v: parse_sound (every "
             "spelling — separators / \\ , per position, port aliases or numbers, slot or dotted-quad links, optional :port — of every well-formed "
             "route yields the stated host, TCP port and reference route bytes, all CIP ports 1..65535), spellings_agree (identical bytes), "
             "rejection theorems each universally quantified over its class (odd number of segments, unknown port name, link out of range, "
             "malformed link, bad slot shortcut, TCP port non-numeric / negative / outside 1..65534, several colons), never_bytes_on_error, "
             "accepted_is_reference (anything accepted has the reference host/port/bytes wherever the reference defines them); the strict "
             "converse is proved outside six documented silent zones (accepts_in_grammar_strict_partial; witness h:+80 inside). String lemmas by "
             "induction. Tie: model/implementation correspondence on grammar strings, rejection-class members, all single-character edits."),
    "note": COMMON_NOTE + " C15: closed under the global context. ipaddress is modelled as a strict dotted-quad recogniser; host names are opaque; the 4300-digit int() limit is modelled.",
    "technique": "Coq proof (render/parse soundness and rejection classes by induction on strings) + model/implementation correspondence",
    "design_ref": "DESIGN.md section 7, C15 and section 10",
})
CHECKS.append({
    "property_id": "C16",
    "text": ("Theorem C16_holds (coq/Props/C16.v) over coq/Model/Identity.v against the independent field-by-field identity encoder "
             "coq/Spec/IdentitySpec.v: for EVERY identity with fields in range (vendor/product-type ids known or unknown -> 'UNKNOWN', every "
             "product name of length 0..255 over Latin-1 as a universally quantified list, every serial < 2^32 as exactly 8 lower-case hex digits "
             "by arithmetic, revision, status bytes, state, IPv4) list_identity / ListIdentityResponsePacket / get_module_info / get_plc_info / the "
             "discover response loop (induction on the datagram list) return exactly the device's values; identity encode-decode is the identity "
             "on the documented domain. Vendor (1463 rows), product-type and keyswitch tables and the declared struct member lists are regenerated "
             "from /repo; finite side conditions (unique ids) by vm_compute. Tie: correspondence on ~23k identities/replies per quick run incl. "
             "truncated and corrupted ones, pure decoders and the real drivers over a canned device."),
    "note": COMMON_NOTE + " C16: closed under the global context (coqchk passes in the thorough tier). Slice offsets 26/40/42/44 are hand-modelled and tied by correspondence.",
    "technique": "Coq proof (decode of spec-encode = view, induction on names/datagram lists, arithmetic for hex) + model/implementation correspondence",
    "design_ref": "DESIGN.md section 7, C16",
})

CHECKS.append({
    "property_id": "C11",
    "text": ("Theorem C11_holds (coq/Props/C11.v) over coq/Model/Encap.v (header and common-packet-format layouts, item types, commands and send() "
             "keyword sources regenerated from /repo by harness/gen_encap.py as layout descriptors the model interprets) against the independent "
             "strict parser coq/Spec/EncapParser.v: frame_ok — for every request class, EVERY payload (any list of byte strings; only the 16-bit "
             "length fields bound it, as hypotheses), every session < 2^32, 8-byte context and 4-byte connection id, build_request returns one "
             "frame that the strict parser reads as exactly the demanded command / session / zero status and options / two-item common packet "
             "whose lengths equal their contents; connected_starts_with_seq; history_ok — for ALL operation lists over open (any register reply), "
             "unconnected and connected requests (any Forward Open replies) and close, every emitted frame is accepted, has its operation's "
             "command, carries the last granted session handle (0 only before registration / after close) and every 0x70 frame the connection id "
             "of the last accepted Forward Open (invariant by induction); build_message_once for every class that sets the flag (refuted, with the "
             "class as exact guard, for RegisterSession whose frames are never rebuilt by the driver). Tie: correspondence of the real packet "
             "classes and CIPDriver histories with the extracted model, and the strict parser applied to every frame the real drivers write "
             "against the live reference target (random handles and connection ids)."),
    "note": COMMON_NOTE + " C11: closed under the global context; imports T1's parse_mk_frame (Proofs/TargetCoreP.v). Socket-fault histories are C10's; discover() over UDP is out of scope.",
    "technique": "Coq proof (strict parser of builder = identity for all payloads; history invariant by induction) + correspondence and strict parsing of real driver frames",
    "design_ref": "DESIGN.md section 7, C11",
})

CHECKS.append({
    "property_id": "C13",
    "text": ("Theorem C13_holds (coq/Props/C13.v) over coq/Model/Reply.v (what pycomm3 computes from raw reply bytes: base/SendUnitData/SendRRData/"
             "register/generic/read/fragmented/write/multi-service response parsing, get_service_status/get_extended_status, how read/write/"
             "generic_message/open turn responses into Tags) against the independent status-word reader coq/Spec/ReplyReader.v; status tables, "
             "Services and MULTI_PACKET_SERVICES regenerated: (1) for ALL byte strings a connected reply is valid exactly when encapsulation "
             "status 0, reply bit set and general status 0 (or 6 for the partial-transfer services), unconnected replies accept 0 only — so a "
             "reply too short to hold its status words is never success; (2) every well-formed non-success reply (header-only encapsulation "
             "errors included) has a non-empty error text naming the general status (table text or two-digit hex) and the extended status it "
             "carries (structural lemmas + a 256-value sweep lifted over arbitrary remaining bytes); (3) multi-service demultiplexing returns "
             "the per-service replies and classifies each by its own words; (4) for arbitrary reply bytes no public call raises anything but a "
             "library exception, a truthy result is backed by status words that say success, well-formed error replies give falsy Tags with "
             "text. Tie: correspondence on ~20k raw replies per quick run (all statuses x extended sizes x services x request kinds, every "
             "truncation, corruptions) through the real response classes and the public calls over a canned-reply socket."),
    "note": COMMON_NOTE + " C13: closed under the global context. Typed values cover atomic integer tags (scalars, 1-dim arrays); a fragmented write of zero segments is outside the input space (fixed by the request, not by a reply).",
    "technique": "Coq proof (case analysis on reply bytes, finite sweeps lifted by structural lemmas, induction on reply lists) + model/implementation correspondence on raw replies",
    "design_ref": "DESIGN.md section 7, C13",
})

CHECKS.append({
    "property_id": "C02",
    "text": ("coq/Props/C02.v over coq/Model/LogixWrite.v (encode_value, write / fragmented / read-modify-write packets with set_bit and masks, "
             "MultiServiceRequestPacket.build_message, _send_write_fragmented, packets materialised from the planner model) composed with the "
             "reference target's own handlers (Spec/TargetLogix.v, Spec/TargetCore.v dispatch) and the reference interpretation Spec/Expect.v. "
             "Proved (C02_partial + separate theorems, all universally quantified): rmw_effect — for ALL old values and ALL bit lists merged per "
             "tag, (old lor OR) land AND changes exactly the named bits, last write wins, masks at the tag's width (Z.testbit reasoning); "
             "encode_value_sound (BOOL-array alignment rule, ceil(n/32), truncation, too-short list, scalar -> [scalar]); build_message_once; "
             "write/fragment/RMW message layouts read back by the spec parser and accepted by the target's services; applied_once (each valid "
             "request executes exactly one write service, merged bit writes once per group, failed ones never); write_correct_{value, array, "
             "string (LEN + truncation to capacity), bool, bits, bools (whole DWORDs), bool_element, bool_slice1, struct (dict input, by induction "
             "over template nesting under a computable layout guard)}: target memory after the model's request = ref_write, one executed-write "
             "event, success reply; multi_packet_executes (a Multiple Service Packet executes its embedded requests in order); "
             "frag_transfer_correct (every fragment accepted, final memory = one store of the whole value); read-after-write for atoms; structures with BOOL members overlaying a visible host (bits win, "
             "as in the code and the reference), DWORD members, top-level slices of arrays of structures/strings, structures given as bytes. NOT "
             "proved (stated in Props/C02.v as what C02_full still lacks): a BOOL member listed before a visible member covering its byte, hidden "
             "BOOL members, BYTE/WORD/LWORD members, strings whose LEN/DATA are not at offsets 0/4; path resolution and request parsing enter as hypotheses (C09/C03). Those "
             "are exercised on the implementation by the oracle on every run: real LogixDriver.write against the live target, memory compared "
             "byte for byte with ref_write, every other tag unchanged, one executed write per request, read-back. Extension: C02_write_correct_element / C02_write_correct_slice1 (+ four instances with the concrete type field): one element "
             "addressed through an ARRAY class (arr[i], udts[i] := dict, strs[i], udt.arr[j], udts[i].inner[k]) and the n = 1 boundary ...{1} with a list "
             "of any length >= 1 - encode_value = Ok(d,1), the strict write service accepts, the memory left IS the reference memory, exactly one "
             "executed write. C02_full_refuted + C02_guard + C02_guarded: the full statement fails only by convention on a self-contradictory dict "
             "(a BOOL listed before the visible host it overlays, given a bit that contradicts the host value: model and real driver store members then "
             "bits, the reference stores in template order; no memory could satisfy both, the real driver's frames equal the model's, not a finding). "
             "Histories now include two controllers in one process holding the same project under permuted symbol instance ids."),
    "note": COMMON_NOTE + " C02: closed under the global context (coqchk: no axioms). REAL rounding enters as a hypothesis.",
    "technique": "Coq proof (bitwise reasoning, induction over templates/fragments; client model composed with the reference target) + correspondence of frames and results + byte-for-byte memory oracle through the live target",
    "design_ref": "DESIGN.md section 7, C02",
})
CHECKS.append({
    "property_id": "C03",
    "text": ("Theorem C03_holds (coq/Props/C03.v) over coq/Model/LogixParse.v (_parse_tag_request / _get_tag_info / _parse_requested_tags), "
             "coq/Model/LogixResults.v (result assembly of read/write, _send_requests keyed by request id, RMW fan-out) and the planner model, for "
             "EVERY request list (any n incl. 0 and duplicates, non-string request objects) and every peer: tag_truthy_iff; no exception escapes "
             "read()/write(); result_shape (n = 1 -> a Tag, otherwise a list of exactly n); result_names (i-th result answers the i-th request "
             "and carries its name, without {n} on success); invalid_falsy (unknown tag/member, parse failure, request that cannot be built, "
             "controller error status, unencodable / too-short value, misaligned BOOL-array write -> falsy Tag with non-empty error); isolation "
             "(the result list is a map over the requests of a function of the single request, against peers that answer each service "
             "independently) — resting on read_plan_partition / write_multi_partition. Induction over request lists. Tie: correspondence of the "
             "model parser with the real _parse_tag_request on grammar strings + single/double edits, of result assembly on recorded replies, and "
             "the oracle through real read/write against the live target (shape, names, falsy+error per invalidity class decided by the "
             "reference interpretation, isolation against each request issued alone on restored memory)."),
    "note": COMMON_NOTE + " C03: closed under the global context. encode_value's type-directed part is an abstract parameter fed from the real encode_value by the harness; replies are taken as parsed (C13's model).",
    "technique": "Coq proof (induction over request lists on top of the planner partition theorems) + model/implementation correspondence + isolation oracle through the live target",
    "design_ref": "DESIGN.md section 7, C03",
})
CHECKS.append({
    "property_id": "C10",
    "text": ("Theorem C10_holds (coq/Props/C10.v) over coq/Model/Lifecycle.v (driver state and dstep mirroring open, _register_session, "
             "with_forward_open, _forward_open, generic_message, send/_send/_receive with _abandon_transport, close, _forward_close, "
             "_un_register_session, __enter__/__exit__, LogixDriver.open's initialisation; constants and message field lists regenerated) "
             "composed with the reference target's tstep/tclosed (Spec/TargetCore.v, any handler), universally over handler, target configuration "
             "and policy, injections, driver kind, route, EVERY fault schedule (k-th connect/send/send_after/recv/close raises, reply dropped, peer "
             "vanishes) and EVERY history of Open | Close | GenericConnected | GenericUnconnected | ConnectedCall | WithBlock, by induction over "
             "the operation list with an invariant relating driver and target state: no_connected_before_fo (every delivered SendUnitData frame "
             "finds its session and the connection id it carries in the target's tables, preceded without TCP reset by a granted RegisterSession "
             "and Forward Open), fo_order (standard Forward Open only after a refused Large one; sizes 4000 / 500 as read by the target's "
             "parser), library_exceptions_only, close_resets (driver reset, target holds no session or connection), reopen_works; "
             "C10_reply_classification (the model's reply-validity predicates equal C13's Model/Reply.v on every byte string) and "
             "C10_upload_abstraction (any number of connected calls preserves the invariants, so open() with the tag upload is covered). Tie: "
             "correspondence of outcome, driver state, target tables and every socket event between model and real CIPDriver/LogixDriver on "
             "exhaustive short histories x policies x sampled faults against the live target; oracle from the target's tables and log only."),
    "note": COMMON_NOTE + " C10: closed under the global context. Reply validity rules are re-modelled here (no bridging lemma to C13's model); the init_tags=True upload is abstracted to a connected call in the theorems and runs in an oracle-only stage.",
    "technique": "Coq proof (state-machine invariant by induction over histories and fault schedules, client model composed with the reference target) + history correspondence with fault injection",
    "design_ref": "DESIGN.md section 7, C10",
})
CHECKS.append({
    "property_id": "C14",
    "text": ("Theorems C14_holds / C14_time_holds (coq/Props/C14.v) over coq/Model/Generic.v (generic_message argument normalisation and route "
             "resolution, connected / UCMM / Unconnected Send packet layouts, wrap_unconnected_send, response value raw or decoded, helpers; "
             "keyword arguments and part orders regenerated) against the spec-side composition of the target's parsers coq/Spec/GenericSpec.v "
             "(frame, message router, Unconnected Send, path): delivered_verbatim — for every in-domain call in all three modes with data of ANY "
             "length up to 60000 (pad byte by parity case analysis), the emitted frame parses and the spec extracts exactly the transport, "
             "session, service, class/instance/attribute, data and, for an Unconnected Send, priority, ticks and route that were asked (incl. "
             "the default route and the no-route case); reply_returned (value = reply data unchanged, or its decoding); reply_refused (status "
             "1..255 -> falsy Tag whose text starts with the status text); time_roundtrip for every us < 2^64 against the target's clock "
             "object. Tie: byte-for-byte frame correspondence and Tag comparison on ~4k calls per quick run through the real drivers against the "
             "live target; oracle = the target's logged request tuple and reply."),
    "note": COMMON_NOTE + " C14: closed under the global context. An explicitly given route on direct UCMM is appended by design (Forward Open relies on it) and is outside the judged domain; class/attribute ids >= 2^16, service codes >= 128 and status 6 over a connection are not judged; routes use ports 1..14.",
    "technique": "Coq proof (spec parser of emitted frames = requested tuple, for all payload lengths) + frame/Tag correspondence through the live reference target",
    "design_ref": "DESIGN.md section 7, C14",
})
CHECKS.append({
    "property_id": "C07",
    "text": ("coq/Props/C07.v over the shared codec model against the independent arithmetic reference codec coq/Spec/Wire.v (div/mod layout, "
             "utf-16-le / utf-32 code units, Flocq for REAL/LREAL, hand-written table of documented CIP type codes): decode_is_spec — for every "
             "type in the reference's scope and EVERY byte pattern (stream semantics, fuel; non-canonical BOOL bytes, NaN payloads, truncated "
             "buffers) the model's outcome is the reference's, with no type-level exclusion; encode_is_spec for every value outside one class; "
             "structtag_layout pointwise (members at offsets in any order, BOOL members in host bits, zero padding); type_codes for every row "
             "(closed under the global context); round32/widen32 = Flocq's binary_round on every bit pattern. C07_full remains refuted only by "
             "the two classes /repo still has (over-long bit-string arrays not truncated; a buffer ending inside an element of an unbounded "
             "array of composite elements), each a vm_compute witness replayed on the real code and a known finding; C07_guarded is proved "
             "under exactly those guards. Eleven earlier deviation classes were repaired in /repo (fixed: lines). Tie: the extracted reference "
             "vs the real T.encode/T.decode (1-byte types exhaustive, floats vs Flocq, prefix limits, random templates, truncations) plus "
             "model/implementation correspondence."),
    "note": COMMON_NOTE + " C07: Print Assumptions lists only the stdlib real-number/classical axioms Flocq brings (ClassicalDedekindReals.sig_not_dec, sig_forall_dec, functional_extensionality_dep, Classical_Prop.classic); type_codes is closed. STRINGI, IPAddress, PCCC types, identity structs and Array(L, T) have no reference (model correspondence only).",
    "technique": "Coq proof (model = independent arithmetic reference codec, induction on type terms; Flocq) + reference-vs-implementation differential oracle",
    "design_ref": "DESIGN.md section 7, C07",
})
CHECKS.append({
    "property_id": "C08",
    "text": ("coq/Props/C08.v over the shared codec model (whose primitives raise foreign exceptions exactly where Python's do and whose public "
             "wrappers sit where the code's do). Held at full strength for every type and input: C08_encode_total_holds (no exception but "
             "DataError escapes any encode), C08_buffer_empty_holds and C08_no_short_read_holds (strings, n_bytes, FixedSizeString, PCCC_ASCII, "
             "padded StructTags: no value from fewer bytes than announced, BufferEmpty only at the end of the buffer), "
             "C08_decode_all_exact_holds (an unbounded array over a whole number of elements decodes exactly those); decode_terminates for "
             "every type without a length-prefixed array, unconditionally (nested induction on type terms with explicit fuel). Still refuted, "
             "each by a vm_compute witness replayed on the real code and listed as a known finding: encode_rejects for bit-string arrays "
             "(length ignored) and termination / error class for Array(<length type>, T) over an element type of no size with a huge count; "
             "C08_guarded proves all seven clauses under exactly those two guards. Fourteen earlier deviation classes were repaired in /repo "
             "(C08_repaired, fixed: lines). Tie: shared model/implementation correspondence (malformed stream: every truncation point, junk, "
             "out-of-domain values) with the implementation run in a forked child under an alarm (HANG is an observation)."),
    "note": COMMON_NOTE + " C08: closed under the global context (coqchk -o: no axioms). 'BufferEmptyError where a value should start' is read as 'at the end of the buffer' (stated in the evidence assumptions).",
    "technique": "Coq proof (exception algebra and termination by nested induction on type terms with explicit fuel) + malformed-input correspondence with hang detection",
    "design_ref": "DESIGN.md section 7, C08",
})

CHECKS.append({
    "property_id": "C01",
    "text": ("coq/Props/C01.v over coq/Model/LogixRead.v (request parsing, read / fragmented / multi-service messages, multi-service demux with "
             "the 46-byte padding, reply parse and decode by uploaded type, fragment loop, read()'s bit / BOOL-range extraction and type strings) "
             "composed with the reference target's handler and compared with the reference interpretation Spec/Expect.v ref_read. Proved "
             "(universally quantified, induction): bit_extract; dword_cover / bool_range (the idx -> [0], total = bit + n, ceil(total/32) "
             "arithmetic covers exactly the addressed BOOLs for all idx, n); decode_elem_spec (reply decode of target encode = reference value, by "
             "induction on template nesting: atomics, arrays, structs with hidden hosts and bit members, strings, BOOL arrays); frag_read_ok "
             "(reassembly for ANY fragment policy); multi_read_ok; read_transport (any number of requests under any plan); read_correct_partial "
             "= the full C01 conclusion (truthy Tag, value = ref_read, documented type string) for every request satisfying request_ok, over all "
             "projects with a sound layout, all memory images, fragment policies, connection sizes, single / multi / fragmented plans; the string "
             "layer request_ok is PROVED end to end for whole tags of any type, name[i,j,k].b{n} on atomic / array / struct / string tags and all "
             "BOOL-array forms (C01_tags_hold, C01_single_segment_holds), by symbolic or instance addressing. C01_paths_hold: the same conclusion for structured requests [Program:P.]tag[i..].m[j..]...[.bit][{n}] of any tag "
             "type and scope (three-way walk reference / target / client); C01_strings_hold: the conclusion for every list of request STRINGS "
             "passing the computable predicate plain_request (no resolution hypothesis left); the strings outside it are listed with a "
             "vm_compute Example each (other letter case, > 4300-digit index, 256-char symbolic name, x[i] on a scalar DWORD). "
             "C01_resolution_grammar_holds: Expect.parse_request is INVERTED on every string (ref_core keeps the digit texts; parse = Some r implies the "
             "rendered core is the string, leading zeros included); C01_resolution_sem_holds / C01_resolution_strings_hold: resolution soundness and the "
             "guarded statement for every request string inside the project-side predicate sem_ok (nothing about how the string is spelled); "
             "C01_instance_paths_hold: in the target the class-0x6B/instance pair denotes the tag whatever member / index segments follow, the byte-level "
             "instance path and symbolic path resolve alike, and the driver emits the instance form exactly when by_instance holds (member and Program: "
             "requests are always symbolic). C01_full is refuted by one witness replayed on the real driver (element count >= 65536 does not fit the UINT "
             "field; known finding) and proved under that guard given resolution soundness. Tie: byte-for-byte request frames and Tags, model vs "
             "real LogixDriver.read against the live target; oracle: every returned Tag vs ref_read on random projects, both connection sizes, "
             "fragment policies, size sweeps around the connection size, Micro800."),
    "note": COMMON_NOTE + " C01: closed under the global context. Hypotheses that remain: layout_ok, upload_ok (client tags match the project), plain ASCII names; encapsulation headers and the sequence count are not modelled here (C11/C17).",
    "technique": "Coq proof (client model composed with the reference target = reference interpretation; induction on templates, fragments, request lists) + frame/Tag correspondence and value oracle through the live target",
    "design_ref": "DESIGN.md section 7, C01",
})
CHECKS.append({
    "property_id": "C05",
    "text": ("Theorem C05_holds (coq/Props/C05.v) over coq/Model/LogixUpload.v (paged symbol upload, _parse_instance_attribute_list, "
             "_isolate_user_tags, _create_tag, template attributes, fragmented template read, _parse_template_data(_member_info), string "
             "detection, data-type cache, tags_json) composed with the reference target's symbol and template objects, against Spec/Expect.v "
             "abstract_view rendered by Spec/UploadObs.v: upload_mirrors — for every well-formed project in the stated domain, EVERY page policy, "
             "EVERY template-fragment policy, every reply capacity 34..65535, every firmware revision and every fuel above a stated bound, the "
             "client returns exactly the user-visible tags (data type, dimensions, access, alias flag, instance id) and type definitions "
             "(visible members with offsets, bit positions, array lengths, nested definitions, hidden hosts removed, LEN/DATA structures as "
             "strings of the DATA capacity), programs, routines and tasks — none missing, duplicated or invented (NoDup + Permutation), with "
             "pagination_independent and template_fragment_independent as lemmas over ANY split, isolate_filter_exact, create_tag_fields, "
             "member_info_decode, get_data_type_mirrors by strong induction on template nesting, tags_json_serialisable; C05_history / C05_reupload (a call from ANY "
             "earlier driver state equals the upload of a fresh driver: what was uploaded before does not matter). Tie: the model is fed "
             "the exact reply frames the real driver received and must emit the same requests and trees; oracle: real open()/get_tag_list "
             "against the live target vs the abstract view, identical across policies, json.dumps succeeds; calibration against the two "
             "real-controller fixtures in the thorough tier."),
    "note": COMMON_NOTE + " C05: closed under the global context. Composition is at the message-router seam (encapsulation/sequencing: C10/C11/C17). The domain upload_dom (ascending instances, Logix naming rules for ':' and ';', size bounds) is spelled out in Props/C05.v; info['modules'] and non-ASCII names are not modelled.",
    "technique": "Coq proof (client upload model composed with the reference target = abstract view, for all page/fragment policies; induction on pages, fragments and template nesting) + reply-level correspondence and view oracle through the live target",
    "design_ref": "DESIGN.md section 7, C05",
})
CHECKS.append({
    "property_id": "C18",
    "text": ("Theorem C18_holds (coq/Props/C18.v) over coq/Model/Slc.v (parse_tag cascade on the seven address patterns — regenerated from "
             "slc_driver.py into the AST of the backtracking matcher coq/Model/Regex.v, with the match method read from the source — request "
             "fields with the FF-escape address form, writeable_value masks, _parse_read_reply, request_status; PCCC tables regenerated) against "
             "the independent address ADT + PCCC data-table target coq/Spec/SlcTarget.v: parse_addr / parse_raw (every well-formed address in "
             "every spelling — case, leading zeros, /b, Bf/n, {count}, optional I/O file and word, T/C mnemonics — parses to exactly its fields; "
             "regex steps by matcher lemmas about greedy digit runs, not enumeration), request_names_read/write (the target's own parser reads "
             "file, type, element, sub-element and size = element size x count; masks 2^bit or 0xFFFF), read_correct, write_then_read with "
             "ref_write_frame (other files untouched, exactly count elements, a bit write changes one bit), rejection of unsupported letters and "
             "out-of-range or over-long file / element / bit numbers. Tie: correspondence on ~34k parse strings / requests / scripted replies "
             "(grammar + single-character edits + affixes); oracle: real SLCDriver.read/write against the extracted target. "
             "Extension (beyond the property text, model coverage): C18_dir_roundtrip / C18_dir_reads_tile over coq/Model/SlcDir.v "
             "(_get_sys0_info, _parse_file0, _read_whole_file_directory, directory-size and processor-type requests) against the independent "
             "directory-image encoder coq/Spec/SlcDirSpec.v: parse_file0 (encode_dir fs) = dir_view fs for every well-formed directory of every "
             "processor family, and the directory reads tile the image for every size and even chunk (induction); tied by ~4400 correspondence cases "
             "on the real SLCDriver methods, recorded as histograms/notes only (CoverageOnly): the directory is outside the C18 text and no C18 verdict depends on it."),
    "note": COMMON_NOTE + " C18: closed under the global context. bytes values and the ST/A string codecs are not modelled; F values are binary32 bit patterns (NaN excluded); wrong-but-in-range I/O file numbers and affix rejection are checked by Example + correspondence, not by a general theorem.",
    "technique": "Coq proof (regex-matcher lemmas, parser soundness over all spellings, refinement to a data-table model) + model/implementation correspondence and SLC target oracle",
    "design_ref": "DESIGN.md section 7, C18",
})

CHECKS.append({
    "property_id": "C06",
    "text": ("coq/Props/C06.v over the shared codec model coq/Model/Codec.v (deep embedding of every exported / constructed type: elementary, "
             "strings incl. 2-byte and n-byte characters, bit strings, fixed / length-prefixed / unbounded arrays, structs from dict or sequence, "
             "StructTag with offsets in any order, bit members and hidden hosts, FixedSizeString, DATE_AND_TIME, identity / revision / IP objects, "
             "PCCC strings; elementary rows and character sizes regenerated from /repo): roundtrip — for every type term t, value v and trailing "
             "bytes rest with wf_ty t and in_dom t v (rest = [] for greedy types), encode succeeds and decode (encoding ++ rest) = (norm t v, "
             "rest): the value comes back (REAL rounded to binary32 exactly as Flocq's binary_normalize, over-long inputs to fixed arrays "
             "truncated), exactly the encoded bytes are consumed, following data is untouched — by nested induction on type terms; "
             "struct_dict_positional for EVERY value; C06_string2_domain (every string of Unicode scalar values whose UTF-16 length fits the "
             "prefix is in the domain; utf16_inverts by induction); C06_length_prefixed (count ++ elements decodes back). After the repairs in "
             "/repo the guard excludes only: Array(<length type>).encode writing no prefix (documented; the refutation witness), over-long "
             "bit-string arrays, PCCC_STRING, ListIdentityObject without encoder (5 known-finding classes, each a vm_compute witness replayed on "
             "the real code); C06_guarded is proved under that exact computable guard. Tie: ~44k compared cases per quick run (encode, decode "
             "with trailing data, every truncation, junk) through the extracted model and the real classes in a forked child; oracle = the law "
             "itself on the implementation incl. stream.tell()."),
    "note": COMMON_NOTE + " C06: roundtrip and C06_guarded are closed under the global context; C06_real_precision uses the four stdlib real-number/classical axioms Flocq brings. StructTag layouts with bit members overlaying a visible host are outside wf_ty (checked on the implementation only).",
    "technique": "Coq proof (round-trip law by nested induction on a deep embedding of types; Flocq for REAL) + model/implementation correspondence and round-trip oracle",
    "design_ref": "DESIGN.md section 7, C06",
})

_PENDING = "vertical still being completed (codec round-trip proofs in progress; model and correspondence exist: coq/Model/Codec.v, harness/codec_common.py); decided by Coq proof + correspondence when it lands"
_CLAIMED = {c["property_id"] for c in CHECKS}
NOT_APPLICABLE = [{"property_id": f"C{i:02d}", "reason": _PENDING} for i in range(1, 20) if f"C{i:02d}" not in _CLAIMED]

NOTES = ("Every check: regenerate coq/Gen from /repo, full .vo rebuild of the property's proof cone, Print Assumptions audit, "
         "rebuild of the extracted model, correspondence + property oracle on the implementation, verdict per DESIGN.md section 5.")
