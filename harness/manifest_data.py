"""manifest_data.py — per-property claims. Properties not (yet) claimed are listed in
NOT_APPLICABLE with the reason; the list shrinks as verticals land."""

COMMON_NOTE = ("Trusted: Coq 8.16.1 kernel (vm_compute, no native_compute), the table translator harness/gen_tables.py, "
               "extraction with ExtrOcamlBasic only + ocaml/driver.ml.in, the correspondence harness, the Python "
               "primitive semantics written in coq/Base. Axioms per property as printed by Print Assumptions (in evidence).")

CHECKS = [
    {
        "property_id": "C19",
        "text": ("Theorem C19_holds (coq/Props/C19.v): for every regenerated EnumMap table, every member name in ANY letter case "
                 "(universally quantified over strings with the same ASCII lower-casing) resolves to its value by item access, get and "
                 "membership; every code resolves back to a member name carrying that code; contains/get/getitem agree on every key; "
                 "DataTypes.get_type returns a type with the requested code; every status byte 0..255 has a non-empty text, the fallback "
                 "containing its two-digit hex code. Generic lemmas + finite residue by vm_compute on tables regenerated from /repo; the "
                 "lookup logic of map.py is tied by exhaustive differential correspondence with the extracted model."),
        "note": COMMON_NOTE + " C19: closed under the global context. ASCII case mapping only.",
        "technique": "Coq proof (generic lemmas + vm_compute on regenerated tables) + exhaustive model/implementation correspondence",
        "design_ref": "DESIGN.md section 7, C19",
    },
]

CHECKS.append({
    "property_id": "C12",
    "text": ("Theorem C12_holds (coq/Props/C12.v) over the model of Socket.receive/Socket.send (coq/Model/Sock.v, HEADER_SIZE regenerated "
             "from const.py): for EVERY well-formed frame (any body length the 16-bit length field allows) and EVERY segmentation of it into "
             "non-empty chunks (down to one byte; chunks longer than the 256-byte read are read piecewise) receive returns exactly the frame "
             "(fuel = frame length + 1 is never exhausted: no hang); if the peer closes, times out or errors after ANY strict prefix, however "
             "segmented, receive terminates with CommError (no hang, no partial frame); send hands every byte to the kernel in order for every "
             "pattern of positive partial sends, and under ANY send script it terminates, success implies everything was sent, failure is "
             "CommError with a prefix on the wire. Proved by induction on the chunk list with an accumulated-prefix invariant. The model is tied "
             "to socket_.py by differential correspondence over scripted fake sockets (all compositions of the first bytes, every first-chunk "
             "size, peer stop after every prefix, partial-send patterns)."),
    "note": COMMON_NOTE + " C12: closed under the global context. The kernel socket is an input script (recv returns at most n bytes of what is "
            "available, b'' after close, or raises socket.error); real TCP, timeouts and the OS are not modelled.",
    "technique": "Coq proof (induction over segmentations / send scripts with explicit fuel) + model/implementation correspondence on scripted sockets",
    "design_ref": "DESIGN.md section 7, C12",
})

CHECKS.append({
    "property_id": "C04",
    "text": ("Theorem C04_holds (coq/Props/C04.v) over the planner model coq/Model/LogixPlan.v (MULTISERVICE_READ_OVERHEAD regenerated from "
             "const.py), all sizes symbolic, every request list and every connection size: (1) every multi-service read packet has planner "
             "overhead + estimates <= connection size, and the estimate dominates the bytes really sent and really solicited (request item and "
             "reply item both <= connection size); (2) every multi-service write packet's connected item <= connection size; (3) a single read "
             "that is not fragmented solicits a reply that fits; (4) the packets of a read/write plan contain every valid request exactly once "
             "(permutation) — nothing is dropped or duplicated by grouping, fragmenting or bit-write merging; (5) fragmented writes: for every "
             "value and overhead the fragments are non-empty, fit, concatenate to the value, the k-th offset is the number of bytes before it and "
             "each fragment is the slice of the value at its offset; (6) fragmented reads: against ANY sequence of fragment lengths the offsets "
             "requested are the bytes received so far and the reassembly is the concatenation. Induction over request lists / fragment lists + lia. "
             "Tie: differential correspondence of the real _read_build_requests/_write_build_requests/_send_*_fragmented (socket layer replaced "
             "from outside) with the extracted model, plus the size/tiling oracle evaluated on the frames the real code builds. The Forward Open "
             "size negotiation (4000 -> 500 fallback) is covered under C10; end-to-end sweeps through the reference target are part of C01/C02."),
    "note": COMMON_NOTE + " C04: closed under the global context. Planner inputs (data size, message length) are measured on the real packet "
            "objects; the reply layout (2-byte type, 4 for structures) is the assumption stated in the evidence.",
    "technique": "Coq proof (induction over request/fragment lists, linear arithmetic) + model/implementation correspondence of planners and fragment loops",
    "design_ref": "DESIGN.md section 7, C04",
})

CHECKS.append({
    "property_id": "C17",
    "text": ("coq/Props/C17.v over the counter TRANSLATED from pycomm3.util.cycle on every run (harness/gen_seq.py -> coq/Gen/SeqGen.v, with "
             "the arguments CIPDriver.__init__ passes): C17_iff / C17_iff_by_index: for EVERY history of count allocations of any length (any number "
             "of wrap-arounds), with messages sent in any order relative to the order their counts were drawn, a connected message repeats the count "
             "of the message sent immediately before it IF AND ONLY IF the two counts were drawn a multiple of 65535 draws apart; hence "
             "C17_guarded / C17_small_gaps: freshness holds for every history in which fewer than 65534 counts are drawn between consecutive "
             "sends; C17_range: every count on the wire is in 1..65535. The full statement is refuted by a vm_compute witness (C17_full_refuted: "
             "one message, 65534 wasted draws, next message) which is replayed on the real LogixDriver (read of 65534 tags) and listed as a known "
             "finding. Induction over histories + modular arithmetic (lia). Tie: regenerated translation + cross-check against the real generator "
             "over two periods, and draw-index traces of real CIP/Logix/Micro800/SLC driver histories around the wrap-around."),
    "note": COMMON_NOTE + " C17: closed under the global context. Additional trusted translator: harness/gen_seq.py (fail-closed AST "
            "translation of the generator body, cross-checked against the running generator).",
    "technique": "Coq proof over a model regenerated from source by an AST translator (induction, modular arithmetic) + allocation-trace correspondence on real drivers",
    "design_ref": "DESIGN.md section 7, C17",
})

CHECKS.append({
    "property_id": "C09",
    "text": ("Theorem C09_holds (coq/Props/C09.v) over coq/Model/Path.v (LogicalSegment/PortSegment/DataSegment._encode, EPATH.encode, request_path, "
             "tag_request_path, _find_tag_index; logical type/format bits and port names regenerated from /repo) against the independent strict "
             "padded-EPATH parser coq/Spec/EPathParser.v (CIP Vol 1 App. C): every logical value 0..2^32-1 of every logical type is emitted with even "
             "length and parsed back as exactly that type and number (format boundaries are case splits, not samples); every emitted path = word "
             "count (+ pad byte) + even body read back as exactly the intended segments, and emission fails only with DataError beyond 255 words; "
             "class/instance/attribute paths always emitted; for EVERY tag AST (program scope, any nesting, any number of indices < 2^32, symbol-"
             "instance addressing) tag_request_path(render p) reads back as the AST's names and numbers (induction on the member list with "
             "split/find/int() lemmas); routes over named ports or any port 1..65535 (extended port identifier), slot and IPv4 links. Tie: "
             "correspondence of the extracted model with the real encoders on grammar-generated and malformed inputs, and the parser applied to "
             "the bytes the real code emits (incl. driver-level Forward Open / generic_message / get_module_info paths)."),
    "note": COMMON_NOTE + " C09: closed under the global context. IPv6 link text, non-ASCII digits and attribute=0 are outside the model (stated in the evidence assumptions).",
    "technique": "Coq proof (parser-of-encoder = identity, induction on paths; arithmetic on format boundaries) + model/implementation correspondence",
    "design_ref": "DESIGN.md section 7, C09",
})
CHECKS.append({
    "property_id": "C15",
    "text": ("Theorem C15_holds (coq/Props/C15.v) over coq/Model/ConnPath.v (parse_connection_path, parse_cip_route, slot shortcuts, driver flags; "
             "port-name table regenerated) against the independent grammar/reference reader coq/Spec/ConnPathGrammar.v: parse_sound (every "
             "spelling — separators / \\ , per position, port aliases or numbers, slot or dotted-quad links, optional :port — of every well-formed "
             "route yields the stated host, TCP port and reference route bytes, all CIP ports 1..65535), spellings_agree (identical bytes), "
             "rejection theorems each universally quantified over its class (odd number of segments, unknown port name, link out of range, "
             "malformed link, bad slot shortcut, TCP port non-numeric / negative / outside 1..65534, several colons), never_bytes_on_error, "
             "accepted_is_reference (anything accepted has the reference host/port/bytes wherever the reference defines them); the strict "
             "converse is proved outside six documented silent zones (accepts_in_grammar_strict_partial; witness h:+80 inside). String lemmas by "
             "induction. Tie: model/implementation correspondence on grammar strings, rejection-class members, all single-character edits."),
    "note": COMMON_NOTE + " C15: closed under the global context. ipaddress is modelled as a strict dotted-quad recogniser; host names are opaque; the 4300-digit int() limit is modelled.",
    "technique": "Coq proof (render/parse soundness and rejection classes by induction on strings) + model/implementation correspondence",
    "design_ref": "DESIGN.md section 7, C15 and section 10",
})
CHECKS.append({
    "property_id": "C16",
    "text": ("Theorem C16_holds (coq/Props/C16.v) over coq/Model/Identity.v against the independent field-by-field identity encoder "
             "coq/Spec/IdentitySpec.v: for EVERY identity with fields in range (vendor/product-type ids known or unknown -> 'UNKNOWN', every "
             "product name of length 0..255 over Latin-1 as a universally quantified list, every serial < 2^32 as exactly 8 lower-case hex digits "
             "by arithmetic, revision, status bytes, state, IPv4) list_identity / ListIdentityResponsePacket / get_module_info / get_plc_info / the "
             "discover response loop (induction on the datagram list) return exactly the device's values; identity encode-decode is the identity "
             "on the documented domain. Vendor (1463 rows), product-type and keyswitch tables and the declared struct member lists are regenerated "
             "from /repo; finite side conditions (unique ids) by vm_compute. Tie: correspondence on ~23k identities/replies per quick run incl. "
             "truncated and corrupted ones, pure decoders and the real drivers over a canned device."),
    "note": COMMON_NOTE + " C16: closed under the global context (coqchk passes in the thorough tier). Slice offsets 26/40/42/44 are hand-modelled and tied by correspondence.",
    "technique": "Coq proof (decode of spec-encode = view, induction on names/datagram lists, arithmetic for hex) + model/implementation correspondence",
    "design_ref": "DESIGN.md section 7, C16",
})

CHECKS.append({
    "property_id": "C11",
    "text": ("Theorem C11_holds (coq/Props/C11.v) over coq/Model/Encap.v (header and common-packet-format layouts, item types, commands and send() "
             "keyword sources regenerated from /repo by harness/gen_encap.py as layout descriptors the model interprets) against the independent "
             "strict parser coq/Spec/EncapParser.v: frame_ok — for every request class, EVERY payload (any list of byte strings; only the 16-bit "
             "length fields bound it, as hypotheses), every session < 2^32, 8-byte context and 4-byte connection id, build_request returns one "
             "frame that the strict parser reads as exactly the demanded command / session / zero status and options / two-item common packet "
             "whose lengths equal their contents; connected_starts_with_seq; history_ok — for ALL operation lists over open (any register reply), "
             "unconnected and connected requests (any Forward Open replies) and close, every emitted frame is accepted, has its operation's "
             "command, carries the last granted session handle (0 only before registration / after close) and every 0x70 frame the connection id "
             "of the last accepted Forward Open (invariant by induction); build_message_once for every class that sets the flag (refuted, with the "
             "class as exact guard, for RegisterSession whose frames are never rebuilt by the driver). Tie: correspondence of the real packet "
             "classes and CIPDriver histories with the extracted model, and the strict parser applied to every frame the real drivers write "
             "against the live reference target (random handles and connection ids)."),
    "note": COMMON_NOTE + " C11: closed under the global context; imports T1's parse_mk_frame (Proofs/TargetCoreP.v). Socket-fault histories are C10's; discover() over UDP is out of scope.",
    "technique": "Coq proof (strict parser of builder = identity for all payloads; history invariant by induction) + correspondence and strict parsing of real driver frames",
    "design_ref": "DESIGN.md section 7, C11",
})

CHECKS.append({
    "property_id": "C13",
    "text": ("Theorem C13_holds (coq/Props/C13.v) over coq/Model/Reply.v (what pycomm3 computes from raw reply bytes: base/SendUnitData/SendRRData/"
             "register/generic/read/fragmented/write/multi-service response parsing, get_service_status/get_extended_status, how read/write/"
             "generic_message/open turn responses into Tags) against the independent status-word reader coq/Spec/ReplyReader.v; status tables, "
             "Services and MULTI_PACKET_SERVICES regenerated: (1) for ALL byte strings a connected reply is valid exactly when encapsulation "
             "status 0, reply bit set and general status 0 (or 6 for the partial-transfer services), unconnected replies accept 0 only — so a "
             "reply too short to hold its status words is never success; (2) every well-formed non-success reply (header-only encapsulation "
             "errors included) has a non-empty error text naming the general status (table text or two-digit hex) and the extended status it "
             "carries (structural lemmas + a 256-value sweep lifted over arbitrary remaining bytes); (3) multi-service demultiplexing returns "
             "the per-service replies and classifies each by its own words; (4) for arbitrary reply bytes no public call raises anything but a "
             "library exception, a truthy result is backed by status words that say success, well-formed error replies give falsy Tags with "
             "text. Tie: correspondence on ~20k raw replies per quick run (all statuses x extended sizes x services x request kinds, every "
             "truncation, corruptions) through the real response classes and the public calls over a canned-reply socket."),
    "note": COMMON_NOTE + " C13: closed under the global context. Typed values cover atomic integer tags (scalars, 1-dim arrays); a fragmented write of zero segments is outside the input space (fixed by the request, not by a reply).",
    "technique": "Coq proof (case analysis on reply bytes, finite sweeps lifted by structural lemmas, induction on reply lists) + model/implementation correspondence on raw replies",
    "design_ref": "DESIGN.md section 7, C13",
})

_PENDING = "vertical not yet built in this session (see DESIGN.md section 9 staging); decided by Coq proof + correspondence when it lands"
_CLAIMED = {c["property_id"] for c in CHECKS}
NOT_APPLICABLE = [{"property_id": f"C{i:02d}", "reason": _PENDING} for i in range(1, 20) if f"C{i:02d}" not in _CLAIMED]

NOTES = ("Every check: regenerate coq/Gen from /repo, full .vo rebuild of the property's proof cone, Print Assumptions audit, "
         "rebuild of the extracted model, correspondence + property oracle on the implementation, verdict per DESIGN.md section 5.")
